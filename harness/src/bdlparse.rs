//! C18: the parsers of HULC files observed through their public API.

use crate::util::*;
use serde_json::{json, Value};
use std::time::Duration;

fn type_name(t: &hulc::bdl::BdlBlockType) -> String {
    let d = format!("{:?}", t);
    // CamelCase -> UPPER-CASE-WITH-DASHES (ExteriorWall -> EXTERIOR-WALL, SchedulePd -> SCHEDULE-PD)
    let mut s = String::new();
    for (i, c) in d.chars().enumerate() {
        if c.is_uppercase() && i > 0 {
            s.push('-');
        }
        s.push(c.to_ascii_uppercase());
    }
    s
}

fn norm_attrs(b: &hulc::bdl::BdlBlock) -> Vec<Value> {
    b.attrs
        .0
        .keys()
        .map(|k| {
            let v = match b.attrs.get_f32(k) {
                Ok(x) => {
                    let y = (x as f64 * 1e4).round();
                    if y.is_finite() && y.abs() < 2e9 { format!("n:{}", y as i64) } else { format!("n:{}", x) }
                }
                Err(_) => {
                    let t = b.attrs.get_str(k).unwrap_or_default();
                    if t.starts_with('(') {
                        // a list: item by item (the block parser keeps lists as raw text)
                        let inner = t.trim().trim_start_matches('(').trim_end_matches(')');
                        let items: Vec<String> = inner
                            .split(',')
                            .map(|x| x.trim().trim_matches('"').to_string())
                            .map(|x| match x.parse::<f32>() {
                                Ok(v) if !x.is_empty() => format!("n:{}", ((v as f64) * 1e4).round() as i64),
                                _ => x,
                            })
                            .collect();
                        format!("l:{}", items.join("|"))
                    } else {
                        format!("s:{}", t)
                    }
                }
            };
            json!([k, v])
        })
        .collect()
}

pub fn worker_handle(req: &Value) -> Value {
    let mode = req["mode"].as_str().unwrap_or("blocks");
    let text: String = if let Some(t) = req["text"].as_str() {
        t.to_string()
    } else {
        let bytes = std::fs::read(req["path"].as_str().unwrap_or("")).unwrap_or_default();
        match String::from_utf8(bytes.clone()) {
            Ok(s) => s,
            Err(_) => bytes.iter().map(|b| *b as char).collect(),
        }
    };
    // the BDL section of a .ctehexml
    let bdl: String = if let (Some(i), Some(j)) = (text.find("<EntradaGraficaLIDER>"), text.find("</EntradaGraficaLIDER>")) {
        let inner = &text[i + "<EntradaGraficaLIDER>".len()..j];
        inner.trim().trim_start_matches("<![CDATA[").trim_end_matches("]]>").to_string()
    } else {
        text.clone()
    };
    let src = req["src"].clone();
    match mode {
        "blocks" | "doc" | "digest" => {
            let r = catch(std::panic::AssertUnwindSafe(|| hulc::bdl::build_blocks(&bdl).map_err(|e| e.to_string())));
            match r {
                Ok(Ok(blocks)) => {
                    let par = |b: &hulc::bdl::BdlBlock| b.parent.clone().unwrap_or_else(|| "-".to_string());
                    if mode == "blocks" {
                        json!({"events": [{"ev": "Blocks", "src": src, "ok": true,
                            "names": blocks.iter().map(|b| b.name.clone()).collect::<Vec<_>>(),
                            "types": blocks.iter().map(|b| type_name(&b.btype)).collect::<Vec<_>>(),
                            "parents": blocks.iter().map(par).collect::<Vec<_>>()}]})
                    } else if mode == "doc" {
                        let got: Vec<Value> = blocks.iter().filter(|b| type_name(&b.btype) != "PARTE-LIDER" && type_name(&b.btype) != "GENERAL-DATA")
                            .map(|b| json!([b.name, type_name(&b.btype), par(b), norm_attrs(b)])).collect();
                        json!({"events": [{"ev": "Doc", "src": src, "ok": true, "layout": req["layout"], "exp": req["exp"], "got": got}]})
                    } else {
                        let dig: Vec<Value> = blocks.iter().map(|b| {
                            let a = norm_attrs(b);
                            json!([b.name, type_name(&b.btype), par(b), a.len(), format!("{:x}", md5::compute(Value::Array(a).to_string().as_bytes()))])
                        }).collect();
                        json!({"digest": dig})
                    }
                }
                Ok(Err(e)) => json!({"events": [{"ev": if mode == "blocks" { "Blocks" } else { "Doc" }, "src": src, "ok": false, "err": e.chars().take(200).collect::<String>(),
                    "names": [], "types": [], "parents": [], "exp": [], "got": []}], "digest": [], "err": e.chars().take(200).collect::<String>()}),
                Err(site) => json!({"events": [{"ev": if mode == "blocks" { "Blocks" } else { "Doc" }, "src": src, "ok": false, "err": format!("panic {}", site),
                    "names": [], "types": [], "parents": [], "exp": [], "got": []}], "digest": [], "err": format!("panic {}", site)}),
            }
        }
        "typed" => {
            let r = catch(std::panic::AssertUnwindSafe(|| hulc::bdl::Data::new(&bdl).map_err(|e| e.to_string())));
            let n4 = |x: f32| ((x as f64) * 1e4).round() as i64;
            match r {
                Ok(Ok(d)) => {
                    let got = json!({
                        "materials": d.db.materials.values().map(|m| json!([m.name,
                            m.properties.map_or(-1, |p| n4(p.conductivity)), m.properties.map_or(-1, |p| n4(p.density)),
                            m.properties.map_or(-1, |p| n4(p.specificheat)), m.resistance.map_or(-1, n4)])).collect::<Vec<_>>(),
                        "wallcons": d.db.wallcons.values().filter(|c| !c.material.is_empty()).map(|c| json!([c.name, c.material, c.thickness.iter().map(|t| n4(*t)).collect::<Vec<_>>()])).collect::<Vec<_>>(),
                        "spaces": d.spaces.iter().map(|s| json!([s.name, s.stype, s.floor, n4(s.height), n4(s.x), n4(s.y), n4(s.z), n4(s.angle_with_building_north),
                            s.insidete, n4(s.multiplier), n4(s.floor_multiplier), s.spaceconds, s.systemconds, s.polygon.as_vec().iter().map(|p| json!([n4(p.x), n4(p.y)])).collect::<Vec<_>>(),
                            s.airchanges_h.map_or(-1, n4), n4(s.power), n4(s.veei_obj), n4(s.veei_ref), s.spacetype])).collect::<Vec<_>>(),
                        "walls": d.walls.iter().map(|w| json!([w.name, format!("{:?}", w.bounds), w.space, w.cons, w.location.clone().unwrap_or_else(|| "-".into()),
                            n4(w.tilt), w.nextto.clone().unwrap_or_else(|| "-".into())])).collect::<Vec<_>>(),
                        "windows": d.windows.iter().map(|w| json!([w.name, w.wall, w.cons, n4(w.x), n4(w.y), n4(w.width), n4(w.height), n4(w.setback),
                            w.coefs.as_ref().map(|c| c.iter().map(|x| n4(*x)).collect::<Vec<_>>()).unwrap_or_default(),
                            w.overhang.as_ref().map(|o| vec![n4(o.a), n4(o.b), n4(o.depth), n4(o.width), n4(o.angle)]).unwrap_or_default(),
                            w.left_fin.as_ref().map(|f| vec![n4(f.a), n4(f.b), n4(f.depth), n4(f.height)]).unwrap_or_default(),
                            w.right_fin.as_ref().map(|f| vec![n4(f.a), n4(f.b), n4(f.depth), n4(f.height)]).unwrap_or_default(),
                            w.louvres.as_ref().map(|l| json!([l.is_horizontal, n4(l.width), n4(l.distance), n4(l.angle), n4(l.transmisivity), n4(l.reflectivity)])).unwrap_or(json!([]))])).collect::<Vec<_>>(),
                        "wallgeo": d.walls.iter().filter(|w| w.location.is_none()).map(|w| json!([w.name, n4(w.x), n4(w.y), n4(w.z), n4(w.angle_with_space_north),
                            w.polygon.as_ref().map(|p| p.as_vec().iter().map(|q| json!([n4(q.x), n4(q.y)])).collect::<Vec<_>>()).unwrap_or_default()])).collect::<Vec<_>>(),
                        "wincons": d.db.wincons.values().map(|c| json!([c.name, c.glass, c.frame, n4(c.framefrac), n4(c.infcoeff), n4(c.deltau), c.gglshwi.map_or(-1, n4)])).collect::<Vec<_>>(),
                        "glasses": d.db.glasses.values().map(|g| json!([g.name, n4(g.conductivity), n4(g.g_gln)])).collect::<Vec<_>>(),
                        "frames": d.db.frames.values().map(|f| json!([f.name, n4(f.conductivity), n4(f.absorptivity), n4(f.width)])).collect::<Vec<_>>(),
                        "shades": d.shadings.iter().map(|s| json!([s.name,
                            s.geometry.as_ref().map(|g| vec![n4(g.x), n4(g.y), n4(g.z), n4(g.height), n4(g.width), n4(g.azimuth), n4(g.tilt)]).unwrap_or_default(),
                            s.vertices.as_ref().map(|v| v.iter().map(|p| json!([n4(p.x), n4(p.y), n4(p.z)])).collect::<Vec<_>>()).unwrap_or_default()])).collect::<Vec<_>>(),
                        "tbs": d.thermal_bridges.iter().map(|t| json!([t.name, t.length.map_or(-1, n4), n4(t.psi), n4(t.frsi)])).collect::<Vec<_>>(),
                        "tbx": d.thermal_bridges.iter().map(|t| json!([t.name, t.tbtype,
                            t.geometry.as_ref().map(|g| vec![n4(g.anglemin), n4(g.anglemax)]).unwrap_or_default(),
                            t.geometry.as_ref().map(|g| g.partition.clone()).unwrap_or_default(),
                            if t.catalog.is_some() { 1 } else { 0 },
                            t.catalog.as_ref().map(|c| c.classes.clone()).unwrap_or_default(),
                            t.catalog.as_ref().map(|c| c.pcts.iter().map(|x| n4(*x)).collect::<Vec<_>>()).unwrap_or_default(),
                            t.catalog.as_ref().map(|c| c.firstelems.iter().map(|x| n4(*x)).collect::<Vec<_>>()).unwrap_or_default(),
                            t.catalog.as_ref().and_then(|c| c.secondelems.as_ref()).map(|v| v.iter().map(|x| n4(*x)).collect::<Vec<_>>()).unwrap_or_default()])).collect::<Vec<_>>(),
                        "floors": floors_of(&bdl),
                        "absorptance": d.db.wallcons.values().filter(|c| !c.material.is_empty()).map(|c| json!([c.name, n4(c.absorptance)])).collect::<Vec<_>>(),
                        "groups": json!({
                            "materials": d.db.materials.values().map(|m| json!([m.name, m.group])).collect::<Vec<_>>(),
                            "layers": d.db.wallcons.values().filter(|c| !c.material.is_empty()).map(|c| json!([c.name, c.group])).collect::<Vec<_>>(),
                            "glasses": d.db.glasses.values().map(|g| json!([g.name, g.group])).collect::<Vec<_>>(),
                            "frames": d.db.frames.values().map(|f| json!([f.name, f.group])).collect::<Vec<_>>(),
                            "gaps": d.db.wincons.values().map(|c| json!([c.name, c.group, c.glassgroup, c.framegroup])).collect::<Vec<_>>()}),
                        "matx": d.db.materials.values().filter_map(|m| m.properties.map(|p| json!([m.name, p.thickness.map_or(-1, n4), p.vapourdiffusivity.map_or(-1, n4)]))).collect::<Vec<_>>(),
                    });
                    json!({"events": [{"ev": "Typed", "src": src, "ok": true, "exp": req["exp"], "got": got}]})
                }
                Ok(Err(e)) => json!({"events": [{"ev": "Typed", "src": src, "ok": false, "err": e.chars().take(200).collect::<String>(), "exp": {}, "got": {}}]}),
                Err(site) => json!({"events": [{"ev": "Typed", "src": src, "ok": false, "err": format!("panic {}", site), "exp": {}, "got": {}}]}),
            }
        }
        "kyg" => {
            let r = catch(std::panic::AssertUnwindSafe(|| hulc::kyg::parse(&text).map_err(|e| e.to_string())));
            let n4 = |x: f32| ((x as f64) * 1e4).round() as i64;
            match r {
                Ok(Ok(k)) => {
                    let got = json!({
                        "k": n4(k.k),
                        "walls": k.walls.values().map(|w| json!([w.name, n4(w.a), n4(w.u), n4(w.btrx), w.wtype.clone().unwrap_or_default(), w.orientation.clone().unwrap_or_default(), w.cons.clone().unwrap_or_default()])).collect::<Vec<_>>(),
                        "windows": k.windows.values().map(|w| json!([w.name, n4(w.a), n4(w.u), w.orientation, n4(w.ff), w.ggln.map_or(-1, n4), w.infcoeff_100.map_or(-1, n4), w.cons.clone().unwrap_or_default(), n4(w.azimuth_n), n4(w.fshobst)])).collect::<Vec<_>>(),
                        "tbs": k.thermal_bridges.values().map(|t| json!([t.name, n4(t.l), n4(t.psi), t.sisdim])).collect::<Vec<_>>(),
                        "hfactors": k.hfactors.iter().map(|h| n4(*h)).collect::<Vec<_>>(),
                    });
                    json!({"events": [{"ev": "Typed", "src": src, "ok": true, "exp": req["exp"], "got": got}]})
                }
                Ok(Err(e)) => json!({"events": [{"ev": "Typed", "src": src, "ok": false, "err": e.chars().take(200).collect::<String>(), "exp": {}, "got": {}}]}),
                Err(site) => json!({"events": [{"ev": "Typed", "src": src, "ok": false, "err": format!("panic {}", site), "exp": {}, "got": {}}]}),
            }
        }
        "tbl" => {
            let p = std::path::PathBuf::from(req["scratch"].as_str().unwrap_or("/tmp")).join(format!("c18_{}.tbl", std::process::id()));
            let _ = std::fs::write(&p, text.as_bytes());
            let r = catch(std::panic::AssertUnwindSafe(|| hulc::tbl::parse(&p).map_err(|e| e.to_string())));
            let _ = std::fs::remove_file(&p);
            let n4 = |x: f32| ((x as f64) * 1e4).round() as i64;
            match r {
                Ok(Ok(t)) => {
                    let got = json!({
                        "elements": t.elements.values().map(|e| json!([e.name, n4(e.area), n4(e.u), n4(e.w_or_inf), n4(e.g_winter), n4(e.g_summer), n4(e.ang_north), n4(e.tilt), e.id_surf, e.id_space, format!("{:?}", e.type_)])).collect::<Vec<_>>(),
                        "spaces": t.spaces.values().map(|s| json!([s.name, s.id_space, s.mult, n4(s.area), n4(s.qint)])).collect::<Vec<_>>(),
                    });
                    json!({"events": [{"ev": "Typed", "src": src, "ok": true, "exp": req["exp"], "got": got}]})
                }
                Ok(Err(e)) => json!({"events": [{"ev": "Typed", "src": src, "ok": false, "err": e.chars().take(200).collect::<String>(), "exp": {}, "got": {}}]}),
                Err(site) => json!({"events": [{"ev": "Typed", "src": src, "ok": false, "err": format!("panic {}", site), "exp": {}, "got": {}}]}),
            }
        }
        _ => json!({"events": []}),
    }
}

/// FLOOR elements are consumed while the spaces are built (bdl::Data keeps no list of them): typed from the blocks
fn floors_of(bdl: &str) -> Value {
    use std::convert::TryFrom;
    let blocks = hulc::bdl::build_blocks(bdl).unwrap_or_default();
    let n4 = |x: f32| ((x as f64) * 1e4).round() as i64;
    Value::Array(blocks.into_iter().filter(|b| type_name(&b.btype) == "FLOOR").filter_map(|b| hulc::bdl::Floor::try_from(b).ok())
        .map(|f| json!([f.name, n4(f.z), n4(f.height), n4(f.multiplier), f.previous])).collect())
}

pub fn main_bdlparse(args: &Args) {
    let out_path = args.get("--out").unwrap_or_else(|| "work/bdlparse.ndjson".to_string());
    let mut w = Worker::new("bdlparse");
    let mut out: Vec<String> = vec![];
    let mut n = 0;
    for l in read_lines(&args.get("--reqs").unwrap_or_default()) {
        let req: Value = match serde_json::from_str(&l) {
            Ok(v) => v,
            Err(_) => continue,
        };
        n += 1;
        if req["mode"] == "reprint" {
            // two digests: the file as shipped and the re-printed text
            let a = w.call(&json!({"mode": "digest", "path": req["path"]}), Duration::from_secs(30));
            let b = w.call(&json!({"mode": "digest", "text": req["text"]}), Duration::from_secs(30));
            let ok = matches!((&a, &b), (Ok(x), Ok(y)) if x.get("err").is_none() && y.get("err").is_none());
            let err = format!("{} / {}", a.as_ref().ok().and_then(|x| x["err"].as_str().map(|s| s.to_string())).unwrap_or_default(),
                b.as_ref().ok().and_then(|x| x["err"].as_str().map(|s| s.to_string())).unwrap_or_default());
            out.push(json!({"ev": "Reprint", "src": req["src"], "ok": ok, "err": err, "layout": req["layout"],
                "a": a.ok().map(|x| x["digest"].clone()).unwrap_or(json!([])), "b": b.ok().map(|x| x["digest"].clone()).unwrap_or(json!([]))}).to_string());
            continue;
        }
        match w.call(&req, Duration::from_secs(30)) {
            Ok(ans) => {
                for e in ans["events"].as_array().cloned().unwrap_or_default() {
                    out.push(e.to_string());
                }
            }
            Err(kind) => out.push(json!({"ev": "Typed", "src": req["src"], "ok": false, "err": kind, "exp": {}, "got": {}}).to_string()),
        }
    }
    write_lines(&out_path, &out);
    println!("{}", json!({"requests": n, "traces": n, "events": out.len(), "out": out_path}));
}
