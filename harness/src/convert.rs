//! Conversion of project texts (BDL / .ctehexml / legacy .cte) through the real parser and converter in a
//! supervised worker. Serves C02 (closure), C03 (geometry), C18, C19.

use crate::absmodel::{graph_of, Interner};
use crate::util::*;
use bemodel::Model;
use serde_json::{json, Value};
use std::time::Duration;

pub fn convert_any(text: &str, fmt: &str) -> Result<Model, String> {
    let r = catch(std::panic::AssertUnwindSafe(|| -> Result<Model, String> {
        match fmt {
            "ctehexml" => {
                let d = hulc::ctehexml::parse_with_catalog(text).map_err(|e| format!("parse: {}", e))?;
                Model::try_from(&d).map_err(|e| format!("convert: {}", e))
            }
            "cte" => {
                // legacy LIDER file: BDL text + the embedded LIDER catalogue, exactly as parse_with_catalog does
                let mut d = hulc::ctehexml::CtehexmlData::default();
                d.bdldata = hulc::bdl::Data::new(text).map_err(|e| format!("parse: {}", e))?;
                let cat = hulc::ctehexml::load_lider_catalog().map_err(|e| format!("catalog: {}", e))?;
                d.bdldata.db.materials.extend(cat.materials);
                d.bdldata.db.wallcons.extend(cat.wallcons);
                d.bdldata.db.wincons.extend(cat.wincons);
                d.bdldata.db.glasses.extend(cat.glasses);
                d.bdldata.db.frames.extend(cat.frames);
                d.datos_generales.archivo_climatico = "D3".to_string();
                Model::try_from(&d).map_err(|e| format!("convert: {}", e))
            }
            _ => {
                let mut d = hulc::ctehexml::CtehexmlData::default();
                d.bdldata = hulc::bdl::Data::new(text).map_err(|e| format!("parse: {}", e))?;
                d.datos_generales.archivo_climatico = "D3".to_string();
                Model::try_from(&d).map_err(|e| format!("convert: {}", e))
            }
        }
    }));
    match r {
        Ok(x) => x,
        Err(site) => Err(format!("panic: {}", site)),
    }
}

fn nil_links(m: &Model) -> usize {
    let mut n = 0;
    for w in &m.walls {
        if w.space.is_nil() { n += 1; }
        if w.cons.is_nil() { n += 1; }
        if w.next_to.map_or(false, |u| u.is_nil()) { n += 1; }
    }
    for w in &m.windows {
        if w.wall.is_nil() { n += 1; }
        if w.cons.is_nil() { n += 1; }
    }
    for c in &m.cons.wincons {
        if c.glass.is_nil() { n += 1; }
        if c.frame.is_nil() { n += 1; }
    }
    n
}

/// names of the elements, for id stability and for matching geometry with the source
fn names_of(m: &Model) -> Value {
    json!({"spaces": m.spaces.iter().map(|s| s.name.clone()).collect::<Vec<_>>(),
        "walls": m.walls.iter().map(|s| s.name.clone()).collect::<Vec<_>>(),
        "windows": m.windows.iter().map(|s| s.name.clone()).collect::<Vec<_>>(),
        "shades": m.shades.iter().map(|s| s.name.clone()).collect::<Vec<_>>()})
}

pub fn worker_handle(req: &Value) -> Value {
    let text = req["text"].as_str().unwrap_or("");
    let fmt = req["fmt"].as_str().unwrap_or("bdl");
    let mut ev = serde_json::Map::new();
    ev.insert("ev".into(), json!("Convert"));
    for k in ["name", "src", "mutation", "edge", "broken", "expect", "kind", "line", "file"] {
        if let Some(v) = req.get(k) {
            ev.insert(k.into(), v.clone());
        }
    }
    match convert_any(text, fmt) {
        Ok(m) => {
            let mut it = Interner::new();
            ev.insert("outcome".into(), json!("model"));
            if req["want_graph"].as_bool().unwrap_or(true) {
                ev.insert("graph".into(), graph_of(&m, &mut it));
            }
            let ws = catch(std::panic::AssertUnwindSafe(|| bemodel::check(&m))).map(|w| w.len() as i64).unwrap_or(-1);
            ev.insert("nwarnings".into(), json!(ws));
            ev.insert("nil_links".into(), json!(nil_links(&m)));
            if req["want_names"].as_bool().unwrap_or(false) {
                ev.insert("names".into(), names_of(&m));
            }
            if req["want_geometry"].as_bool().unwrap_or(false) {
                ev.insert("geom".into(), crate::geom::geometry_of(&m));
            }
            if let Some(p) = req["dump_json"].as_str() {
                // the converted model as a file, for the checks that read model files
                let ok = m.as_json().ok().map(|js| std::fs::write(p, js).is_ok()).unwrap_or(false);
                ev.insert("dumped".into(), json!(ok));
            }
            if req["want_indicators"].as_bool().unwrap_or(false) {
                // the quantities a turn of the building must leave unchanged
                let r = catch(std::panic::AssertUnwindSafe(|| m.energy_indicators()));
                let qq = |v: f32, s: f64| -> i64 { let x = v as f64 * s; if x.is_finite() && x.abs() < 2.0e9 { x.round() as i64 } else { -999999 } };
                match r {
                    Ok(ind) => {
                        let mut us: Vec<(String, i64)> = m.walls.iter().map(|w| (w.name.clone(), ind.props.walls.get(&w.id).and_then(|p| p.u_value).map(|u| qq(u, 10000.0)).unwrap_or(-1))).collect();
                        us.extend(m.windows.iter().map(|w| (w.name.clone(), ind.props.windows.get(&w.id).and_then(|p| p.u_value).map(|u| qq(u, 10000.0)).unwrap_or(-1))));
                        ev.insert("ind".into(), json!({"ok": true, "K": qq(ind.K_data.K, 10000.0), "n50": qq(ind.n50_data.n50, 10000.0), "area_ref": qq(ind.area_ref, 100.0),
                            "vol_net": qq(ind.vol_env_net, 100.0), "vol_gross": qq(ind.vol_env_gross, 100.0), "compacity": qq(ind.compactness, 10000.0),
                            "u": us.iter().map(|x| x.1).collect::<Vec<_>>(),
                            "space_areas": m.spaces.iter().map(|s| qq(s.area(&m.walls), 100.0)).collect::<Vec<_>>()}));
                    }
                    Err(site) => {
                        ev.insert("ind".into(), json!({"ok": false, "site": site}));
                    }
                }
            }
        }
        Err(e) => {
            let outcome = if e.starts_with("panic: ") { "panic" } else { "err" };
            ev.insert("outcome".into(), json!(outcome));
            let site = if outcome == "panic" { e[7..].split('|').next().unwrap_or("").to_string() } else { String::new() };
            ev.insert("site".into(), json!(site));
            ev.insert("msg".into(), json!(e.chars().take(200).collect::<String>()));
        }
    }
    json!({"events": [Value::Object(ev)]})
}

/// requests: ndjson lines {name, text | path, fmt, ...}; parallel over `jobs` workers, order preserved
pub fn run_requests(reqs: Vec<Value>, jobs: usize, timeout: Duration) -> Vec<Value> {
    let n = reqs.len();
    let reqs = std::sync::Arc::new(reqs);
    let next = std::sync::Arc::new(std::sync::atomic::AtomicUsize::new(0));
    let results = std::sync::Arc::new(std::sync::Mutex::new(vec![Value::Null; n]));
    let handles: Vec<_> = (0..jobs.max(1))
        .map(|_| {
            let reqs = reqs.clone();
            let next = next.clone();
            let results = results.clone();
            std::thread::spawn(move || {
                let mut w = Worker::new("convert");
                w.mem_limit_mb = 3072;
                loop {
                    let i = next.fetch_add(1, std::sync::atomic::Ordering::SeqCst);
                    if i >= reqs.len() {
                        break;
                    }
                    let mut req = reqs[i].clone();
                    if req.get("text").is_none() {
                        if let Some(p) = req["path"].as_str() {
                            let bytes = std::fs::read(p).unwrap_or_default();
                            let text = match String::from_utf8(bytes.clone()) {
                                Ok(s) => s,
                                Err(_) => bytes.iter().map(|b| *b as char).collect(),
                            };
                            req["text"] = json!(text);
                        }
                    }
                    let ans = w.call(&req, timeout);
                    let ev = match ans {
                        Ok(a) => a["events"][0].clone(),
                        Err(kind) => {
                            let mut ev = serde_json::Map::new();
                            ev.insert("ev".into(), json!("Convert"));
                            for k in ["name", "src", "mutation", "edge", "broken", "expect", "kind", "line", "file"] {
                                if let Some(v) = req.get(k) {
                                    ev.insert(k.into(), v.clone());
                                }
                            }
                            ev.insert("outcome".into(), json!(if kind == "hang" { "hang" } else { "crash" }));
                            ev.insert("site".into(), json!(kind));
                            Value::Object(ev)
                        }
                    };
                    results.lock().unwrap()[i] = ev;
                }
            })
        })
        .collect();
    for h in handles {
        let _ = h.join();
    }
    let r = results.lock().unwrap().clone();
    r
}

pub fn main_convert(args: &Args) {
    let out_path = args.get("--out").unwrap_or_else(|| "work/convert.ndjson".to_string());
    let jobs = args.num("--jobs", 12);
    let timeout = Duration::from_millis(args.num("--timeout-ms", 10000) as u64);
    let mut reqs: Vec<Value> = vec![];
    if let Some(rf) = args.get("--reqs") {
        for l in read_lines(&rf) {
            if let Ok(v) = serde_json::from_str::<Value>(&l) {
                reqs.push(v);
            }
        }
    }
    let evs = run_requests(reqs, jobs, timeout);
    write_lines(&out_path, &evs.iter().map(|e| e.to_string()).collect::<Vec<_>>());
    let nmodel = evs.iter().filter(|e| e["outcome"] == "model").count();
    println!("{}", json!({"events": evs.len(), "traces": evs.len(), "models": nmodel, "out": out_path}));
}
