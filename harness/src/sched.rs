//! C17: schedules. Records expansions (SchedulesDb::get_year_as_day_sch), conversions of HULC schedule
//! blocks (through the BDL parser and Model::try_from) and the occupancy figures of the indicators.

use crate::absmodel::Interner;
use crate::util::*;
use bemodel::{Model, Schedule, ScheduleDay, ScheduleWeek, SchedulesDb, SpaceType, Uuid};
use serde_json::{json, Value};

pub fn convert_bdl(text: &str) -> Result<Model, String> {
    let r = catch(std::panic::AssertUnwindSafe(|| -> Result<Model, String> {
        let mut d = hulc::ctehexml::CtehexmlData::default();
        d.bdldata = hulc::bdl::Data::new(text).map_err(|e| format!("parse: {}", e))?;
        d.datos_generales.archivo_climatico = "D3".to_string();
        Model::try_from(&d).map_err(|e| format!("convert: {}", e))
    }));
    match r {
        Ok(x) => x,
        Err(site) => Err(format!("panic: {}", site)),
    }
}

fn uid(n: i64) -> Uuid {
    Uuid::from_u128(n as u128)
}

fn expand_event(db: &SchedulesDb, year: &Schedule, it: &mut Interner, src: &str) -> Value {
    // repetition counts beyond any calendar (a wrapped-around u32) would make the expansion exhaust the memory of this
    // process, which cannot be caught: such a schedule is reported as it is, unexpanded (its conversion event fails)
    let absurd = year.values.iter().any(|v| v.1 > 100_000)
        || year.values.iter().filter_map(|v| db.get_week(v.0)).any(|w| w.values.iter().any(|d| d.1 > 100_000));
    if absurd {
        return json!({"ev": "Expand", "src": src, "periods": year.values.iter().map(|(w, c)| json!([it.id(*w), (*c).min(1_000_000)])).collect::<Vec<_>>(),
            "weeks": [], "got": [-1], "absurd": true});
    }
    let got = catch(std::panic::AssertUnwindSafe(|| db.get_year_as_day_sch(year.id)));
    let weeks_used: Vec<Uuid> = {
        let mut v: Vec<Uuid> = year.values.iter().map(|x| x.0).collect();
        v.sort();
        v.dedup();
        v
    };
    let weeks: Vec<Value> = weeks_used
        .iter()
        .filter_map(|w| db.get_week(*w))
        .map(|w| json!({"id": it.id(w.id), "runs": w.values.iter().map(|(d, c)| json!([it.id(*d), c])).collect::<Vec<_>>()}))
        .collect();
    // the yearly values (and the "in use" flags) are the values of the days of the expansion, in order: every day the weeks
    // refer to gets a profile of its own (with zeros, tiny and ordinary values) unless the model has one
    let mut db2 = db.clone();
    for w in weeks_used.iter().filter_map(|w| db.get_week(*w)) {
        for (d, _) in &w.values {
            if db2.get_day(*d).is_none() {
                let k = (d.as_u128() % 1000) as usize;
                db2.day.push(ScheduleDay { id: *d, name: "D".into(),
                    values: (0..24).map(|h| [0.0f32, 0.25, 1.0, 1e-6, 0.5][(k * 7 + h * 3 + h / 5) % 5]).collect() });
            }
        }
    }
    let yv = catch(std::panic::AssertUnwindSafe(|| (db2.year_values(year.id), db2.year_values_is_not_zero(year.id))));
    match got {
        Ok(g) => {
            let exp: Vec<f32> = g.iter().flat_map(|d| db2.get_day(*d).map(|x| x.values.clone()).unwrap_or_default()).collect();
            let (yv_ok, nz_ok) = match &yv {
                Ok((v, nz)) => (v.len() == exp.len() && v.iter().zip(exp.iter()).all(|(a, b)| a.to_bits() == b.to_bits()),
                                nz.len() == exp.len() && nz.iter().zip(exp.iter()).all(|(a, b)| *a == (b.abs() > 100.0 * f32::EPSILON))),
                Err(_) => (false, false),
            };
            json!({"ev": "Expand", "src": src,
            "periods": year.values.iter().map(|(w, c)| json!([it.id(*w), c])).collect::<Vec<_>>(),
            "weeks": weeks, "got": g.iter().map(|d| it.id(*d)).collect::<Vec<_>>(), "yv_ok": yv_ok, "nz_ok": nz_ok, "yv_len": exp.len()})
        }
        Err(site) => json!({"ev": "Expand", "src": src, "periods": [], "weeks": [], "got": [-1], "panic": site}),
    }
}

fn rand_week(rng: &mut Rng, id: i64, ndays: i64, wellformed: bool) -> ScheduleWeek {
    let mut left = if wellformed { 7 } else { rng.range(0, 9) };
    let mut values = vec![];
    while left > 0 {
        let c = rng.range(1, left.min(5));
        values.push((uid(rng.range(1, ndays)), c as u32));
        left -= c;
    }
    ScheduleWeek { id: uid(id), name: format!("W{}", id), values }
}

fn occupancy_event(m: &Model, it: &mut Interner, src: &str) -> Option<Value> {
    let ind = catch(std::panic::AssertUnwindSafe(|| m.energy_indicators())).ok()?;
    let g = &ind.props.global;
    let db = &m.schedules;
    let mut wellformed = true;
    let mut years_used: Vec<Uuid> = vec![];
    let spaces: Vec<Value> = m
        .spaces
        .iter()
        .map(|s| {
            let occ = s.kind != SpaceType::UNINHABITED && s.inside_tenv && s.loads.is_some();
            let loads = s.loads.and_then(|l| m.loads.iter().find(|x| x.id == l));
            if occ && loads.is_none() {
                wellformed = false;
            }
            let area = ind.props.spaces.get(&s.id).map_or(0.0, |p| p.area);
            let (mut people, mut light, mut equip) = (-1i64, -1i64, -1i64);
            let (mut psens, mut li, mut eq) = (0i64, 0i64, 0i64);
            if let (true, Some(l)) = (occ, loads) {
                for y in [l.people_schedule, l.lighting_schedule, l.equipment_schedule].iter().flatten() {
                    years_used.push(*y);
                }
                people = it.opt(l.people_schedule);
                light = it.opt(l.lighting_schedule);
                equip = it.opt(l.equipment_schedule);
                psens = q(l.people_sensible, 1e2).unwrap_or(0);
                li = q(l.lighting, 1e2).unwrap_or(0);
                eq = q(l.equipment, 1e2).unwrap_or(0);
                if l.people_sensible < 0.0 || l.lighting < 0.0 || l.equipment < 0.0 {
                    wellformed = false;
                }
            }
            json!({"occ": occ, "area": q(area, 1e4).unwrap_or(0), "mult": q(s.multiplier, 1e2).unwrap_or(0),
                "people": people, "light": light, "equip": equip, "psens": psens, "li": li, "eq": eq})
        })
        .collect();
    years_used.sort();
    years_used.dedup();
    let mut weeks_used: Vec<Uuid> = vec![];
    let mut years: Vec<Value> = vec![];
    for y in &years_used {
        match db.get_year(*y) {
            Some(ys) => {
                for (w, _) in &ys.values {
                    weeks_used.push(*w);
                }
                years.push(json!({"id": it.id(*y), "runs": ys.values.iter().map(|(w, c)| json!([it.id(*w), c])).collect::<Vec<_>>()}));
            }
            None => wellformed = false,
        }
    }
    weeks_used.sort();
    weeks_used.dedup();
    let mut days_used: Vec<Uuid> = vec![];
    let mut weeks: Vec<Value> = vec![];
    for w in &weeks_used {
        match db.get_week(*w) {
            Some(ws) => {
                if ws.values.iter().map(|v| v.1).sum::<u32>() != 7 {
                    wellformed = false;
                }
                for (d, _) in &ws.values {
                    days_used.push(*d);
                }
                weeks.push(json!({"id": it.id(*w), "runs": ws.values.iter().map(|(d, c)| json!([it.id(*d), c])).collect::<Vec<_>>()}));
            }
            None => wellformed = false,
        }
    }
    days_used.sort();
    days_used.dedup();
    let mut days: Vec<Value> = vec![];
    for d in &days_used {
        match db.get_day(*d) {
            Some(ds) => {
                if ds.values.len() != 24 || ds.values.iter().any(|v| !v.is_finite() || *v < 0.0 || (*v > 0.0 && *v < 1e-4)) {
                    wellformed = false;
                }
                days.push(json!({"id": it.id(*d), "vals": ds.values.iter().map(|v| q(*v, 1e4).unwrap_or(0)).collect::<Vec<_>>()}));
            }
            None => wellformed = false,
        }
    }
    let mean = g.occ_spaces_average_load;
    Some(json!({"ev": "Occupancy", "src": src, "spaces": spaces, "years": years, "weeks": weeks, "days": days,
        "hours": g.occ_spaces_hours_in_use, "mean": q(mean.max(0.0), 1e4).unwrap_or(0),
        "meanok": mean.is_finite() && mean >= 0.0 && q(mean, 1e4).is_some(), "wellformed": wellformed}))
}

const MONTHLEN: [i64; 12] = [31, 28, 31, 30, 31, 30, 31, 31, 30, 31, 30, 31];

fn bdl_schedules_doc(days: &[(String, Vec<String>)], weeks: &[(String, Vec<String>)], years: &[(String, Vec<(i64, i64)>, Vec<String>)]) -> String {
    let mut s = String::new();
    for (n, vals) in days {
        s += &format!("\"{}\" = DAY-SCHEDULE-PD\n  TYPE  = FRACTION\n  VALUES  = ( {})\n  ..\n", n, vals.join(", "));
    }
    for (n, ds) in weeks {
        let names: Vec<String> = ds.iter().map(|d| format!("\"{}\"", d)).collect();
        s += &format!("\"{}\" = WEEK-SCHEDULE-PD\n  TYPE  = FRACTION\n  DAY-SCHEDULES = ( {})\n  ..\n", n, names.join(",\n        "));
    }
    for (n, dates, ws) in years {
        let names: Vec<String> = ws.iter().map(|d| format!("\"{}\"", d)).collect();
        s += &format!(
            "\"{}\" = SCHEDULE-PD\n  TYPE   = FRACTION\n  MONTH = ( {})\n  DAY   = ( {})\n  WEEK-SCHEDULES = ( {})\n  ..\n",
            n,
            dates.iter().map(|d| d.1.to_string()).collect::<Vec<_>>().join(", "),
            dates.iter().map(|d| d.0.to_string()).collect::<Vec<_>>().join(", "),
            names.join(", ")
        );
    }
    s
}

fn conversion_events(rng: &mut Rng, out: &mut Vec<Value>, all_dates: bool, nrandom: usize) {
    // daily and weekly schedules shared by all the yearly ones
    let dnames: Vec<String> = (1..=4).map(|i| format!("D{}", i)).collect();
    let mut days = vec![];
    let mut day_vals: Vec<Vec<i64>> = vec![];
    for (i, n) in dnames.iter().enumerate() {
        let vals: Vec<i64> = if i == 0 { vec![rng.range(0, 100)] } else { (0..24).map(|_| rng.range(0, 100)).collect() };
        days.push((n.clone(), vals.iter().map(|v| format!("{}", *v as f64 / 100.0)).collect::<Vec<_>>()));
        day_vals.push(vals);
    }
    let wnames: Vec<String> = (1..=3).map(|i| format!("W{}", i)).collect();
    let mut weeks = vec![];
    let mut week_days: Vec<Vec<usize>> = vec![];
    for (i, n) in wnames.iter().enumerate() {
        let ds: Vec<usize> = if i == 0 { vec![rng.below(4)] } else {
            // runs of equal names so that run-length encoding has something to merge
            let mut v = vec![];
            while v.len() < 7 {
                let d = rng.below(4);
                for _ in 0..rng.range(1, 4) {
                    if v.len() < 7 {
                        v.push(d);
                    }
                }
            }
            v
        };
        weeks.push((n.clone(), ds.iter().map(|d| dnames[*d].clone()).collect::<Vec<_>>()));
        week_days.push(ds);
    }
    let mut years: Vec<(String, Vec<(i64, i64)>, Vec<String>)> = vec![];
    let mut year_weeks: Vec<Vec<usize>> = vec![];
    if all_dates {
        // every date of the year as the single end date of a one-period schedule: observes day_of_year
        for m in 1..=12i64 {
            for d in 1..=MONTHLEN[(m - 1) as usize] {
                years.push((format!("Y{}_{}", m, d), vec![(d, m)], vec![wnames[0].clone()]));
                year_weeks.push(vec![0]);
            }
        }
    }
    for i in 0..nrandom {
        let k = 1 + rng.below(6);
        let mut ns: Vec<i64> = (0..k - 1).map(|_| rng.range(1, 364)).collect();
        ns.push(365);
        ns.sort();
        ns.dedup();
        let dates: Vec<(i64, i64)> = ns
            .iter()
            .map(|n| {
                let mut n = *n;
                let mut m = 1;
                while n > MONTHLEN[(m - 1) as usize] {
                    n -= MONTHLEN[(m - 1) as usize];
                    m += 1;
                }
                (n, m)
            })
            .collect();
        let ws: Vec<usize> = dates.iter().map(|_| rng.below(3)).collect();
        years.push((format!("R{}", i), dates, ws.iter().map(|w| wnames[*w].clone()).collect()));
        year_weeks.push(ws);
    }
    let doc = bdl_schedules_doc(&days, &weeks, &years);
    let res = convert_bdl(&doc);
    let mut it = Interner::new();
    match res {
        Ok(m) => {
            let db = &m.schedules;
            let did = |n: &str| db.day.iter().find(|d| d.name == n).map(|d| d.id);
            let wid = |n: &str| db.week.iter().find(|d| d.name == n).map(|d| d.id);
            // names -> small ints: day i -> i+1, week i -> 11+i
            let mut dmap = std::collections::HashMap::new();
            for (i, n) in dnames.iter().enumerate() {
                if let Some(u) = did(n) {
                    dmap.insert(u, (i + 1) as i64);
                }
            }
            let mut wmap = std::collections::HashMap::new();
            for (i, n) in wnames.iter().enumerate() {
                if let Some(u) = wid(n) {
                    wmap.insert(u, (11 + i) as i64);
                }
            }
            for (i, n) in dnames.iter().enumerate() {
                let got = db.day.iter().find(|d| &d.name == n);
                out.push(json!({"ev": "ConvDay", "ok": got.is_some(), "vals": day_vals[i].iter().map(|v| v * 100).collect::<Vec<_>>(),
                    "got": got.map(|d| d.values.iter().map(|v| q(*v, 1e4).unwrap_or(-1)).collect::<Vec<_>>()).unwrap_or_default()}));
            }
            for (i, n) in wnames.iter().enumerate() {
                let got = db.week.iter().find(|d| &d.name == n);
                out.push(json!({"ev": "ConvWeek", "ok": got.is_some(), "days": week_days[i].iter().map(|d| d + 1).collect::<Vec<_>>(),
                    "got": got.map(|w| w.values.iter().map(|(d, c)| json!([dmap.get(d).copied().unwrap_or(-1), c])).collect::<Vec<_>>()).unwrap_or_default()}));
            }
            for (i, (n, dates, _)) in years.iter().enumerate() {
                let got = db.year.iter().find(|d| &d.name == n);
                let gotv: Vec<Value> = got
                    .map(|y| y.values.iter().map(|(w, c)| json!([wmap.get(w).copied().unwrap_or(-1), c])).collect())
                    .unwrap_or_default();
                if n.starts_with('Y') {
                    out.push(json!({"ev": "DayOfYear", "d": dates[0].0, "m": dates[0].1,
                        "got": got.and_then(|y| y.values.first().map(|v| v.1 as i64)).unwrap_or(-1)}));
                } else {
                    out.push(json!({"ev": "ConvYear", "ok": got.is_some(), "dates": dates.iter().map(|d| json!([d.0, d.1])).collect::<Vec<_>>(),
                        "weeknames": year_weeks[i].iter().map(|w| 11 + *w as i64).collect::<Vec<_>>(), "got": gotv}));
                    if let Some(y) = got {
                        out.push(expand_event(db, y, &mut it, "converted"));
                    }
                }
            }
        }
        Err(e) => {
            out.push(json!({"ev": "ConvYear", "ok": false, "dates": [[31, 12]], "weeknames": [], "got": [], "error": e}));
        }
    }
}

fn random_occupancy_model(rng: &mut Rng) -> Model {
    use bemodel::*;
    let mut m = Model::default();
    let ndays = 4;
    for d in 1..=ndays {
        let style = rng.below(3);
        m.schedules.day.push(ScheduleDay {
            id: uid(d),
            name: format!("D{}", d),
            values: (0..24)
                .map(|h| match style {
                    0 => if h >= 8 && h < 8 + rng.range(1, 10) { 1.0 } else { 0.0 },
                    1 => (rng.range(0, 4) as f32) * 0.25,
                    _ => 0.0,
                })
                .collect(),
        });
    }
    for w in 11..=13 {
        m.schedules.week.push(rand_week(rng, w, ndays, true));
    }
    for y in 21..=24 {
        let k = 1 + rng.below(4);
        let mut cuts: Vec<i64> = (0..k - 1).map(|_| rng.range(1, 364)).collect();
        cuts.push(365);
        cuts.sort();
        cuts.dedup();
        let mut prev = 0;
        let mut values = vec![];
        for c in cuts {
            values.push((uid(rng.range(11, 13)), (c - prev) as u32));
            prev = c;
        }
        m.schedules.year.push(Schedule { id: uid(y), name: format!("Y{}", y), values });
    }
    for l in 31..=33 {
        let pick = |rng: &mut Rng| if rng.chance(1, 5) { None } else { Some(uid(rng.range(21, 24))) };
        m.loads.push(SpaceLoads {
            id: uid(l),
            name: format!("L{}", l),
            area_per_person: *rng.pick(&[0.0f32, 10.0, 12.5]),      // (not used by the model: the occupancy load is per m2 already)
            people_schedule: pick(rng),
            people_sensible: rng.range(0, 12) as f32 * 0.5,
            people_latent: 1.0,
            equipment: rng.range(0, 10) as f32 * 0.5,
            equipment_schedule: pick(rng),
            lighting: rng.range(0, 10) as f32 * 0.5,
            lighting_schedule: pick(rng),
        });
    }
    let nsp = 1 + rng.below(6);
    for s in 0..nsp {
        let sid = uid(41 + s as i64);
        m.spaces.push(Space {
            id: sid,
            name: format!("S{}", s),
            multiplier: *rng.pick(&[1.0f32, 1.0, 2.0, 3.0]),
            kind: *rng.pick(&[SpaceType::CONDITIONED, SpaceType::CONDITIONED, SpaceType::UNCONDITIONED, SpaceType::UNINHABITED]),
            inside_tenv: !rng.chance(1, 5),
            height: 3.0,
            z: 0.0,
            loads: if rng.chance(1, 6) { None } else { Some(uid(rng.range(31, 33))) },
            thermostat: None,
            n_v: None,
            illuminance: None,
        });
        let a = rng.range(4, 40) as f32 * 2.5;
        m.walls.push(Wall {
            id: uid(61 + s as i64),
            name: format!("F{}", s),
            bounds: BoundaryType::GROUND,
            cons: uid(0),
            space: sid,
            next_to: None,
            geometry: WallGeom { tilt: 180.0, azimuth: 0.0, position: None, polygon: vec![point![0.0, 0.0], point![a, 0.0], point![a, 1.0], point![0.0, 1.0]] },
        });
    }
    m
}

pub fn main_sched(args: &Args) {
    install_panic_hook();
    let seed = seed_from_env();
    let out_path = args.get("--out").unwrap_or_else(|| "work/sched.ndjson".to_string());
    let nrandom = args.num("--random", 100);
    let mut rng = Rng::new(seed);
    let mut out: Vec<Value> = vec![];
    // (a) TLC cases: periods over the two weekly patterns of MC_Schedules
    if let Some(cases) = args.get("--cases") {
        let mut db = SchedulesDb::default();
        db.week.push(ScheduleWeek { id: uid(1), name: "W1".into(), values: vec![(uid(1), 5), (uid(2), 2)] });
        db.week.push(ScheduleWeek { id: uid(2), name: "W2".into(), values: vec![(uid(3), 1), (uid(1), 3), (uid(2), 3)] });
        for l in read_lines(&cases) {
            if let Ok(v) = serde_json::from_str::<Value>(&l) {
                let values: Vec<(Uuid, u32)> = v["periods"]
                    .as_array()
                    .map(|a| a.iter().map(|p| (uid(p[0].as_i64().unwrap_or(0)), p[1].as_u64().unwrap_or(0) as u32)).collect())
                    .unwrap_or_default();
                let y = Schedule { id: uid(100), name: "Y".into(), values };
                db.year = vec![y.clone()];
                let mut it = Interner::new();
                out.push(expand_event(&db, &y, &mut it, "tlc"));
            }
        }
    }
    // (b) random years of 365 days and of arbitrary length, well formed and ill formed weeks
    for i in 0..nrandom {
        let mut db = SchedulesDb::default();
        let wf = i % 5 != 4;
        for w in 11..=14 {
            db.week.push(rand_week(&mut rng, w, 5, wf || w < 13));
        }
        let k = 1 + rng.below(12);
        let mut values = vec![];
        if i % 2 == 0 {
            let mut cuts: Vec<i64> = (0..k - 1).map(|_| rng.range(1, 364)).collect();
            cuts.push(365);
            cuts.sort();
            cuts.dedup();
            let mut prev = 0;
            for c in cuts {
                values.push((uid(rng.range(11, if wf { 14 } else { 15 })), (c - prev) as u32));
                prev = c;
            }
        } else {
            for _ in 0..k {
                values.push((uid(rng.range(11, 14)), rng.range(0, 40) as u32));
            }
        }
        let y = Schedule { id: uid(100), name: "Y".into(), values };
        db.year = vec![y.clone()];
        let mut it = Interner::new();
        out.push(expand_event(&db, &y, &mut it, "random"));
    }
    // (c) real models: every yearly schedule, and the occupancy figures
    if args.flag("--corpus") {
        for p in shipped_models() {
            if let Ok(m) = std::fs::read_to_string(&p).map_err(|e| e.to_string()).and_then(|s| Model::from_json(&s).map_err(|e| e.to_string())) {
                let name = p.file_name().unwrap().to_string_lossy().to_string();
                let mut it = Interner::new();
                for y in &m.schedules.year {
                    out.push(expand_event(&m.schedules, y, &mut it, &name));
                }
                let mut it = Interner::new();
                if let Some(e) = occupancy_event(&m, &mut it, &name) {
                    out.push(e);
                }
            }
        }
    }
    // (d) conversions of HULC schedule blocks
    conversion_events(&mut rng, &mut out, true, nrandom.min(400));
    // (e) occupancy of generated models
    for i in 0..nrandom {
        let m = random_occupancy_model(&mut rng);
        let mut it = Interner::new();
        if let Some(e) = occupancy_event(&m, &mut it, &format!("gen{}", i)) {
            out.push(e);
        }
    }
    write_lines(&out_path, &out.iter().map(|e| e.to_string()).collect::<Vec<_>>());
    println!("{}", json!({"events": out.len(), "out": out_path}));
}
