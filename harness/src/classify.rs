//! C11 (second part): the tilt and orientation classifiers on 32-bit floats.

use crate::absmodel::{orient_name, tilt_name};
use crate::util::*;
use bemodel::{Orientation, Tilt};
use serde_json::{json, Value};

fn exact(x: f32) -> (i64, i64) {
    let xi = (x as f64).floor();
    let f = (((x as f64) - xi) * 8388608.0).floor();
    (xi as i64, f as i64)
}

fn class_of(kind: &str, x: f32) -> &'static str {
    match kind {
        "tilt" => tilt_name(Tilt::from(x)),
        "orient" => orient_name(Orientation::from(x)),
        _ => {
            let w = hulc::bdl::Wall { tilt: x, ..Default::default() };
            match w.position() {
                hulc::bdl::Tilt::TOP => "TOP",
                hulc::bdl::Tilt::SIDE => "SIDE",
                hulc::bdl::Tilt::BOTTOM => "BOTTOM",
            }
        }
    }
}

/// ordered key of a float (monotone in the value)
fn key(x: f32) -> i64 {
    let b = x.to_bits() as i64;
    if x.is_sign_negative() { -(b & 0x7fff_ffff) } else { b }
}
fn from_key(k: i64) -> f32 {
    if k < 0 { f32::from_bits(((-k) as u32) | 0x8000_0000) } else { f32::from_bits(k as u32) }
}

fn runs(kind: &str, mut keys: Vec<i64>, out: &mut Vec<Value>) {
    keys.sort();
    keys.dedup();
    let mut i = 0;
    while i < keys.len() {
        let c = class_of(kind, from_key(keys[i]));
        let mut j = i;
        let mut dense = true;
        while j + 1 < keys.len() && class_of(kind, from_key(keys[j + 1])) == c {
            if keys[j + 1] != keys[j] + 1 {
                dense = false;
            }
            j += 1;
        }
        let (lo, hi) = (from_key(keys[i]), from_key(keys[j]));
        let (a, b) = (exact(lo), exact(hi));
        out.push(json!({"ev": "ClassRun", "kind": kind, "lo": [a.0, a.1], "hi": [b.0, b.1], "class": c, "n": j - i + 1, "dense": dense,
            "lo_f": format!("{:e}", lo), "hi_f": format!("{:e}", hi)}));
        i = j + 1;
    }
}

pub fn main_classify(args: &Args) {
    let out_path = args.get("--out").unwrap_or_else(|| "work/classify.ndjson".to_string());
    let full = args.flag("--full");
    let nrand = args.num("--random", 2_000_000);
    let mut rng = Rng::new(seed_from_env());
    let mut out: Vec<Value> = vec![];
    let mut evaluated: u64 = 0;
    let bounds: [f32; 12] = [0.0, 18.0, 60.0, 69.0, 120.0, 157.5, 202.5, 240.0, 291.0, 300.0, 342.0, 360.0];
    for kind in ["tilt", "orient"] {
        if full {
            // every float in [-720, 1080], in parallel slices; each slice yields dense runs which are merged afterwards
            let (k0, k1) = (key(-720.0), key(1080.0));
            let nthreads = 16i64;
            let span = (k1 - k0) / nthreads + 1;
            let handles: Vec<_> = (0..nthreads)
                .map(|t| {
                    let kind = kind.to_string();
                    std::thread::spawn(move || {
                        let (a, b) = (k0 + t * span, (k0 + (t + 1) * span - 1).min(k1));
                        let mut res: Vec<(i64, i64, &'static str)> = vec![];
                        let mut start = a;
                        let mut cur = class_of(&kind, from_key(a));
                        let mut k = a + 1;
                        while k <= b {
                            let x = from_key(k);
                            if k != 0 || true {
                                let c = class_of(&kind, x);
                                if c != cur {
                                    res.push((start, k - 1, cur));
                                    start = k;
                                    cur = c;
                                }
                            }
                            k += 1;
                        }
                        res.push((start, b, cur));
                        res
                    })
                })
                .collect();
            let mut all: Vec<(i64, i64, &'static str)> = vec![];
            for h in handles {
                all.extend(h.join().unwrap());
            }
            all.sort();
            // merge neighbours with the same class
            let mut merged: Vec<(i64, i64, &'static str)> = vec![];
            for r in all {
                if let Some(last) = merged.last_mut() {
                    if last.2 == r.2 && last.1 + 1 == r.0 {
                        last.1 = r.1;
                        continue;
                    }
                }
                merged.push(r);
            }
            for (a, b, c) in merged {
                // key 0 and key -0: -0.0 has key 0 as well; fine
                let (lo, hi) = (from_key(a), from_key(b));
                let (ea, eb) = (exact(lo), exact(hi));
                evaluated += (b - a + 1) as u64;
                out.push(json!({"ev": "ClassRun", "kind": kind, "lo": [ea.0, ea.1], "hi": [eb.0, eb.1], "class": c, "n": b - a + 1, "dense": true,
                    "lo_f": format!("{:e}", lo), "hi_f": format!("{:e}", hi)}));
            }
        } else {
            let mut keys: Vec<i64> = vec![];
            for b in bounds {
                for shift in [-720.0f32, -360.0, 0.0, 360.0, 720.0] {
                    let c = b + shift;
                    if !(-720.0..=1080.0).contains(&c) {
                        continue;
                    }
                    let kc = key(c);
                    for d in -300i64..=300 {
                        keys.push(kc + d);
                    }
                }
            }
            for _ in 0..nrand {
                let x = (rng.f64() * 1800.0 - 720.0) as f32;
                keys.push(key(x));
            }
            keys.retain(|k| { let x = from_key(*k); x >= -720.0 && x <= 1080.0 });
            evaluated += keys.len() as u64;
            runs(kind, keys, &mut out);
        }
    }
    // the parser's classifier against the model's on [0, 360]
    let (k0, k1) = (key(0.0), key(360.0));
    let mut dis: u64 = 0;
    let mut first: Vec<String> = vec![];
    let step = if full { 1 } else { 97 };
    let mut k = k0;
    while k <= k1 {
        let x = from_key(k);
        let (a, b) = (class_of("bdltilt", x), class_of("tilt", x));
        if a != b {
            dis += 1;
            if first.len() < 5 {
                first.push(format!("{:e}: parser {} model {}", x, a, b));
            }
        }
        evaluated += 1;
        k += step;
    }
    if !full {
        for b in [60.0f32, 120.0, 240.0, 300.0, 0.0, 360.0] {
            for d in -300i64..=300 {
                let x = from_key(key(b) + d);
                if (0.0..=360.0).contains(&x) && class_of("bdltilt", x) != class_of("tilt", x) {
                    dis += 1;
                    if first.len() < 5 {
                        first.push(format!("{:e}", x));
                    }
                }
            }
        }
    }
    out.push(json!({"ev": "ClassAgree", "disagreements": dis, "examples": first, "full": full}));
    write_lines(&out_path, &out.iter().map(|e| e.to_string()).collect::<Vec<_>>());
    println!("{}", json!({"runs": out.len(), "evaluated": evaluated, "traces": out.len(), "out": out_path}));
}
