//! Session family (C08 C09 C10 C11 C14 C15 C16): drive load / check / purge / compute on the real
//! library and record what it did as ndjson events for Trace_Session.tla.

use crate::absmodel::*;
use crate::util::*;
use bemodel::climatedata::MONTHLYRADDATA;
use bemodel::energy::EnergyIndicators;
use bemodel::{Model, Warning};
use serde_json::{json, Value};
use std::time::Duration;

// ------------------------------------------------------------------------------ events

/// Classify a checker message into (element id, link kind). The six phrases of checks.rs.
pub fn classify_warning(w: &Warning, it: &mut Interner) -> Value {
    let kind = if w.msg.starts_with("Muro") && w.msg.contains("referencia incorrecta de espacio adyacente") {
        "next"
    } else if w.msg.starts_with("Muro") && w.msg.contains("referencia incorrecta de espacio") {
        "space"
    } else if w.msg.starts_with("Muro") && w.msg.contains("referencia incorrecta de construcción") {
        "cons"
    } else if w.msg.starts_with("Hueco") && w.msg.contains("referencia incorrecta de opaco") {
        "wall"
    } else if w.msg.starts_with("Hueco") && w.msg.contains("referencia incorrecta de construcción") {
        "wcons"
    } else if w.msg.starts_with("Puente térmico") && w.msg.contains("longitud negativa") {
        "neglen"
    } else {
        "unclassified"
    };
    json!([it.opt(w.id), kind])
}

pub fn tables_event() -> Value {
    let data = MONTHLYRADDATA.lock().unwrap();
    let mut h = serde_json::Map::new();
    for e in data.iter() {
        let zone = e.zone.to_string();
        let entry = h.entry(zone).or_insert_with(|| json!({}));
        let v = ((e.dir[6] + e.dif[6]) as f64 * 100.0).round() as i64;
        entry
            .as_object_mut()
            .unwrap()
            .insert(orient_name(e.orientation).to_string(), json!(v));
    }
    json!({"ev": "Tables", "H": Value::Object(h)})
}

fn check_event(m: &Model, it: &mut Interner) -> Value {
    let before = m.as_json().unwrap_or_default();
    let r = catch(std::panic::AssertUnwindSafe(|| bemodel::check(m)));
    let after = m.as_json().unwrap_or_default();
    match r {
        Ok(ws) => json!({"ev": "Check", "outcome": "ok",
            "warn": ws.iter().map(|w| classify_warning(w, it)).collect::<Vec<_>>(),
            "unchanged": before == after}),
        Err(site) => json!({"ev": "Check", "outcome": "panic", "site": site, "warn": [], "unchanged": before == after}),
    }
}

fn purge_event(m: &mut Model, it: &mut Interner) -> Value {
    let n0 = [
        m.spaces.len(), m.thermal_bridges.len(), m.cons.wallcons.len(), m.cons.wincons.len(),
        m.cons.materials.len(), m.cons.glasses.len(), m.cons.frames.len(), m.loads.len(),
        m.thermostats.len(), m.schedules.year.len(), m.schedules.week.len(), m.schedules.day.len(),
    ];
    let mut mm = m.clone();
    let r = catch(std::panic::AssertUnwindSafe(|| {
        bemodel::purge_unused(&mut mm);
    }));
    if let Err(site) = r {
        return json!({"ev": "Purge", "outcome": "panic", "site": site});
    }
    let n1 = [
        mm.spaces.len(), mm.thermal_bridges.len(), mm.cons.wallcons.len(), mm.cons.wincons.len(),
        mm.cons.materials.len(), mm.cons.glasses.len(), mm.cons.frames.len(), mm.loads.len(),
        mm.thermostats.len(), mm.schedules.year.len(), mm.schedules.week.len(), mm.schedules.day.len(),
    ];
    let counts: Vec<i64> = n0.iter().zip(n1.iter()).map(|(a, b)| *a as i64 - *b as i64).collect();
    let once = mm.as_json().unwrap_or_default();
    let mut m2 = mm.clone();
    let _ = catch(std::panic::AssertUnwindSafe(|| {
        bemodel::purge_unused(&mut m2);
    }));
    let twice = m2.as_json().unwrap_or_default();
    *m = mm;
    json!({"ev": "Purge", "outcome": "ok", "after": graph_of(m, it), "counts": counts, "twice_same": once == twice})
}

fn f_nonfinite(name: &str, v: f32, out: &mut Vec<String>) {
    if !v.is_finite() {
        out.push(name.to_string());
    }
}

/// signed quantity -> (abs value quantised, negative?)
fn sq(v: f32, scale: f64, what: &str, bad: &mut Vec<String>) -> (Value, bool) {
    (qv(v.abs(), scale, what, bad), v < 0.0)
}

/// Positive sizes and non-negative physical data of a model, from the model alone (nothing the code computed)
pub fn sane_inputs(m: &Model) -> bool {
    m.spaces.iter().all(|s| s.height > 0.0 && s.multiplier > 0.0 && s.height.is_finite() && s.multiplier.is_finite())
        && m.walls.iter().all(|w| w.area() > 0.0 && w.area().is_finite())
        && m.windows.iter().all(|w| w.geometry.width > 0.0 && w.geometry.height > 0.0)
        && m.cons.materials.iter().all(|x| match x.properties { bemodel::MatProps::Detailed { conductivity, .. } => conductivity > 0.0, bemodel::MatProps::Resistance { resistance, .. } => resistance >= 0.0 })
        && m.cons.wallcons.iter().all(|c| c.layers.iter().all(|l| l.e >= 0.0))
        && m.cons.wincons.iter().all(|c| c.f_f >= 0.0 && c.f_f <= 1.0 && c.c_100 >= 0.0 && c.delta_u >= 0.0)
        && m.cons.glasses.iter().all(|g| g.u_value > 0.0 && g.g_gln >= 0.0)
        && m.cons.frames.iter().all(|g| g.u_value > 0.0)
        && m.thermal_bridges.iter().all(|t| t.l >= 0.0 && t.psi.is_finite())
        && m.schedules.day.iter().all(|d| d.values.len() == 24 && d.values.iter().all(|v| v.is_finite()))
        && m.schedules.week.iter().all(|w| w.values.iter().map(|v| v.1).sum::<u32>() == 7)
        && m.schedules.year.iter().all(|y| !y.values.is_empty() && y.values.iter().all(|v| v.1 >= 1) && y.values.iter().map(|v| v.1).sum::<u32>() == 365)
        && m.schedules.week.iter().all(|w| w.values.iter().all(|v| v.1 >= 1))
        // the other non-negative physical data of the model
        && m.meta.d_perim_insulation >= 0.0 && m.meta.rn_perim_insulation >= 0.0
        && m.meta.global_ventilation_l_s.map_or(true, |v| v >= 0.0) && m.meta.n50_test_ach.map_or(true, |v| v >= 0.0)
        && m.spaces.iter().all(|s| s.n_v.map_or(true, |v| v >= 0.0))
}

pub fn compute_event(m: &Model, it: &mut Interner, same_as_last: bool) -> Value {
    let mut bad: Vec<String> = vec![];
    let absm = abstract_model(m, it, &mut bad);
    let r = catch(std::panic::AssertUnwindSafe(|| m.energy_indicators()));
    let ind: EnergyIndicators = match r {
        Ok(i) => i,
        Err(site) => {
            return json!({"ev": "Compute", "outcome": "panic", "site": site, "model": absm, "same_as_last": same_as_last});
        }
    };
    let gvr_model = catch(std::panic::AssertUnwindSafe(|| m.global_ventilation_rate())).unwrap_or(f32::NAN);
    let p = &ind.props;
    let mut nonfinite: Vec<String> = vec![];

    // per element properties, in model order
    let spaces: Vec<Value> = m
        .spaces
        .iter()
        .map(|s| match p.spaces.get(&s.id) {
            Some(sp) => json!({"area": qv(sp.area, 1e4, "props.space.area", &mut bad), "hnet": qv(sp.height_net, 1e4, "props.space.hnet", &mut bad),
                "vnet": qv(sp.volume_net, 1e2, "props.space.vnet", &mut bad), "mult": qv(sp.multiplier, 1e2, "props.space.mult", &mut bad),
                "height": qv(sp.height, 1e4, "props.space.height", &mut bad)}),
            None => json!({"area": 0, "hnet": 0, "vnet": 0, "mult": 100, "height": 0}),
        })
        .collect();
    let walls: Vec<Value> = m
        .walls
        .iter()
        .map(|w| match p.walls.get(&w.id) {
            Some(wp) => {
                let anetbad = !(wp.area_net >= 0.0);
                if anetbad {
                    bad.push(format!("props.wall.area_net={}", wp.area_net));
                }
                json!({"tenv": wp.is_tenv, "mult": qv(wp.multiplier, 1e2, "props.wall.mult", &mut bad),
                    "anet": if anetbad { json!(0) } else { qv(wp.area_net, 1e4, "props.wall.anet", &mut bad) },
                    "anetbad": anetbad,
                    "u": qopt(wp.u_value, 1e4, "props.wall.u", &mut bad),
                    "uov": qopt(wp.u_value_override, 1e4, "props.wall.uov", &mut bad),
                    "tilt": tilt_name(wp.tilt), "orient": orient_name(wp.orientation)})
            }
            None => json!({"tenv": false, "mult": 100, "anet": 0, "anetbad": true, "u": -1, "uov": -1, "tilt": "SIDE", "orient": "S"}),
        })
        .collect();
    let wins: Vec<Value> = m
        .windows
        .iter()
        .map(|w| match p.windows.get(&w.id) {
            Some(wp) => json!({"tenv": wp.is_tenv, "mult": qv(wp.multiplier, 1e2, "props.win.mult", &mut bad),
                "area": qv(wp.area, 1e4, "props.win.area", &mut bad),
                "u": qopt(wp.u_value, 1e4, "props.win.u", &mut bad),
                "uov": qopt(wp.u_value_override, 1e4, "props.win.uov", &mut bad),
                "fsh": qopt(wp.f_shobst, 1e4, "props.win.fsh", &mut bad),
                "fshov": qopt(wp.f_shobst_override, 1e4, "props.win.fshov", &mut bad),
                "bounds": bounds_name(wp.bounds), "tilt": tilt_name(wp.tilt), "orient": orient_name(wp.orientation)}),
            None => json!({"tenv": false, "mult": 100, "area": 0, "u": -1, "uov": -1, "fsh": -1, "fshov": -1, "bounds": "EXTERIOR", "tilt": "SIDE", "orient": "S"}),
        })
        .collect();
    let wincons: Vec<Value> = m
        .cons
        .wincons
        .iter()
        .map(|c| match p.wincons.get(&c.id) {
            Some(cp) => json!({"c100": qv(cp.c_100, 1e2, "props.wincons.c100", &mut bad),
                "g": qv(cp.g_glshwi, 1e4, "props.wincons.g", &mut bad),
                "gwi": qv(cp.g_glwi, 1e4, "props.wincons.gwi", &mut bad),
                "ff": qv(cp.f_f, 1e4, "props.wincons.ff", &mut bad),
                "u": qopt(cp.u_value, 1e4, "props.wincons.u", &mut bad)}),
            None => json!({"c100": 0, "g": 0, "gwi": 0, "ff": 0, "u": -1}),
        })
        .collect();

    // globals
    let g = &p.global;
    for (n, v) in [
        ("area_ref", ind.area_ref), ("compactness", ind.compactness), ("vol_env_net", ind.vol_env_net),
        ("vol_env_gross", ind.vol_env_gross), ("global.vol_env_inh_net", g.vol_env_inh_net),
        ("global.global_ventilation_rate", g.global_ventilation_rate),
        ("global.occ_spaces_average_load", g.occ_spaces_average_load),
    ] {
        f_nonfinite(n, v, &mut nonfinite);
    }
    let gvrbad = !g.global_ventilation_rate.is_finite() || !gvr_model.is_finite()
        || q(g.global_ventilation_rate, 1e4).is_none() || q(gvr_model, 1e4).is_none();
    let glob = json!({
        "aref": qv(ind.area_ref, 1e2, "area_ref", &mut bad),
        "vgross": qv(ind.vol_env_gross, 1e2, "vol_env_gross", &mut bad),
        "vnet": qv(ind.vol_env_net, 1e2, "vol_env_net", &mut bad),
        "compact": qv(ind.compactness, 1e4, "compactness", &mut bad),
        "gvr": if gvrbad { json!(0) } else { json!(q(g.global_ventilation_rate, 1e4).unwrap()) },
        "gvrmodel": if gvrbad { json!(0) } else { json!(q(gvr_model, 1e4).unwrap()) },
        "gvrbad": gvrbad, "gvrfin": g.global_ventilation_rate.is_finite(), "gvrmodelfin": gvr_model.is_finite(),
        "gvr_raw": format!("{}", g.global_ventilation_rate), "gvrmodel_raw": format!("{}", gvr_model),
    });

    // K
    let k = &ind.K_data;
    macro_rules! cat {
        ($c:expr, $name:expr) => {{
            let c = &$c;
            f_nonfinite(&format!("K_data.{}.a", $name), c.a, &mut nonfinite);
            f_nonfinite(&format!("K_data.{}.au", $name), c.au, &mut nonfinite);
            for (n, v) in [("u_max", c.u_max), ("u_min", c.u_min), ("u_mean", c.u_mean)] {
                if let Some(x) = v {
                    f_nonfinite(&format!("K_data.{}.{}", $name, n), x, &mut nonfinite);
                }
            }
            json!({"a": qv(c.a, 1e2, "K.cat.a", &mut bad), "au": qv(c.au, 1e2, "K.cat.au", &mut bad),
                "umin": qopt(c.u_min, 1e4, "K.cat.umin", &mut bad), "umax": qopt(c.u_max, 1e4, "K.cat.umax", &mut bad),
                "umean": qopt(c.u_mean, 1e4, "K.cat.umean", &mut bad)})
        }};
    }
    macro_rules! tbk {
        ($t:expr) => {{
            let t = &$t;
            f_nonfinite("K_data.tbs.l", t.l, &mut nonfinite);
            f_nonfinite("K_data.tbs.psil", t.psil, &mut nonfinite);
            let (psil, neg) = sq(t.psil, 1e2, "K.tb.psil", &mut bad);
            json!({"l": qv(t.l, 1e2, "K.tb.l", &mut bad), "psil": psil, "psilneg": neg})
        }};
    }
    f_nonfinite("K_data.K", k.K, &mut nonfinite);
    let s = &k.summary;
    for (n, v) in [("a", s.a), ("au", s.au), ("opaques_a", s.opaques_a), ("opaques_au", s.opaques_au),
        ("windows_a", s.windows_a), ("windows_au", s.windows_au), ("tbs_l", s.tbs_l), ("tbs_psil", s.tbs_psil)] {
        f_nonfinite(&format!("K_data.summary.{}", n), v, &mut nonfinite);
    }
    let (sau, sauneg) = sq(s.au, 1e2, "K.sum.au", &mut bad);
    let (spsil, spsilneg) = sq(s.tbs_psil, 1e2, "K.sum.psil", &mut bad);
    let (cw, cr, cf, cg, cv) = (cat!(k.walls, "walls"), cat!(k.roofs, "roofs"), cat!(k.floors, "floors"), cat!(k.ground, "ground"), cat!(k.windows, "windows"));
    let tbsj = vec![tbk!(k.tbs.roof), tbk!(k.tbs.balcony), tbk!(k.tbs.corner), tbk!(k.tbs.intermediate_floor),
        tbk!(k.tbs.internal_wall), tbk!(k.tbs.ground_floor), tbk!(k.tbs.pillar), tbk!(k.tbs.window), tbk!(k.tbs.generic)];
    let kj = json!({
        "K": qv(k.K.abs(), 1e4, "K", &mut bad), "Kneg": k.K < 0.0,
        "walls": cw, "roofs": cr, "floors": cf, "ground": cg, "windows": cv,
        "tbs": tbsj,
        "sum": {"a": qv(s.a, 1e2, "K.sum.a", &mut bad), "au": sau, "auneg": sauneg,
                "opa": qv(s.opaques_a, 1e2, "K.sum.opa", &mut bad), "opau": qv(s.opaques_au, 1e2, "K.sum.opau", &mut bad),
                "wina": qv(s.windows_a, 1e2, "K.sum.wina", &mut bad), "winau": qv(s.windows_au, 1e2, "K.sum.winau", &mut bad),
                "tbl": qv(s.tbs_l, 1e2, "K.sum.tbl", &mut bad), "tbpsil": spsil, "tbpsilneg": spsilneg},
    });

    // n50
    let n = &ind.n50_data;
    for (nm, v) in [("n50", n.n50), ("n50_ref", n.n50_ref), ("walls_a", n.walls_a), ("walls_c_ref", n.walls_c_ref),
        ("walls_c_a_ref", n.walls_c_a_ref), ("walls_c", n.walls_c), ("walls_c_a", n.walls_c_a),
        ("windows_a", n.windows_a), ("windows_c", n.windows_c), ("windows_c_a", n.windows_c_a), ("vol", n.vol)] {
        f_nonfinite(&format!("n50_data.{}", nm), v, &mut nonfinite);
    }
    let (wc, wcneg) = sq(n.walls_c, 1e2, "n50.walls_c", &mut bad);
    let (wca, wcaneg) = sq(n.walls_c_a, 1e2, "n50.walls_c_a", &mut bad);
    let nj = json!({
        "wca": wca, "wcaneg": wcaneg, "wcaref": qv(n.walls_c_a_ref, 1e2, "n50.walls_c_a_ref", &mut bad),
        "n50": qv(n.n50, 1e4, "n50", &mut bad), "n50ref": qv(n.n50_ref, 1e4, "n50_ref", &mut bad),
        "wa": qv(n.walls_a, 1e2, "n50.walls_a", &mut bad), "wcref": qv(n.walls_c_ref, 1e2, "n50.wcref", &mut bad),
        "wc": wc, "wcneg": wcneg,
        "ha": qv(n.windows_a, 1e2, "n50.windows_a", &mut bad), "hc": qv(n.windows_c, 1e2, "n50.windows_c", &mut bad),
        "hca": qv(n.windows_c_a, 1e2, "n50.windows_c_a", &mut bad), "vol": qv(n.vol, 1e2, "n50.vol", &mut bad),
    });

    // q_sol;jul
    let qd = &ind.q_soljul_data;
    let mut qnonfinite: Vec<String> = vec![];
    for (nm, v) in [("q_soljul", qd.q_soljul), ("Q_soljul", qd.Q_soljul), ("a_wp", qd.a_wp),
        ("irradiance_mean", qd.irradiance_mean), ("fshobst_mean", qd.fshobst_mean),
        ("gglshwi_mean", qd.gglshwi_mean), ("f_f_mean", qd.f_f_mean)] {
        f_nonfinite(&format!("q_soljul_data.{}", nm), v, &mut qnonfinite);
    }
    let mut detail: Vec<Value> = vec![];
    let mut dkeys: Vec<_> = qd.detail.keys().copied().collect();
    dkeys.sort_by_key(|o| orient_name(*o));
    for o in dkeys {
        let d = &qd.detail[&o];
        for (nm, v) in [("gains", d.gains), ("a", d.a), ("irradiance", d.irradiance), ("f_f_mean", d.f_f_mean),
            ("gglshwi_mean", d.gglshwi_mean), ("fshobst_mean", d.fshobst_mean)] {
            f_nonfinite(&format!("q_soljul_data.detail.{}.{}", orient_name(o), nm), v, &mut qnonfinite);
        }
        detail.push(json!({"o": orient_name(o), "gains": qv(d.gains, 1e2, "q.d.gains", &mut bad),
            "a": qv(d.a, 1e2, "q.d.a", &mut bad), "irr": qv(d.irradiance, 1e2, "q.d.irr", &mut bad),
            "ffm": qv(d.f_f_mean, 1e4, "q.d.ffm", &mut bad), "gm": qv(d.gglshwi_mean, 1e4, "q.d.gm", &mut bad),
            "fshm": qv(d.fshobst_mean, 1e4, "q.d.fshm", &mut bad)}));
    }
    // the q figures are quantised leniently: non finite ones are listed, not "bad" (C10 speaks about them)
    let mut qbad: Vec<String> = vec![];
    let qj = json!({
        "q": qv(qd.q_soljul, 1e4, "q", &mut qbad), "Q": qv(qd.Q_soljul, 1e2, "Q", &mut qbad),
        "awp": qv(qd.a_wp, 1e2, "awp", &mut qbad), "irrm": qv(qd.irradiance_mean, 1e2, "irrm", &mut qbad),
        "fshm": qv(qd.fshobst_mean, 1e4, "fshm", &mut qbad), "gm": qv(qd.gglshwi_mean, 1e4, "gm", &mut qbad),
        "ffm": qv(qd.f_f_mean, 1e4, "ffm", &mut qbad),
        "detail": detail, "nonfinite": qnonfinite.clone(),
    });
    nonfinite.extend(qnonfinite);

    // does the result serialise to JSON that loads back?
    let roundtrips = match ind.as_json() {
        Ok(js) => serde_json::from_str::<EnergyIndicators>(&js).is_ok(),
        Err(_) => false,
    };
    let warn: Vec<Value> = ind.warnings.iter().map(|w| classify_warning(w, it)).collect();
    // "sane": positive sizes and non-negative physical data (closure and uniqueness are decided by the spec)
    let sane = m.spaces.iter().all(|s| s.height > 0.0 && s.multiplier > 0.0 && s.height.is_finite())
        && m.walls.iter().all(|w| w.area() > 0.0)
        && m.windows.iter().all(|w| w.geometry.width > 0.0 && w.geometry.height > 0.0)
        && ind.area_ref > 0.0
        && ind.vol_env_net > 0.0;
    // metamorphic variants of the same model: every collection reversed and every name changed; all lengths doubled
    let head = |i: &EnergyIndicators| -> Value {
        let mut b2: Vec<String> = vec![];
        json!({"K": qv(i.K_data.K, 1e4, "K", &mut b2), "n50": qv(i.n50_data.n50, 1e4, "n50", &mut b2), "aref": qv(i.area_ref, 1e2, "aref", &mut b2),
            "vgross": qv(i.vol_env_gross, 1e2, "vg", &mut b2), "vnet": qv(i.vol_env_net, 1e2, "vn", &mut b2), "compact": qv(i.compactness, 1e4, "c", &mut b2),
            "q": qv(i.q_soljul_data.q_soljul, 1e4, "q", &mut b2), "ok": b2.is_empty()})
    };
    // a permutation that also separates neighbours: even positions first, then the odd ones backwards
    fn scatter<T: Clone>(v: &mut Vec<T>) {
        let evens: Vec<T> = v.iter().step_by(2).cloned().collect();
        let mut odds: Vec<T> = v.iter().skip(1).step_by(2).cloned().collect();
        odds.reverse();
        *v = evens.into_iter().chain(odds.into_iter()).collect();
    }
    let mut mr = m.clone();
    scatter(&mut mr.spaces);
    scatter(&mut mr.walls);
    scatter(&mut mr.windows);
    scatter(&mut mr.thermal_bridges);
    scatter(&mut mr.shades);
    scatter(&mut mr.cons.wallcons);
    scatter(&mut mr.cons.wincons);
    scatter(&mut mr.cons.materials);
    scatter(&mut mr.cons.glasses);
    scatter(&mut mr.cons.frames);
    for (k, x) in mr.spaces.iter_mut().enumerate() { x.name = format!("renamed space {}", k); }
    for (k, x) in mr.walls.iter_mut().enumerate() { x.name = format!("renamed wall {}", k); }
    for (k, x) in mr.windows.iter_mut().enumerate() { x.name = format!("renamed window {}", k); }
    for (k, x) in mr.cons.wallcons.iter_mut().enumerate() { x.name = format!("renamed construction {}", k); }
    let reordered = catch(std::panic::AssertUnwindSafe(|| mr.energy_indicators())).ok().map(|i| head(&i)).unwrap_or(json!({"ok": false}));
    let mut ms = m.clone();
    let s2 = 2.0f32;
    for x in ms.spaces.iter_mut() { x.height *= s2; x.z *= s2; }
    for x in ms.walls.iter_mut() {
        for p in x.geometry.polygon.iter_mut() { p.x *= s2; p.y *= s2; }
        if let Some(pos) = x.geometry.position.as_mut() { pos.x *= s2; pos.y *= s2; pos.z *= s2; }
    }
    for x in ms.windows.iter_mut() {
        x.geometry.width *= s2; x.geometry.height *= s2; x.geometry.setback *= s2;
        if let Some(pos) = x.geometry.position.as_mut() { pos.x *= s2; pos.y *= s2; }
    }
    for x in ms.thermal_bridges.iter_mut() { x.l *= s2; }
    for c in ms.cons.wallcons.iter_mut() {
        for l in c.layers.iter_mut() { l.e *= s2; }
    }
    for x in ms.shades.iter_mut() {
        for p in x.geometry.polygon.iter_mut() { p.x *= s2; p.y *= s2; }
        if let Some(pos) = x.geometry.position.as_mut() { pos.x *= s2; pos.y *= s2; pos.z *= s2; }
    }
    let scaled = catch(std::panic::AssertUnwindSafe(|| ms.energy_indicators())).ok().map(|i| head(&i)).unwrap_or(json!({"ok": false}));
    let grp = |p: &[&str]| bad.iter().filter(|b| p.iter().any(|q| b.starts_with(q))).count();
    let (badk, badn, badq) = (grp(&["K"]), grp(&["n50"]), grp(&["q.", "q=", "Q="]));
    let badother = bad.len() - badk - badn - badq;
    json!({"ev": "Compute", "outcome": "ok", "model": absm, "numeric": bad.is_empty(), "bad": bad,
        "badk": badk, "badn50": badn, "badq": badq, "badother": badother, "sane_in": sane_inputs(m),
        "props": {"spaces": spaces, "walls": walls, "wins": wins, "wincons": wincons},
        "glob": glob, "k": kj, "n50": nj, "q": qj, "warn": warn, "head": head(&ind), "reordered": reordered, "scaled": scaled,
        "nonfinite": nonfinite, "roundtrips": roundtrips, "sane": sane, "same_as_last": same_as_last})
}

// ------------------------------------------------------------------------------ worker

/// One request: {"json": "<model json>"} or {"abs": {...}}, "ops": ["check","compute","purge",...]
pub fn worker_handle(req: &Value) -> Value {
    let mut it = Interner::new();
    let mut events: Vec<Value> = vec![];
    let loaded: Result<Model, String> = if let Some(js) = req.get("json").and_then(|j| j.as_str()) {
        match catch(std::panic::AssertUnwindSafe(|| Model::from_json(js))) {
            Ok(Ok(m)) => Ok(m),
            Ok(Err(e)) => Err(format!("loaderr:{}", e)),
            Err(site) => Err(format!("loadpanic:{}", site)),
        }
    } else if let Some(a) = req.get("abs") {
        Ok(concretize(a))
    } else {
        Err("norequest".to_string())
    };
    let mut m = match loaded {
        Ok(m) => m,
        Err(e) => return json!({"events": [], "loaderr": e}),
    };
    if let Some(v) = req.get("variant").and_then(|v| v.as_i64()) {
        apply_variant(&mut m, v);
    }
    let lite = req.get("lite").and_then(|l| l.as_bool()).unwrap_or(false);
    let mut bad = vec![];
    if !lite {
        events.push(json!({"ev": "Load", "model": abstract_model(&m, &mut it, &mut bad), "name": req.get("name").cloned().unwrap_or(json!(""))}));
    }
    let mut after_purge = false;
    for op in req.get("ops").and_then(|o| o.as_array()).cloned().unwrap_or_default() {
        match op.as_str().unwrap_or("") {
            "check" => events.push(check_event(&m, &mut it)),
            "purge" => {
                events.push(purge_event(&mut m, &mut it));
                after_purge = true;
            }
            "compute" => {
                events.push(compute_event(&m, &mut it, after_purge));
                after_purge = false;
            }
            "compute_lite" => {
                // totality only: outcome, finiteness, JSON round trip of the result, and a probe computation of a
                // known-good model after a failure (does the failure affect later computations?)
                let r = catch(std::panic::AssertUnwindSafe(|| m.energy_indicators()));
                let mut e = json!({"ev": "ComputeLite", "name": req.get("name").cloned().unwrap_or(json!("")), "edit": req.get("edit").cloned().unwrap_or(json!("")),
                    "graph": graph_of(&m, &mut it)});
                match r {
                    Ok(ind) => {
                        let js = ind.as_json().unwrap_or_default();
                        let v: Value = serde_json::from_str(&js).unwrap_or(json!(null));
                        let mut nulls: Vec<String> = vec![];
                        fn walk(v: &Value, path: String, out: &mut Vec<String>) {
                            match v {
                                Value::Null => out.push(path),
                                Value::Object(o) => for (k, x) in o { walk(x, format!("{}.{}", path, k), out) },
                                Value::Array(a) => for (i, x) in a.iter().enumerate() { if i < 3 { walk(x, format!("{}[{}]", path, i), out) } },
                                _ => {}
                            }
                        }
                        // only the top-level indicator structures hold plain numbers; props hold legitimate Option fields
                        for k in ["area_ref", "compactness", "vol_env_net", "vol_env_gross", "q_soljul_data", "n50_data"] {
                            walk(&v[k], k.to_string(), &mut nulls);
                        }
                        walk(&v["props"]["global"], "props.global".to_string(), &mut nulls);
                        nulls.retain(|p| !p.ends_with("n_50_test_ach"));
                        let roundtrips = serde_json::from_str::<EnergyIndicators>(&js).is_ok();
                        // a building without any habitable space inside the envelope has a reference area of 0 by definition: its
                        // figures are judged too (decided from the model, not from the reported area), with or without a
                        // building-wide ventilation flow
                        let no_habitable = !m.spaces.is_empty()
                            && !m.spaces.iter().any(|s| s.inside_tenv && s.kind != bemodel::SpaceType::UNINHABITED);
                        let sane_sizes = sane_inputs(&m) && (ind.area_ref > 0.0 || no_habitable) && ind.vol_env_net > 0.0;
                        e["outcome"] = json!("ok");
                        e["nonfinite"] = json!(nulls);
                        e["roundtrips"] = json!(roundtrips);
                        e["sane"] = json!(sane_sizes);
                    }
                    Err(site) => {
                        e["outcome"] = json!("panic");
                        e["site"] = json!(site);
                        e["nonfinite"] = json!([]);
                        e["roundtrips"] = json!(false);
                        e["sane"] = json!(false);
                        // does the failure affect later computations in this process?
                        if let Some(pj) = req.get("probe_json").and_then(|p| p.as_str()) {
                            let ok = catch(std::panic::AssertUnwindSafe(|| Model::from_json(pj).map(|g| g.energy_indicators().area_ref.is_finite()).unwrap_or(false))).unwrap_or(false);
                            e["probe_ok"] = json!(ok);
                        }
                    }
                }
                events.push(e);
            }
            _ => {}
        }
    }
    json!({"events": events})
}

/// A stage of the drawing of a building (see main_session, --variants)
fn apply_variant(m: &mut Model, v: i64) {
    use bemodel::BoundaryType;
    let keep_walls = |m: &mut Model, f: &dyn Fn(&bemodel::Wall) -> bool| {
        m.walls.retain(|w| f(w));
        let ids: std::collections::HashSet<_> = m.walls.iter().map(|w| w.id).collect();
        m.windows.retain(|w| ids.contains(&w.wall));
    };
    match v {
        1 => m.windows.clear(),
        2 => keep_walls(m, &|w| w.bounds != BoundaryType::EXTERIOR),
        3 => keep_walls(m, &|w| w.bounds == BoundaryType::GROUND),
        4 => keep_walls(m, &|_| false),
        5 => { m.thermal_bridges.clear(); m.windows.clear(); }
        6 | 7 => {
            // every facade with a window is all window
            let mut seen = std::collections::HashSet::new();
            let areas: std::collections::HashMap<_, _> = m.walls.iter().map(|w| (w.id, w.area())).collect();
            m.windows.retain(|w| seen.insert(w.wall));
            for w in m.windows.iter_mut() {
                if let Some(a) = areas.get(&w.wall) {
                    w.geometry.width = *a;
                    w.geometry.height = 1.0;
                }
            }
            if v == 7 {
                // a unit between party walls: the only facades are the glazed ones
                let glazed: std::collections::HashSet<_> = m.windows.iter().map(|w| w.wall).collect();
                keep_walls(m, &|w| w.bounds != BoundaryType::EXTERIOR || glazed.contains(&w.id));
            }
        }
        8 => {
            // a unit between party walls whose only exposure is a sliver of facade a few millimetres wide (the joint between
            // two party walls): every side wall adiabatic, the first floor on the ground, one exterior strip of 0.003 m2
            for w in m.walls.iter_mut() {
                if (w.geometry.tilt - 90.0).abs() < 1.0 { w.bounds = BoundaryType::ADIABATIC; w.next_to = None; }
            }
            if let Some(f) = m.walls.iter_mut().find(|w| w.geometry.tilt > 150.0) { f.bounds = BoundaryType::GROUND; }
            if let Some(s0) = m.walls.iter().find(|w| w.geometry.tilt > 150.0).map(|w| (w.space, w.cons)) {
                m.walls.push(bemodel::Wall { name: "sliver".into(), bounds: BoundaryType::EXTERIOR, space: s0.0, cons: s0.1,
                    geometry: bemodel::WallGeom { tilt: 90.0, azimuth: 0.0, position: None,
                        polygon: vec![nalgebra::point![0.0, 0.0], nalgebra::point![0.003, 0.0], nalgebra::point![0.003, 1.0], nalgebra::point![0.0, 1.0]] }, ..Default::default() });
            }
            m.windows.clear();
        }
        _ => {}
    }
    // with a measured value on the odd stages, without on the even ones
    m.meta.n50_test_ach = if v % 2 == 1 { Some(4.25) } else { None };
}

// ------------------------------------------------------------------------------ driver

/// Random, sane, on-grid abstract models (ids 1..): the generator behind the "generated models" of the
/// quantifiers of C08-C11, C15, C16.
pub fn random_abstract(rng: &mut Rng, size: usize, break_links: bool) -> Value {
    let nsp = 1 + rng.below(size.min(6));
    let nmat = 1 + rng.below(3);
    let nwc = 1 + rng.below(3);
    let nvc = 1 + rng.below(2);
    let zones = ["A3", "A4", "B3", "B4", "C1", "C2", "C3", "C4", "D1", "D2", "D3", "E1", "A1c", "B2c", "Alfa3c", "D3c", "E1c"];
    let mut id = 0i64;
    let mut next = || {
        id += 1;
        id
    };
    let days: Vec<i64> = (0..4).map(|_| next()).collect();
    let weeks: Vec<i64> = (0..3).map(|_| next()).collect();
    let years: Vec<i64> = (0..3).map(|_| next()).collect();
    let loads: Vec<i64> = (0..3).map(|_| next()).collect();
    let therms: Vec<i64> = (0..3).map(|_| next()).collect();
    let mats: Vec<i64> = (0..nmat + 1).map(|_| next()).collect();
    let glasses: Vec<i64> = (0..2).map(|_| next()).collect();
    let frames: Vec<i64> = (0..2).map(|_| next()).collect();
    let wcs: Vec<i64> = (0..nwc + 1).map(|_| next()).collect();
    let vcs: Vec<i64> = (0..nvc + 1).map(|_| next()).collect();
    let sps: Vec<i64> = (0..nsp + 1).map(|_| next()).collect();
    let dangling = 900 + rng.below(50) as i64;
    let brk = |rng: &mut Rng, good: i64| -> i64 {
        if break_links && rng.chance(1, 6) {
            if rng.chance(1, 3) { 0 } else { dangling }
        } else {
            good
        }
    };
    let brkp = |rng: &mut Rng, pool: &[i64]| -> i64 {
        let g = *rng.pick(pool);
        brk(rng, g)
    };
    let brko = |rng: &mut Rng, pool: &[i64]| -> i64 {
        let g = if rng.chance(1, 4) { -1 } else { *rng.pick(pool) };
        if g < 0 { g } else { brk(rng, g) }
    };
    let mut walls = vec![];
    let mut windows = vec![];
    let bounds = ["EXTERIOR", "EXTERIOR", "EXTERIOR", "GROUND", "INTERIOR", "ADIABATIC"];
    let tilts = ["TOP", "SIDE", "SIDE", "SIDE", "BOTTOM"];
    let orients = ["N", "NE", "E", "SE", "S", "SW", "W", "NW"];
    let used_sps = &sps[..nsp]; // the last space is never used by a wall (purge must remove it)
    // a building wholly enclosed by others (nothing exposed to outside air or ground), now and then
    let enclosed = rng.chance(1, 12);
    for &s in used_sps {
        // one floor per space so that it has an area
        let fid = next();
        walls.push(json!({"id": fid, "space": s, "cons": brkp(rng, &wcs[..nwc]), "next": -1,
            // (now and then a floor over another building: with nothing else exposed the envelope has no exposed area)
            "bounds": if enclosed || rng.chance(1, 8) { "ADIABATIC" } else if rng.chance(1, 2) { "GROUND" } else { "EXTERIOR" }, "tilt": "BOTTOM", "orient": "S",
            "area": 2500 * if rng.chance(1, 8) { rng.range(1, 4) } else { rng.range(8, 60) }}));
        let nw = 1 + rng.below(size.min(5));
        for _ in 0..nw {
            let wid = next();
            let b = if enclosed { *rng.pick(&["INTERIOR", "ADIABATIC"]) } else { *rng.pick(&bounds) };
            let nextsp = if b == "INTERIOR" && rng.chance(3, 4) { brkp(rng, used_sps) } else { -1 };
            let area = 2500 * rng.range(4, 80);
            walls.push(json!({"id": wid, "space": brk(rng, s), "cons": brkp(rng, &wcs[..nwc]), "next": nextsp,
                "bounds": b, "tilt": *rng.pick(&tilts), "orient": *rng.pick(&orients), "area": area}));
            // now and then a wall that is all window (a curtain wall, a skylight the size of its roof element)
            if rng.chance(1, 10) {
                windows.push(json!({"id": next(), "wall": brk(rng, wid), "cons": brkp(rng, &vcs[..nvc]), "area": area, "sb": 0}));
                continue;
            }
            let nwin = rng.below(5);
            let mut left = (area * 3) / 4;
            for _ in 0..nwin {
                let wa = 2500 * rng.range(1, 6);
                if wa > left {
                    break;
                }
                left -= wa;
                windows.push(json!({"id": next(), "wall": brk(rng, wid), "cons": brkp(rng, &vcs[..nvc]), "area": wa, "sb": *rng.pick(&[0i64, 0, 20, 50])}));
            }
        }
    }
    // the windows of a wall need not be neighbours in the list, nor the walls of a space
    if rng.chance(1, 2) {
        for i in (1..windows.len()).rev() {
            let j = rng.below(i + 1);
            windows.swap(i, j);
        }
    }
    if rng.chance(1, 3) {
        for i in (1..walls.len()).rev() {
            let j = rng.below(i + 1);
            walls.swap(i, j);
        }
    }
    let tbkinds = ["ROOF", "BALCONY", "CORNER", "INTERMEDIATEFLOOR", "INTERNALWALL", "GROUNDFLOOR", "PILLAR", "WINDOW", "GENERIC"];
    let tbs: Vec<Value> = (0..rng.below(6))
        .map(|_| {
            let ls = if break_links { *rng.pick(&[-1i64, 0, 1, 1, 1]) } else { *rng.pick(&[0i64, 1, 1, 1]) };
            json!({"id": next(), "lsign": ls, "l": 1000 * rng.range(1, 400), "psi": 100 * rng.range(0, 120),
                "psineg": rng.chance(1, 10), "kind": *rng.pick(&tbkinds)})
        })
        .collect();
    let ovw: Vec<Value> = walls
        .iter()
        .filter_map(|w| if rng.chance(1, 5) { Some(json!({"id": w["id"], "u": *rng.pick(&[0i64, 1000, 3500, 12000, 30000])})) } else { None })
        .collect();
    let ovv: Vec<Value> = windows
        .iter()
        .filter_map(|w| if rng.chance(1, 4) { Some(json!({"id": w["id"], "u": if rng.chance(1, 2) { 100 * rng.range(80, 500) } else { -1 },
            "fsh": if rng.chance(1, 2) { *rng.pick(&[0i64, 1000, 4500, 7300, 10000]) } else { -1 }})) } else { None })
        .collect();
    // a construction link that points into the sibling collection (an id that exists, but not where it is looked up)
    if break_links && rng.chance(1, 3) {
        if let Some(w) = walls.first_mut() { w["cons"] = json!(vcs[0]); }
        if let Some(v) = windows.first_mut() { v["cons"] = json!(wcs[0]); }
    }
    json!({
        "placed": rng.chance(1, 3),
        "meta": {"dwelling": rng.chance(1, 2), "new": rng.chance(1, 2), "n50t": if rng.chance(1, 3) { *rng.pick(&[100i64, 1000, 6000, 20000, 53200, 90000]) } else { -1 },
                 "gvent": if rng.chance(1, 2) { 10000 * rng.range(10, 200) } else { -1 }, "zone": *rng.pick(&zones)},
        "spaces": sps.iter().map(|&s| json!({"id": s, "inside": !rng.chance(1, 4), "kind": *rng.pick(&["C", "C", "U", "N"]),
            "mult": *rng.pick(&[100i64, 100, 200, 300]), "h": 1000 * rng.range(22, 40),
            "loads": brko(rng, &loads[..2]), "therm": brko(rng, &therms[..2])})).collect::<Vec<_>>(),
        "walls": walls, "windows": windows, "tbs": tbs,
        "wallcons": wcs.iter().map(|&c| { let n = rng.below(3) + 1; json!({"id": c,
            "mats": (0..n).map(|_| brkp(rng, &mats[..nmat])).collect::<Vec<_>>(),
            "es": (0..n).map(|_| 100 * rng.range(1, 30)).collect::<Vec<_>>()}) }).collect::<Vec<_>>(),
        "wincons": vcs.iter().map(|&c| json!({"id": c, "glass": brkp(rng, &glasses[..1]), "frame": brkp(rng, &frames[..1]),
            "c100": 100 * *rng.pick(&[0i64, 3, 9, 27, 50, 100]), "ff": *rng.pick(&[0i64, 0, 500, 1000, 1500, 2000, 2500, 4500, 10000]), "du": 100 * *rng.pick(&[0i64, 0, 1, 2, 10, 50]),
            "gsh": if rng.chance(1, 2) { *rng.pick(&[0i64, 500, 1200, 3500, 6000, 10000]) } else { -1 }})).collect::<Vec<_>>(),
        "materials": mats.iter().map(|&c| if rng.chance(1, 4) { json!({"id": c, "r": 100 * rng.range(5, 300)}) } else { json!({"id": c, "lambda": 100 * rng.range(3, 250)}) }).collect::<Vec<_>>(),
        "glasses": glasses.iter().map(|&c| json!({"id": c, "u": 1000 * rng.range(6, 57), "g": *rng.pick(&[0i64, 2000, 4200, 6500, 8500, 10000])})).collect::<Vec<_>>(),
        "frames": frames.iter().map(|&c| json!({"id": c, "u": 1000 * rng.range(10, 57)})).collect::<Vec<_>>(),
        "loads": loads.iter().map(|&c| json!({"id": c, "people": brko(rng, &years[..2]), "equip": brko(rng, &years[..2]), "light": brko(rng, &years[..2])})).collect::<Vec<_>>(),
        "therms": therms.iter().map(|&c| json!({"id": c, "tmax": brko(rng, &years[..2]), "tmin": brko(rng, &years[..2])})).collect::<Vec<_>>(),
        // a year is a list of (week, days in use), a week a list of (day, repetitions): one entry or several, a week in
        // use for less than seven days (so that not every one of its days occurs in the year), the last week and the last
        // day never referred to
        "years": years.iter().map(|&c| { let n = 1 + rng.below(3);
            let ws: Vec<i64> = (0..n).map(|_| brkp(rng, &weeks[..2])).collect();
            let mut cs: Vec<i64> = (0..n - 1).map(|_| *rng.pick(&[1i64, 2, 3, 5, 6, 7, 30])).collect();
            cs.push(365 - cs.iter().sum::<i64>());
            if rng.chance(1, 2) { cs.reverse(); }
            json!({"id": c, "weeks": ws, "counts": cs}) }).collect::<Vec<_>>(),
        "weeks": weeks.iter().map(|&c| { let n = 1 + rng.below(3);
            let ds: Vec<i64> = (0..n).map(|_| brkp(rng, &days[..3])).collect();
            let mut cs: Vec<i64> = (0..n - 1).map(|_| 1 + rng.below(2) as i64).collect();
            cs.push(7 - cs.iter().sum::<i64>());
            if rng.chance(1, 2) { cs.reverse(); }
            json!({"id": c, "days": ds, "counts": cs}) }).collect::<Vec<_>>(),
        "days": days.iter().map(|&c| json!({"id": c, "vals": (0..24).map(|_| 25 * rng.range(0, 4)).collect::<Vec<_>>()})).collect::<Vec<_>>(),
        "ovw": ovw, "ovv": ovv,
    })
}

pub struct Stats {
    pub models: usize,
    pub events: usize,
    pub hangs: usize,
    pub loaderrs: usize,
}

/// Drive a list of requests through one worker (history matters) and append events to `out`.
pub fn drive(reqs: Vec<Value>, timeout: Duration, out: &mut Vec<String>, stats: &mut Stats) {
    let mut w = Worker::new("session");
    for req in reqs {
        stats.models += 1;
        match w.call(&req, timeout) {
            Ok(ans) => {
                if ans.get("loaderr").is_some() {
                    stats.loaderrs += 1;
                }
                let mut poisoned = false;
                for e in ans.get("events").and_then(|e| e.as_array()).cloned().unwrap_or_default() {
                    if e.get("probe_ok").and_then(|p| p.as_bool()) == Some(false) {
                        poisoned = true;
                    }
                    out.push(e.to_string());
                    stats.events += 1;
                }
                if poisoned {
                    // the process is damaged for good (a poisoned mutex): continue in a fresh one so that the
                    // remaining cases are judged on their own
                    w.restart();
                    out.push(json!({"ev": "Restart"}).to_string());
                    stats.events += 1;
                }
            }
            Err(kind) => {
                // the worker hung or died on this request: that is an observation about the code
                stats.hangs += 1;
                if req.get("lite").and_then(|l| l.as_bool()).unwrap_or(false) {
                    out.push(json!({"ev": "ComputeLite", "outcome": kind, "site": kind, "name": req.get("name").cloned().unwrap_or(json!("")), "edit": req.get("edit").cloned().unwrap_or(json!("")),
                        "graph": {}, "nonfinite": [], "roundtrips": false, "sane": false}).to_string());
                    stats.events += 1;
                } else {
                    out.push(json!({"ev": "Load", "model": req.get("abs").cloned().unwrap_or(json!({})), "name": req.get("name").cloned().unwrap_or(json!("")), "lost": true}).to_string());
                    out.push(json!({"ev": "Compute", "outcome": kind, "site": kind, "name": req.get("name").cloned().unwrap_or(json!(""))}).to_string());
                    stats.events += 2;
                }
            }
        }
    }
}

pub fn main_session(args: &Args) {
    let seed = seed_from_env();
    let out_path = args.get("--out").unwrap_or_else(|| "work/session.ndjson".to_string());
    let nrandom = args.num("--random", 50);
    let nbroken = args.num("--broken", 50);
    let size = args.num("--size", 4);
    let timeout = Duration::from_millis(args.num("--timeout-ms", 10000) as u64);
    let ops_full = json!(["check", "compute", "purge", "compute", "check"]);
    let mut reqs: Vec<Value> = vec![];
    if args.flag("--corpus") {
        for p in shipped_models() {
            if let Ok(js) = std::fs::read_to_string(&p) {
                reqs.push(json!({"json": js, "ops": ops_full, "name": p.file_name().unwrap().to_string_lossy()}));
            }
        }
    }
    if let Some(dir) = args.get("--models-dir") {
        let mut files = vec![];
        walk(std::path::Path::new(&dir), &mut files);
        for p in files {
            if let Ok(js) = std::fs::read_to_string(&p) {
                reqs.push(json!({"json": js, "ops": ops_full, "name": p.file_name().unwrap().to_string_lossy()}));
            }
        }
    }
    if let Some(cases) = args.get("--cases") {
        for (i, l) in read_lines(&cases).iter().enumerate() {
            if let Ok(v) = serde_json::from_str::<Value>(l) {
                reqs.push(json!({"abs": v, "ops": ops_full, "name": format!("case{}", i)}));
            }
        }
    }
    if let Some(rf) = args.get("--reqs") {
        for l in read_lines(&rf) {
            if let Ok(v) = serde_json::from_str::<Value>(&l) {
                reqs.push(v);
            }
        }
    }
    let mut rng = Rng::new(seed);
    for i in 0..nrandom {
        let a = random_abstract(&mut rng, size, false);
        if args.flag("--variants") {
            // the building as the editor holds it while it is being drawn: without some kinds of element, with fully glazed
            // facades, with and without a measured air-tightness value
            for v in 1..=8 {
                reqs.push(json!({"abs": a, "ops": ["compute_lite"], "lite": true, "variant": v, "name": format!("rnd{}", i), "edit": format!("variant {}", v)}));
            }
        }
        reqs.push(json!({"abs": a, "ops": ops_full, "name": format!("rnd{}", i)}));
    }
    for i in 0..nbroken {
        reqs.push(json!({"abs": random_abstract(&mut rng, size, true), "ops": ops_full, "name": format!("brk{}", i)}));
    }
    write_lines(&format!("{}.reqs", out_path), &reqs.iter().map(|r| r.to_string()).collect::<Vec<_>>());
    let mut out: Vec<String> = vec![tables_event().to_string()];
    let mut stats = Stats { models: 0, events: 1, hangs: 0, loaderrs: 0 };
    drive(reqs, timeout, &mut out, &mut stats);
    write_lines(&out_path, &out);
    println!("{}", json!({"models": stats.models, "events": stats.events, "hangs": stats.hangs, "loaderrs": stats.loaderrs, "out": out_path}));
}

/// diagnostic: which reordering / renaming changes K for an abstract model taken from a replay file
pub fn main_probe(args: &Args) {
    install_panic_hook();
    let text = std::fs::read_to_string(args.get("--replay").unwrap_or_default()).unwrap_or_default();
    let v: Value = serde_json::from_str(&text).unwrap_or(Value::Null);
    let m = concretize(&v["event"]["model"]);
    let k = |m: &Model| catch(std::panic::AssertUnwindSafe(|| m.energy_indicators().K_data.K)).unwrap_or(f32::NAN);
    println!("original K = {}", k(&m));
    let mut a = m.clone(); a.walls.reverse(); println!("walls reversed   {}", k(&a));
    let mut a = m.clone(); a.spaces.reverse(); println!("spaces reversed  {}", k(&a));
    let mut a = m.clone(); a.windows.reverse(); println!("windows reversed {}", k(&a));
    let mut a = m.clone(); a.thermal_bridges.reverse(); println!("tbs reversed     {}", k(&a));
    let mut a = m.clone(); a.cons.wallcons.reverse(); a.cons.wincons.reverse(); a.cons.materials.reverse(); a.cons.glasses.reverse(); a.cons.frames.reverse(); println!("cons reversed    {}", k(&a));
    let mut a = m.clone(); for (i, x) in a.walls.iter_mut().enumerate() { x.name = format!("r{}", i); } println!("walls renamed    {}", k(&a));
    let mut a = m.clone(); for (i, x) in a.spaces.iter_mut().enumerate() { x.name = format!("r{}", i); } println!("spaces renamed   {}", k(&a));
    let k0 = k(&m);
    for i in 0..m.walls.len().saturating_sub(1) {
        let mut a = m.clone();
        a.walls.swap(i, i + 1);
        let k1 = k(&a);
        if k1 != k0 {
            let d = |w: &bemodel::Wall| format!("{} {:?} tilt {} az {} space {} next {:?} cons {}", w.name, w.bounds, w.geometry.tilt, w.geometry.azimuth, w.space, w.next_to, w.cons);
            println!("swap {} <-> {}: K {} -> {}\n   {}\n   {}", i, i + 1, k0, k1, d(&m.walls[i]), d(&m.walls[i + 1]));
            let u = |m: &Model| m.energy_indicators().props.walls.iter().map(|(id, p)| (id.to_string()[30..].to_string(), p.u_value)).collect::<Vec<_>>();
            let (u0, u1) = (u(&m), u(&a));
            for (x, y) in u0.iter().zip(u1.iter()) { if x != y { println!("   U differs: {:?} -> {:?}", x, y); } }
        }
    }
    if args.flag("--dump") { println!("{}", m.as_json().unwrap_or_default()); }
}

/// diagnostic: where does the indicators' JSON of a model carry null
pub fn main_nulls(args: &Args) {
    install_panic_hook();
    let text = std::fs::read_to_string(args.get("--model").unwrap_or_default()).unwrap_or_default();
    let m = Model::from_json(&text).expect("model");
    let ind = m.energy_indicators();
    let js = ind.as_json().unwrap_or_default();
    let v: Value = serde_json::from_str(&js).unwrap_or(Value::Null);
    fn walk(v: &Value, path: String) {
        match v {
            Value::Null => println!("null at {}", path),
            Value::Object(o) => for (k, x) in o { walk(x, format!("{}.{}", path, k)) },
            Value::Array(a) => for (i, x) in a.iter().enumerate() { walk(x, format!("{}[{}]", path, i)) },
            _ => {}
        }
    }
    walk(&v, String::new());
    println!("reload: {:?}", serde_json::from_str::<EnergyIndicators>(&js).map(|_| ()).map_err(|e| e.to_string()));
}
