//! X01 (coverage beyond the listed properties): convertdb, catalogue -> Library, observed through `get_library`.

use crate::util::*;
use bemodel::{MatProps, Uuid};
use serde_json::{json, Value};
use std::collections::HashMap;
use std::time::Duration;

fn n4(x: f32) -> String {
    if x.abs() > 1e12 {
        return format!("b:{}", x.to_bits()); // huge figures: the float itself
    }
    format!("n:{}", ((x as f64) * 1e4).round() as i64)
}
fn o4(x: Option<f32>) -> String {
    x.map_or("-".to_string(), n4)
}

pub fn worker_handle(req: &Value) -> Value {
    let path = req["path"].as_str().unwrap_or("").to_string();
    let r = catch(std::panic::AssertUnwindSafe(|| convertdb::get_library(&path)));
    let lib = match r {
        Ok(l) => l,
        Err(site) => return json!({"ev": "Library", "src": req["src"], "ok": false, "err": format!("panic {}", site), "cat": req["cat"], "got": {}}),
    };
    // ids back to names, kind by kind (an id that no item of the kind carries: "nil" for the nil id, else "dangling")
    let back = |pairs: Vec<(Uuid, String)>| -> (HashMap<Uuid, String>, bool) {
        let n = pairs.len();
        let m: HashMap<Uuid, String> = pairs.into_iter().collect();
        let unique = m.len() == n;
        (m, unique)
    };
    let (mats, u1) = back(lib.cons.materials.iter().map(|m| (m.id, m.name.clone())).collect());
    let (glas, u2) = back(lib.cons.glasses.iter().map(|m| (m.id, m.name.clone())).collect());
    let (fras, u3) = back(lib.cons.frames.iter().map(|m| (m.id, m.name.clone())).collect());
    let (wcs, u4) = back(lib.cons.wallcons.iter().map(|m| (m.id, m.name.clone())).collect());
    let (vcs, u5) = back(lib.cons.wincons.iter().map(|m| (m.id, m.name.clone())).collect());
    let name_of = |m: &HashMap<Uuid, String>, id: &Uuid| -> String {
        m.get(id).cloned().unwrap_or_else(|| if *id == Uuid::default() { "nil".to_string() } else { "dangling".to_string() })
    };
    let groups = |g: &std::collections::BTreeMap<String, Vec<Uuid>>, m: &HashMap<Uuid, String>| -> Vec<Value> {
        g.iter().map(|(k, ids)| json!([k, ids.iter().map(|i| name_of(m, i)).collect::<Vec<_>>()])).collect()
    };
    let got = json!({
        "unique_ids": u1 && u2 && u3 && u4 && u5,
        "materials": lib.cons.materials.iter().map(|m| match m.properties {
            MatProps::Detailed { conductivity, density, specific_heat, vapour_diff } =>
                json!({"name": m.name, "kind": "P", "vals": [n4(conductivity), n4(density), n4(specific_heat), o4(vapour_diff)]}),
            MatProps::Resistance { resistance, vapour_diff } => json!({"name": m.name, "kind": "R", "vals": [n4(resistance), o4(vapour_diff)]}),
        }).collect::<Vec<_>>(),
        "glasses": lib.cons.glasses.iter().map(|g| json!({"name": g.name, "vals": [n4(g.u_value), n4(g.g_gln)]})).collect::<Vec<_>>(),
        "frames": lib.cons.frames.iter().map(|f| json!({"name": f.name, "vals": [n4(f.u_value), n4(f.absorptivity)]})).collect::<Vec<_>>(),
        "wallcons": lib.cons.wallcons.iter().map(|w| json!({"name": w.name,
            "layers": w.layers.iter().map(|l| json!([name_of(&mats, &l.material), n4(l.e)])).collect::<Vec<_>>()})).collect::<Vec<_>>(),
        "wincons": lib.cons.wincons.iter().map(|w| json!({"name": w.name, "glass": name_of(&glas, &w.glass), "frame": name_of(&fras, &w.frame),
            "vals": [n4(w.f_f), n4(w.delta_u), o4(w.g_glshwi), n4(w.c_100)]})).collect::<Vec<_>>(),
        "groups": {"materials": groups(&lib.groups.materials, &mats), "glasses": groups(&lib.groups.glasses, &glas), "frames": groups(&lib.groups.frames, &fras),
                   "wallcons": groups(&lib.groups.wallcons, &wcs), "wincons": groups(&lib.groups.wincons, &vcs)},
    });
    json!({"ev": "Library", "src": req["src"], "ok": true, "cat": req["cat"], "got": got})
}

pub fn main_library(args: &Args) {
    let out_path = args.get("--out").unwrap_or_else(|| "work/library.ndjson".to_string());
    let mut w = Worker::new("library");
    let mut out: Vec<String> = vec![];
    for l in read_lines(&args.get("--reqs").unwrap_or_default()) {
        let req: Value = match serde_json::from_str(&l) {
            Ok(v) => v,
            Err(_) => continue,
        };
        match w.call(&req, Duration::from_secs(60)) {
            Ok(ans) => out.push(ans.to_string()),
            Err(kind) => out.push(json!({"ev": "Library", "src": req["src"], "ok": false, "err": kind, "cat": req["cat"], "got": {}}).to_string()),
        }
    }
    write_lines(&out_path, &out);
    println!("{}", json!({"requests": out.len(), "traces": out.len(), "out": out_path}));
}
