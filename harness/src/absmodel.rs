//! Projection bemodel::Model -> abstract model (the records ModelGraph.tla / Indicators.tla talk about)
//! and concretisation abstract model -> bemodel::Model.
//!
//! Scales (units per 1.0): areas 1e4, lengths 1e4, U / psi 1e4, multipliers 1e2, volumes 1e2,
//! c_100 1e2, fractions 1e4, n50 1e4.

use crate::util::{qopt, qv};
use bemodel::{
    BoundaryType, Model, Orientation, SpaceType, ThermalBridgeKind, Tilt, Uuid, Wall, WallGeom, Window,
};
use serde_json::{json, Map, Value};
use std::collections::HashMap;

pub struct Interner {
    map: HashMap<Uuid, i64>,
    next: i64,
}

impl Interner {
    pub fn new() -> Self {
        Interner { map: HashMap::new(), next: 1000 }
    }
    /// nil -> 0; UUIDs whose 128 bit value is below 1000 keep that value (ids of generated cases);
    /// any other UUID gets 1000, 1001, ... in order of first appearance
    pub fn id(&mut self, u: Uuid) -> i64 {
        let n = u.as_u128();
        if n < 1000 {
            return n as i64;
        }
        if let Some(i) = self.map.get(&u) {
            return *i;
        }
        let i = self.next;
        self.next += 1;
        self.map.insert(u, i);
        i
    }
    pub fn opt(&mut self, u: Option<Uuid>) -> i64 {
        match u {
            None => -1,
            Some(u) => self.id(u),
        }
    }
}

pub fn uuid_of(n: i64) -> Uuid {
    Uuid::from_u128(n as u128)
}
pub fn opt_uuid_of(n: i64) -> Option<Uuid> {
    if n < 0 {
        None
    } else {
        Some(uuid_of(n))
    }
}

pub fn tilt_name(t: Tilt) -> &'static str {
    match t {
        Tilt::TOP => "TOP",
        Tilt::SIDE => "SIDE",
        Tilt::BOTTOM => "BOTTOM",
    }
}
pub fn orient_name(o: Orientation) -> &'static str {
    match o {
        Orientation::N => "N",
        Orientation::NE => "NE",
        Orientation::E => "E",
        Orientation::SE => "SE",
        Orientation::S => "S",
        Orientation::SW => "SW",
        Orientation::W => "W",
        Orientation::NW => "NW",
        Orientation::HZ => "HZ",
    }
}
pub fn bounds_name(b: BoundaryType) -> &'static str {
    match b {
        BoundaryType::EXTERIOR => "EXTERIOR",
        BoundaryType::INTERIOR => "INTERIOR",
        BoundaryType::GROUND => "GROUND",
        BoundaryType::ADIABATIC => "ADIABATIC",
    }
}
pub fn kind_name(k: SpaceType) -> &'static str {
    match k {
        SpaceType::CONDITIONED => "C",
        SpaceType::UNCONDITIONED => "U",
        SpaceType::UNINHABITED => "N",
    }
}
pub fn tbkind_name(k: ThermalBridgeKind) -> &'static str {
    use ThermalBridgeKind::*;
    match k {
        ROOF => "ROOF",
        BALCONY => "BALCONY",
        CORNER => "CORNER",
        INTERMEDIATEFLOOR => "INTERMEDIATEFLOOR",
        INTERNALWALL => "INTERNALWALL",
        GROUNDFLOOR => "GROUNDFLOOR",
        PILLAR => "PILLAR",
        WINDOW => "WINDOW",
        GENERIC => "GENERIC",
    }
}

/// The graph part only (what ModelGraph.tla needs), cheap; used for purge/check events
pub fn graph_of(m: &Model, it: &mut Interner) -> Value {
    let ids = |it: &mut Interner, v: &[(Uuid, u32)]| -> Vec<i64> { v.iter().map(|(u, _)| it.id(*u)).collect() };
    json!({
        "spaces": m.spaces.iter().map(|s| json!({"id": it.id(s.id), "loads": it.opt(s.loads), "therm": it.opt(s.thermostat)})).collect::<Vec<_>>(),
        "walls": m.walls.iter().map(|w| json!({"id": it.id(w.id), "space": it.id(w.space), "cons": it.id(w.cons), "next": it.opt(w.next_to)})).collect::<Vec<_>>(),
        "windows": m.windows.iter().map(|w| json!({"id": it.id(w.id), "wall": it.id(w.wall), "cons": it.id(w.cons)})).collect::<Vec<_>>(),
        "tbs": m.thermal_bridges.iter().map(|t| json!({"id": it.id(t.id), "lsign": lsign(t.l)})).collect::<Vec<_>>(),
        "shades": m.shades.iter().map(|t| json!({"id": it.id(t.id)})).collect::<Vec<_>>(),
        "wallcons": m.cons.wallcons.iter().map(|c| json!({"id": it.id(c.id), "mats": c.layers.iter().map(|l| it.id(l.material)).collect::<Vec<_>>()})).collect::<Vec<_>>(),
        "wincons": m.cons.wincons.iter().map(|c| json!({"id": it.id(c.id), "glass": it.id(c.glass), "frame": it.id(c.frame)})).collect::<Vec<_>>(),
        "materials": m.cons.materials.iter().map(|c| json!({"id": it.id(c.id)})).collect::<Vec<_>>(),
        "glasses": m.cons.glasses.iter().map(|c| json!({"id": it.id(c.id)})).collect::<Vec<_>>(),
        "frames": m.cons.frames.iter().map(|c| json!({"id": it.id(c.id)})).collect::<Vec<_>>(),
        "loads": m.loads.iter().map(|l| json!({"id": it.id(l.id), "people": it.opt(l.people_schedule), "equip": it.opt(l.equipment_schedule), "light": it.opt(l.lighting_schedule)})).collect::<Vec<_>>(),
        "therms": m.thermostats.iter().map(|t| json!({"id": it.id(t.id), "tmax": it.opt(t.temp_max), "tmin": it.opt(t.temp_min)})).collect::<Vec<_>>(),
        "years": m.schedules.year.iter().map(|s| json!({"id": it.id(s.id), "weeks": ids(it, &s.values)})).collect::<Vec<_>>(),
        "weeks": m.schedules.week.iter().map(|s| json!({"id": it.id(s.id), "days": ids(it, &s.values)})).collect::<Vec<_>>(),
        "days": m.schedules.day.iter().map(|s| json!({"id": it.id(s.id)})).collect::<Vec<_>>(),
    })
}

/// sign of a thermal bridge length as purge/check see it:
/// negative (sign bit set, as `is_sign_negative`) -> -1 ; |l| <= f32::EPSILON -> 0 ; else 1.
/// -0.0 and tiny negative values are negative for the checker *and* zero for purge: reported as -2.
pub fn lsign(l: f32) -> i64 {
    let zero = !(l.abs() > f32::EPSILON);
    if l.is_sign_negative() && !l.is_nan() {
        if zero {
            -2
        } else {
            -1
        }
    } else if zero {
        0
    } else {
        1
    }
}

/// Full abstract model: graph + the numeric inputs the indicator definitions use.
/// `bad` collects values that cannot be represented (non finite / out of range).
pub fn abstract_model(m: &Model, it: &mut Interner, bad: &mut Vec<String>) -> Value {
    let g = graph_of(m, it);
    let mut o: Map<String, Value> = g.as_object().unwrap().clone();
    o.insert(
        "meta".into(),
        json!({
            "new": m.meta.is_new_building,
            "n50t": qopt(m.meta.n50_test_ach, 1e4, "meta.n50_test_ach", bad),
            "gvent": qopt(m.meta.global_ventilation_l_s, 1e4, "meta.global_ventilation_l_s", bad),
            "zone": m.meta.climate.to_string(),
        }),
    );
    let spaces: Vec<Value> = m
        .spaces
        .iter()
        .map(|s| {
            json!({"id": it.id(s.id), "loads": it.opt(s.loads), "therm": it.opt(s.thermostat),
                "inside": s.inside_tenv, "kind": kind_name(s.kind),
                "mult": qv(s.multiplier, 1e2, "space.multiplier", bad),
                "h": qv(s.height, 1e4, "space.height", bad)})
        })
        .collect();
    o.insert("spaces".into(), json!(spaces));
    let walls: Vec<Value> = m
        .walls
        .iter()
        .map(|w| {
            json!({"id": it.id(w.id), "space": it.id(w.space), "cons": it.id(w.cons), "next": it.opt(w.next_to),
                "bounds": bounds_name(w.bounds),
                // the classes as the code assigns them, and the angles themselves (floor, fraction in 2^-23, truncated) so that
                // the specification can classify them with its own tables (Classifiers.tla)
                "tilt": tilt_name(Tilt::from(w.geometry.tilt)),
                "orient": orient_name(Orientation::from(w.geometry.azimuth)),
                "tx": exact_angle(w.geometry.tilt).map(|a| json!([a.0, a.1])).unwrap_or(json!([0, 0])),
                "ax": exact_angle(w.geometry.azimuth).map(|a| json!([a.0, a.1])).unwrap_or(json!([0, 0])),
                "angok": exact_angle(w.geometry.tilt).is_some() && exact_angle(w.geometry.azimuth).is_some(),
                // area by the verifier's own shoelace sum over the polygon (not the code's area function)
                "area": qv(shoelace(&w.geometry.polygon), 1e4, "wall.area", bad)})
        })
        .collect();
    o.insert("walls".into(), json!(walls));
    let windows: Vec<Value> = m
        .windows
        .iter()
        .map(|w| {
            json!({"id": it.id(w.id), "wall": it.id(w.wall), "cons": it.id(w.cons),
                "area": qv(((w.geometry.width as f64) * (w.geometry.height as f64)) as f32, 1e4, "window.area", bad)})
        })
        .collect();
    o.insert("windows".into(), json!(windows));
    let tbs: Vec<Value> = m
        .thermal_bridges
        .iter()
        .map(|t| {
            json!({"id": it.id(t.id), "lsign": lsign(t.l), "l": qv(t.l.abs(), 1e4, "tb.l", bad),
                "psi": qv(t.psi.abs(), 1e4, "tb.psi", bad), "psineg": t.psi < 0.0,
                "kind": tbkind_name(t.kind)})
        })
        .collect();
    o.insert("tbs".into(), json!(tbs));
    let wallcons: Vec<Value> = m
        .cons
        .wallcons
        .iter()
        .map(|c| {
            json!({"id": it.id(c.id), "mats": c.layers.iter().map(|l| it.id(l.material)).collect::<Vec<_>>(),
                "thick": qv(c.thickness(), 1e4, "wallcons.thickness", bad)})
        })
        .collect();
    o.insert("wallcons".into(), json!(wallcons));
    let wincons: Vec<Value> = m
        .cons
        .wincons
        .iter()
        .map(|c| {
            json!({"id": it.id(c.id), "glass": it.id(c.glass), "frame": it.id(c.frame),
                "c100": qv(c.c_100, 1e2, "wincons.c_100", bad),
                "ff": qv(c.f_f, 1e4, "wincons.f_f", bad),
                "du": qv(c.delta_u, 1e2, "wincons.delta_u", bad),
                "gsh": qopt(c.g_glshwi, 1e4, "wincons.g_glshwi", bad)})
        })
        .collect();
    o.insert("wincons".into(), json!(wincons));
    let glasses: Vec<Value> = m
        .cons
        .glasses
        .iter()
        .map(|c| json!({"id": it.id(c.id), "u": qv(c.u_value, 1e4, "glass.u", bad), "g": qv(c.g_gln, 1e4, "glass.g", bad)}))
        .collect();
    o.insert("glasses".into(), json!(glasses));
    let frames: Vec<Value> = m
        .cons
        .frames
        .iter()
        .map(|c| json!({"id": it.id(c.id), "u": qv(c.u_value, 1e4, "frame.u", bad)}))
        .collect();
    o.insert("frames".into(), json!(frames));
    let ovw: Vec<Value> = m
        .overrides
        .walls
        .iter()
        .map(|(k, v)| json!({"id": it.id(*k), "u": qopt(v.u_value, 1e4, "ov.wall.u", bad)}))
        .collect();
    let ovv: Vec<Value> = m
        .overrides
        .windows
        .iter()
        .map(|(k, v)| json!({"id": it.id(*k), "u": qopt(v.u_value, 1e4, "ov.win.u", bad), "fsh": qopt(v.f_shobst, 1e4, "ov.win.fsh", bad)}))
        .collect();
    o.insert("ovw".into(), json!(ovw));
    o.insert("ovv".into(), json!(ovv));
    Value::Object(o)
}

// ---------------------------------------------------------------------------- concretisation

fn gi(v: &Value, k: &str) -> i64 {
    v.get(k).and_then(|x| x.as_i64()).unwrap_or(0)
}
fn gs<'a>(v: &'a Value, k: &str) -> &'a str {
    v.get(k).and_then(|x| x.as_str()).unwrap_or("")
}
fn gb(v: &Value, k: &str, d: bool) -> bool {
    v.get(k).and_then(|x| x.as_bool()).unwrap_or(d)
}
fn ga<'a>(v: &'a Value, k: &str) -> Vec<&'a Value> {
    v.get(k).and_then(|x| x.as_array()).map(|a| a.iter().collect()).unwrap_or_default()
}
fn gf(v: &Value, k: &str, scale: f64, d: f32) -> f32 {
    v.get(k).and_then(|x| x.as_i64()).map(|i| (i as f64 / scale) as f32).unwrap_or(d)
}
fn gof(v: &Value, k: &str, scale: f64) -> Option<f32> {
    v.get(k).and_then(|x| x.as_i64()).and_then(|i| if i < 0 { None } else { Some((i as f64 / scale) as f32) })
}

/// area of a polygon (shoelace formula, f64)
pub fn shoelace(poly: &[bemodel::Point2]) -> f32 {
    let n = poly.len();
    let mut a2 = 0.0f64;
    for i in 0..n {
        let (p, q) = (poly[i], poly[(i + 1) % n]);
        a2 += (p.x as f64) * (q.y as f64) - (q.x as f64) * (p.y as f64);
    }
    (a2.abs() / 2.0) as f32
}

/// floor and fraction (units of 2^-23, truncated) of an angle; None when it is not a number of moderate size
pub fn exact_angle(v: f32) -> Option<(i64, i64)> {
    if !v.is_finite() || v.abs() > 1.0e6 {
        return None;
    }
    let x = v as f64;
    let i = x.floor();
    let f = ((x - i) * 8388608.0).floor();
    Some((i as i64, (f as i64).clamp(0, 8388607)))
}

pub fn tilt_angle(t: &str) -> f32 {
    match t {
        "TOP" => 0.0,
        "BOTTOM" => 180.0,
        _ => 90.0,
    }
}
pub fn orient_angle(o: &str) -> f32 {
    match o {
        "S" => 0.0,
        "SE" => 45.0,
        "E" => 90.0,
        "NE" => 135.0,
        "N" => 180.0,
        "NW" => -135.0,
        "W" => -90.0,
        "SW" => -45.0,
        _ => 0.0,
    }
}

/// An angle of the class, chosen by the element id among the ends and the inside of the class's intervals
/// (Classifiers.tla: TOP [0,60] u [300,360), SIDE (60,120) u [240,300), BOTTOM [120,240)), in any period
pub fn tilt_in_class(t: &str, id: i64) -> f32 {
    let opts: &[f32] = match t {
        "TOP" => &[0.0, 0.0, 30.0, 60.0, 300.0, 330.0, 359.99, 360.0, -45.0],
        "BOTTOM" => &[180.0, 180.0, 120.0, 150.0, 239.99, -180.0, 540.0],
        _ => &[90.0, 90.0, 60.01, 119.99, 240.0, 270.0, 299.99, -90.0, 450.0],
    };
    opts[(id.unsigned_abs() as usize).wrapping_mul(7) % opts.len()]
}
/// Same for the compass classes (S = 0, E = +90; S [342,18), SE [18,69), E [69,120), NE [120,157.5), N [157.5,202.5),
/// NW [202.5,240), W [240,291), SW [291,342) on the angle modulo 360)
pub fn azimuth_in_class(o: &str, id: i64) -> f32 {
    let (lo, hi): (f32, f32) = match o {
        "S" => (-18.0, 18.0),
        "SE" => (18.0, 69.0),
        "E" => (69.0, 120.0),
        "NE" => (120.0, 157.5),
        "N" => (157.5, 202.5),
        "NW" => (202.5, 240.0),
        "W" => (240.0, 291.0),
        "SW" => (291.0, 342.0),
        _ => return 0.0,
    };
    let k = (id.unsigned_abs() as usize).wrapping_mul(11) % 8;
    let a = match k {
        0 | 1 => orient_angle(o),
        2 => lo,
        3 => lo + 0.01,
        4 => hi - 0.01,
        5 => (lo + hi) / 2.0,
        6 => lo + (hi - lo) * 0.25,
        _ => hi - (hi - lo) * 0.2,
    };
    // the usual range of the model is (-180, 180]; every other element in another period
    if k == 6 { a + 360.0 } else if a > 180.0 { a - 360.0 } else { a }
}

/// Build a concrete model from an abstract one. Ids n become the UUID with 128 bit value n.
/// Areas become w x 1 rectangles without position (so the obstruction factor is the unobstructed one).
pub fn concretize(a: &Value) -> Model {
    use bemodel::*;
    let mut m = Model::default();
    m.meta.name = "abstract".to_string();
    if let Some(meta) = a.get("meta") {
        m.meta.is_new_building = gb(meta, "new", true);
        m.meta.is_dwelling = gb(meta, "dwelling", true);
        m.meta.n50_test_ach = gof(meta, "n50t", 1e4);
        m.meta.global_ventilation_l_s = gof(meta, "gvent", 1e4);
        let z = gs(meta, "zone");
        if !z.is_empty() {
            if let Ok(zone) = bemodel::climatedata::ClimateZone::try_from(z) {
                m.meta.climate = zone;
            }
        }
    }
    for s in ga(a, "spaces") {
        m.spaces.push(Space {
            id: uuid_of(gi(s, "id")),
            name: format!("S{}", gi(s, "id")),
            multiplier: gf(s, "mult", 1e2, 1.0),
            kind: match gs(s, "kind") {
                "U" => SpaceType::UNCONDITIONED,
                "N" => SpaceType::UNINHABITED,
                _ => SpaceType::CONDITIONED,
            },
            inside_tenv: gb(s, "inside", true),
            height: gf(s, "h", 1e4, 3.0),
            z: gf(s, "z", 1e4, 0.0),
            loads: opt_uuid_of(s.get("loads").and_then(|x| x.as_i64()).unwrap_or(-1)),
            thermostat: opt_uuid_of(s.get("therm").and_then(|x| x.as_i64()).unwrap_or(-1)),
            n_v: gof(s, "nv", 1e4),
            illuminance: None,
        });
    }
    // "placed" models: every element has a position (the elements stand 1000 m apart along the x axis), the windows sit
    // side by side in their walls and may be set back, so that the computed obstruction factor is not 1
    let placed = gb(a, "placed", false);
    for (widx, w) in ga(a, "walls").iter().enumerate() {
        let area = gf(w, "area", 1e4, 10.0);
        m.walls.push(Wall {
            id: uuid_of(gi(w, "id")),
            name: format!("W{}", gi(w, "id")),
            bounds: match gs(w, "bounds") {
                "INTERIOR" => BoundaryType::INTERIOR,
                "GROUND" => BoundaryType::GROUND,
                "ADIABATIC" => BoundaryType::ADIABATIC,
                _ => BoundaryType::EXTERIOR,
            },
            cons: uuid_of(gi(w, "cons")),
            space: uuid_of(gi(w, "space")),
            next_to: opt_uuid_of(w.get("next").and_then(|x| x.as_i64()).unwrap_or(-1)),
            geometry: WallGeom {
                tilt: tilt_in_class(gs(w, "tilt"), gi(w, "id")),
                azimuth: azimuth_in_class(gs(w, "orient"), gi(w, "id")),
                position: if placed { Some(point![1000.0 * widx as f32, 0.0, 0.0]) } else { None },
                polygon: vec![point![0.0, 0.0], point![area, 0.0], point![area, 1.0], point![0.0, 1.0]],
            },
        });
    }
    for w in ga(a, "walls") {
        if let Some(u) = gof(w, "uov", 1e4) {
            m.overrides.walls.insert(uuid_of(gi(w, "id")), WallPropsOverrides { u_value: Some(u) });
        }
    }
    let mut used: std::collections::HashMap<i64, f32> = std::collections::HashMap::new();
    for w in ga(a, "windows") {
        let area = gf(w, "area", 1e4, 1.0);
        let x0 = *used.get(&gi(w, "wall")).unwrap_or(&0.0);
        used.insert(gi(w, "wall"), x0 + area);
        m.windows.push(Window {
            id: uuid_of(gi(w, "id")),
            name: format!("V{}", gi(w, "id")),
            cons: uuid_of(gi(w, "cons")),
            wall: uuid_of(gi(w, "wall")),
            geometry: WinGeom { position: if placed { Some(point![x0, 0.0]) } else { None }, height: 1.0, width: area, setback: if placed { gf(w, "sb", 1e2, 0.0) } else { 0.0 } },
        });
    }
    for t in ga(a, "tbs") {
        let ls = gi(t, "lsign");
        let l = gf(t, "l", 1e4, 1.0);
        let psi = gf(t, "psi", 1e4, 0.1);
        m.thermal_bridges.push(ThermalBridge {
            id: uuid_of(gi(t, "id")),
            name: format!("T{}", gi(t, "id")),
            kind: match gs(t, "kind") {
                "ROOF" => ThermalBridgeKind::ROOF,
                "BALCONY" => ThermalBridgeKind::BALCONY,
                "CORNER" => ThermalBridgeKind::CORNER,
                "INTERMEDIATEFLOOR" => ThermalBridgeKind::INTERMEDIATEFLOOR,
                "INTERNALWALL" => ThermalBridgeKind::INTERNALWALL,
                "GROUNDFLOOR" => ThermalBridgeKind::GROUNDFLOOR,
                "PILLAR" => ThermalBridgeKind::PILLAR,
                "WINDOW" => ThermalBridgeKind::WINDOW,
                _ => ThermalBridgeKind::GENERIC,
            },
            l: if ls == 0 { 0.0 } else if ls < 0 { -l.max(0.5) } else { l.max(1e-3) },
            psi: if gb(t, "psineg", false) { -psi } else { psi },
        });
    }
    for c in ga(a, "wallcons") {
        let mats = ga(c, "mats");
        let es: Vec<&Value> = ga(c, "es");
        m.cons.wallcons.push(WallCons {
            id: uuid_of(gi(c, "id")),
            name: format!("C{}", gi(c, "id")),
            layers: mats
                .iter()
                .enumerate()
                .map(|(i, mid)| Layer {
                    material: uuid_of(mid.as_i64().unwrap_or(0)),
                    e: es.get(i).and_then(|e| e.as_i64()).map(|e| (e as f64 / 1e4) as f32).unwrap_or(0.1),
                })
                .collect(),
            absorptance: 0.6,
        });
    }
    for c in ga(a, "wincons") {
        m.cons.wincons.push(WinCons {
            id: uuid_of(gi(c, "id")),
            name: format!("VC{}", gi(c, "id")),
            glass: uuid_of(gi(c, "glass")),
            frame: uuid_of(gi(c, "frame")),
            f_f: gf(c, "ff", 1e4, 0.25),
            delta_u: gf(c, "du", 1e2, 0.0),
            g_glshwi: gof(c, "gsh", 1e4),
            c_100: gf(c, "c100", 1e2, 27.0),
        });
    }
    for c in ga(a, "materials") {
        let props = if let Some(r) = gof(c, "r", 1e4) {
            MatProps::Resistance { resistance: r, vapour_diff: None }
        } else {
            MatProps::Detailed {
                conductivity: gf(c, "lambda", 1e4, 0.5),
                density: 1000.0,
                specific_heat: 1000.0,
                vapour_diff: None,
            }
        };
        m.cons.materials.push(Material { id: uuid_of(gi(c, "id")), name: format!("M{}", gi(c, "id")), properties: props });
    }
    for c in ga(a, "glasses") {
        m.cons.glasses.push(Glass {
            id: uuid_of(gi(c, "id")),
            name: format!("G{}", gi(c, "id")),
            u_value: gf(c, "u", 1e4, 2.5),
            g_gln: gf(c, "g", 1e4, 0.75),
        });
    }
    for c in ga(a, "frames") {
        m.cons.frames.push(Frame {
            id: uuid_of(gi(c, "id")),
            name: format!("F{}", gi(c, "id")),
            u_value: gf(c, "u", 1e4, 3.0),
            absorptivity: 0.6,
        });
    }
    for l in ga(a, "loads") {
        m.loads.push(SpaceLoads {
            id: uuid_of(gi(l, "id")),
            name: format!("L{}", gi(l, "id")),
            area_per_person: 10.0,
            people_schedule: opt_uuid_of(l.get("people").and_then(|x| x.as_i64()).unwrap_or(-1)),
            people_sensible: gf(l, "psens", 1e2, 2.0),
            people_latent: 1.0,
            equipment: gf(l, "eq", 1e2, 4.0),
            equipment_schedule: opt_uuid_of(l.get("equip").and_then(|x| x.as_i64()).unwrap_or(-1)),
            lighting: gf(l, "li", 1e2, 5.0),
            lighting_schedule: opt_uuid_of(l.get("light").and_then(|x| x.as_i64()).unwrap_or(-1)),
        });
    }
    for t in ga(a, "therms") {
        m.thermostats.push(Thermostat {
            id: uuid_of(gi(t, "id")),
            name: format!("TH{}", gi(t, "id")),
            temp_max: opt_uuid_of(t.get("tmax").and_then(|x| x.as_i64()).unwrap_or(-1)),
            temp_min: opt_uuid_of(t.get("tmin").and_then(|x| x.as_i64()).unwrap_or(-1)),
        });
    }
    let pairs = |v: &Value, ids: &str, dflt: u32| -> Vec<(Uuid, u32)> {
        let counts = ga(v, "counts");
        ga(v, ids)
            .iter()
            .enumerate()
            .map(|(i, id)| {
                (
                    uuid_of(id.as_i64().unwrap_or(0)),
                    counts.get(i).and_then(|c| c.as_u64()).map(|c| c as u32).unwrap_or(dflt),
                )
            })
            .collect()
    };
    for s in ga(a, "years") {
        let n = ga(s, "weeks").len().max(1) as u32;
        let mut values = pairs(s, "weeks", 365 / n);
        // default counts: make them add up to 365
        if s.get("counts").is_none() && !values.is_empty() {
            let total: u32 = values.iter().map(|v| v.1).sum();
            values.last_mut().unwrap().1 += 365 - total;
        }
        m.schedules.year.push(Schedule { id: uuid_of(gi(s, "id")), name: format!("Y{}", gi(s, "id")), values });
    }
    for s in ga(a, "weeks") {
        let n = ga(s, "days").len().max(1) as u32;
        let mut values = pairs(s, "days", 7 / n);
        if s.get("counts").is_none() && !values.is_empty() {
            let total: u32 = values.iter().map(|v| v.1).sum();
            values.last_mut().unwrap().1 += 7 - total;
        }
        m.schedules.week.push(ScheduleWeek { id: uuid_of(gi(s, "id")), name: format!("WK{}", gi(s, "id")), values });
    }
    for s in ga(a, "days") {
        let vals: Vec<f32> = ga(s, "vals").iter().map(|v| (v.as_i64().unwrap_or(0) as f64 / 1e2) as f32).collect();
        m.schedules.day.push(ScheduleDay {
            id: uuid_of(gi(s, "id")),
            name: format!("D{}", gi(s, "id")),
            values: if vals.is_empty() { vec![0.5; 24] } else { vals },
        });
    }
    for o in ga(a, "ovw") {
        m.overrides
            .walls
            .insert(uuid_of(gi(o, "id")), WallPropsOverrides { u_value: gof(o, "u", 1e4) });
    }
    for o in ga(a, "ovv") {
        m.overrides.windows.insert(
            uuid_of(gi(o, "id")),
            WinPropsOverrides { u_value: gof(o, "u", 1e4), f_shobst: gof(o, "fsh", 1e4) },
        );
    }
    m
}

#[allow(dead_code)]
pub fn unused(_: &Wall, _: &Window, _: &WallGeom) {}
