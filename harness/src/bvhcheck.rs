//! C13 (first part): BVH construction and queries. Builds run in a supervised worker (a build that
//! panics or does not terminate is an observation); hooks H1 give the construction events.

use crate::util::*;
use bemodel::energy::{Intersectable, Ray, AABB, BVH};
use nalgebra::{point, vector};
use serde_json::{json, Value};
use std::time::Duration;

fn boxes_of(req: &Value) -> Vec<AABB> {
    req["boxes"]
        .as_array()
        .map(|a| {
            a.iter()
                .map(|b| {
                    let f = |i: usize| b[i].as_f64().unwrap_or(0.0) as f32;
                    AABB::new(point![f(0), f(1), f(2)], point![f(3), f(4), f(5)])
                })
                .collect()
        })
        .unwrap_or_default()
}

/// request: {boxes: [[lox,loy,loz,hix,hiy,hiz]..], leaf, axis_rays: [[ox,oy,oz,a,d]..], free_rays: [[ox,oy,oz,dx,dy,dz]..], exact}
pub fn worker_handle(req: &Value) -> Value {
    let boxes = boxes_of(req);
    let leaf = req["leaf"].as_u64().unwrap_or(30) as usize;
    let exact = req["exact"].as_bool().unwrap_or(false);
    bemodel::verif_trace::take();
    bemodel::verif_trace::enable(true);
    let built = catch(std::panic::AssertUnwindSafe(|| BVH::build(boxes.clone(), leaf)));
    bemodel::verif_trace::enable(false);
    let mut events: Vec<Value> = bemodel::verif_trace::take()
        .iter()
        .filter_map(|l| serde_json::from_str::<Value>(l).ok())
        .filter(|v| v["ev"].as_str().map_or(false, |e| e.starts_with("Bvh")))
        .map(|mut v| {
            v["exact"] = json!(exact);
            if v["ev"] == "BvhStart" && exact {
                // integer boxes: keep them as integers for TLC
                v["boxes"] = req["boxes"].clone();
            } else if v["ev"] == "BvhStart" {
                v["boxes"] = json!([]);
                v["n"] = json!(0);
            }
            v.as_object_mut().unwrap().remove("thread");
            v
        })
        .collect();
    let bvh = match built {
        Ok(b) => b,
        Err(site) => {
            events.push(json!({"ev": "BvhAbort", "reason": "panic", "site": site, "exact": exact}));
            return json!({"events": events});
        }
    };
    let mut qs: Vec<Value> = vec![];
    // the exhaustive answer does not go through the code under test: exact rational slab test on the integer data of the
    // request (boxes, ray origins and directions are integers); None when the ray only grazes a box (touches its
    // boundary without entering): such rays are not judged
    let ibox: Vec<[i128; 6]> = req["boxes"].as_array().map(|a| a.iter().map(|b| {
        let g = |i: usize| b[i].as_i64().unwrap_or(0) as i128;
        [g(0), g(1), g(2), g(3), g(4), g(5)]
    }).collect()).unwrap_or_default();
    let exact_hit = |o: [i128; 3], d: [i128; 3]| -> Option<bool> {
        // fractions n/m with m > 0
        let le = |a: (i128, i128), b: (i128, i128)| a.0 * b.1 <= b.0 * a.1;
        let lt = |a: (i128, i128), b: (i128, i128)| a.0 * b.1 < b.0 * a.1;
        let (mut closed_any, mut strict_any) = (false, false);
        for b in &ibox {
            let (mut lo, mut hi) = ((0i128, 1i128), (1_000_000_000_000i128, 1i128));
            let (mut closed, mut strict) = (true, true);
            for k in 0..3 {
                let (mn, mx) = (b[k], b[k + 3]);
                if d[k] == 0 {
                    if !(mn <= o[k] && o[k] <= mx) { closed = false; }
                    if !(mn < o[k] && o[k] < mx) { strict = false; }
                } else {
                    let (mut a, mut c) = ((mn - o[k], d[k]), (mx - o[k], d[k]));
                    if d[k] < 0 { a = (-a.0, -a.1); c = (-c.0, -c.1); std::mem::swap(&mut a, &mut c); }
                    if lt(lo, a) { lo = a; }
                    if lt(c, hi) { hi = c; }
                }
            }
            if !le(lo, hi) { closed = false; }
            if !lt(lo, hi) { strict = false; }
            closed_any |= closed;
            strict_any |= strict && closed;
        }
        if closed_any == strict_any { Some(closed_any) } else { None }
    };
    let lin = |ray: &Ray| boxes.iter().any(|b| b.intersects(ray).is_some());
    for r in req["axis_rays"].as_array().cloned().unwrap_or_default() {
        let f = |i: usize| r[i].as_f64().unwrap_or(0.0) as f32;
        let a = r[3].as_i64().unwrap_or(1);
        let d = r[4].as_i64().unwrap_or(1) as f32;
        let dir = match a {
            1 => vector![d, 0.0, 0.0],
            2 => vector![0.0, d, 0.0],
            _ => vector![0.0, 0.0, d],
        };
        let ray = Ray::new(point![f(0), f(1), f(2)], dir);
        let acc = catch(std::panic::AssertUnwindSafe(|| bvh.intersects(&ray).is_some()));
        qs.push(json!({"o": [r[0], r[1], r[2]], "a": a, "d": r[4], "acc": acc.unwrap_or(false), "lin": lin(&ray)}));
    }
    for r in req["free_rays"].as_array().cloned().unwrap_or_default() {
        let f = |i: usize| r[i].as_f64().unwrap_or(0.0) as f32;
        let ray = Ray::new(point![f(0), f(1), f(2)], vector![f(3), f(4), f(5)]);
        let acc = catch(std::panic::AssertUnwindSafe(|| bvh.intersects(&ray).is_some()));
        let gi = |i: usize| r[i].as_i64().unwrap_or(0) as i128;
        let acc: Result<bool, String> = Ok(acc.unwrap_or(false));
        let acc = acc.as_ref().map(|b| *b);
        match exact_hit([gi(0), gi(1), gi(2)], [gi(3), gi(4), gi(5)]) {
            Some(h) => qs.push(json!({"acc": acc.unwrap_or(false), "lin": h, "code_lin": lin(&ray)})),
            None => qs.push(json!({"acc": acc.unwrap_or(false), "lin": acc.unwrap_or(false), "code_lin": lin(&ray), "grazing": true})),
        }
    }
    events.push(json!({"ev": "BvhQuery", "qs": qs, "exact": exact}));
    json!({"events": events})
}

fn rand_box(rng: &mut Rng, span: i64, maxw: i64) -> Vec<i64> {
    // even coordinates (rays use odd ones)
    let c = [2 * rng.range(-span, span), 2 * rng.range(-span, span), 2 * rng.range(-span / 2, span / 2)];
    let w = [2 * rng.range(1, maxw), 2 * rng.range(1, maxw), 2 * rng.range(1, maxw)];
    vec![c[0] - w[0], c[1] - w[1], c[2] - w[2], c[0] + w[0], c[1] + w[1], c[2] + w[2]]
}

pub fn random_request(rng: &mut Rng, maxn: usize) -> Value {
    let family = rng.below(6);
    let n = match rng.below(8) {
        0 => 0,
        1 => 1,
        2 => 29 + rng.below(4), // around the real leaf size
        _ => rng.below(maxn + 1),
    };
    let leaf = *rng.pick(&[1usize, 2, 3, 8, 30, 30, 30]);
    let mut boxes: Vec<Vec<i64>> = vec![];
    match family {
        0 => {
            // all equal
            let b = rand_box(rng, 10, 3);
            boxes = vec![b; n];
        }
        1 => {
            // same centre, different sizes
            for _ in 0..n {
                let w = 2 * rng.range(1, 6);
                boxes.push(vec![-w, -w, -w, w, w, w]);
            }
        }
        2 => {
            // a few distinct boxes, many duplicates
            let pool: Vec<Vec<i64>> = (0..3).map(|_| rand_box(rng, 10, 3)).collect();
            for _ in 0..n {
                boxes.push(rng.pick(&pool).clone());
            }
        }
        3 => {
            // on a line along one axis
            let ax = rng.below(3);
            for i in 0..n {
                let mut c = [0i64; 3];
                c[ax] = 6 * i as i64;
                boxes.push(vec![c[0] - 2, c[1] - 2, c[2] - 2, c[0] + 2, c[1] + 2, c[2] + 2]);
            }
        }
        _ => {
            for _ in 0..n {
                boxes.push(rand_box(rng, 20, 4));
            }
        }
    }
    let mut axis_rays: Vec<Value> = vec![];
    for _ in 0..24 {
        let o = [2 * rng.range(-25, 25) + 1, 2 * rng.range(-25, 25) + 1, 2 * rng.range(-12, 12) + 1];
        axis_rays.push(json!([o[0], o[1], o[2], 1 + rng.below(3), if rng.chance(1, 2) { 1 } else { -1 }]));
    }
    let mut free_rays: Vec<Value> = vec![];
    for _ in 0..24 {
        free_rays.push(json!([rng.range(-50, 50), rng.range(-50, 50), rng.range(-25, 25),
            rng.range(-10, 10), rng.range(-10, 10), rng.range(-10, 10) * 2 + 1]));
    }
    json!({"boxes": boxes, "leaf": leaf, "axis_rays": axis_rays, "free_rays": free_rays, "exact": true})
}

pub fn main_bvh(args: &Args) {
    let seed = seed_from_env();
    let out_path = args.get("--out").unwrap_or_else(|| "work/bvh.ndjson".to_string());
    let nrandom = args.num("--random", 200);
    let maxn = args.num("--maxn", 200);
    let timeout = Duration::from_millis(args.num("--timeout-ms", 3000) as u64);
    let mut reqs: Vec<Value> = vec![];
    if let Some(rf) = args.get("--reqs") {
        for l in read_lines(&rf) {
            if let Ok(v) = serde_json::from_str::<Value>(&l) {
                reqs.push(v);
            }
        }
    }
    if let Some(cases) = args.get("--cases") {
        // TLC cases: {"input": [{"lo":[..],"hi":[..]}], "leaf": n, "rays": [{"o":[..],"a":..,"d":..}]}
        for l in read_lines(&cases) {
            if let Ok(v) = serde_json::from_str::<Value>(&l) {
                let boxes: Vec<Value> = v["input"]
                    .as_array()
                    .map(|a| a.iter().map(|b| json!([b["lo"][0], b["lo"][1], b["lo"][2], b["hi"][0], b["hi"][1], b["hi"][2]])).collect())
                    .unwrap_or_default();
                let rays: Vec<Value> = v["rays"]
                    .as_array()
                    .map(|a| a.iter().map(|r| json!([r["o"][0], r["o"][1], r["o"][2], r["a"], r["d"]])).collect())
                    .unwrap_or_default();
                reqs.push(json!({"boxes": boxes, "leaf": v["leaf"], "axis_rays": rays, "free_rays": [], "exact": true}));
            }
        }
    }
    let mut rng = Rng::new(seed);
    for _ in 0..nrandom {
        reqs.push(random_request(&mut rng, maxn));
    }
    write_lines(&format!("{}.reqs", out_path), &reqs.iter().map(|r| r.to_string()).collect::<Vec<_>>());
    let mut w = Worker::new("bvh");
    w.mem_limit_mb = 2048;
    let mut out: Vec<String> = vec![];
    let (mut builds, mut aborts) = (0usize, 0usize);
    for (i, req) in reqs.iter().enumerate() {
        builds += 1;
        match w.call(req, timeout) {
            Ok(ans) => {
                for mut e in ans["events"].as_array().cloned().unwrap_or_default() {
                    e["req"] = json!(i);
                    if e["ev"] == "BvhAbort" {
                        aborts += 1;
                    }
                    out.push(e.to_string());
                }
            }
            Err(kind) => {
                aborts += 1;
                out.push(json!({"ev": "BvhStart", "n": req["boxes"].as_array().map_or(0, |a| a.len()), "max": req["leaf"], "boxes": req["boxes"], "exact": true, "req": i}).to_string());
                out.push(json!({"ev": "BvhAbort", "reason": kind, "site": kind, "exact": true, "req": i}).to_string());
            }
        }
    }
    write_lines(&out_path, &out);
    println!("{}", json!({"builds": builds, "aborts": aborts, "events": out.len(), "out": out_path}));
}
