//! Geometry projection of a converted model (C03): global corner points of every wall and shade through
//! WallGeom::to_global_coords_matrix, normals, areas; windows in wall coordinates.

use bemodel::Model;
use serde_json::{json, Value};

pub fn geometry_of(m: &Model) -> Value {
    let mm = |v: f32| -> Value {
        let x = (v as f64 * 1000.0).round();
        if x.is_finite() && x.abs() < 2.0e9 { json!(x as i64) } else { json!(0) }
    };
    let geo = |g: &bemodel::WallGeom, area: f32| -> Value {
        let corners: Vec<Value> = match g.to_global_coords_matrix() {
            Some(tr) => g
                .polygon
                .iter()
                .map(|p| {
                    let q = tr * nalgebra::point![p.x, p.y, 0.0];
                    json!([mm(q.x), mm(q.y), mm(q.z)])
                })
                .collect(),
            None => vec![],
        };
        json!({"corners": corners, "tilt": mm(g.tilt / 10.0), "azimuth": mm(g.azimuth / 10.0),
            "area": mm(area * 10.0), "haspos": g.position.is_some()})
    };
    json!({
        "walls": m.walls.iter().map(|w| { let mut v = geo(&w.geometry, w.area()); v["name"] = json!(w.name); v["bounds"] = json!(crate::absmodel::bounds_name(w.bounds)); v["space"] = json!(m.get_space(w.space).map(|s| s.name.clone()).unwrap_or_default()); v }).collect::<Vec<_>>(),
        "shades": m.shades.iter().map(|w| { let mut v = geo(&w.geometry, w.area()); v["name"] = json!(w.name); v }).collect::<Vec<_>>(),
        "windows": m.windows.iter().map(|w| json!({"name": w.name,
            "x": w.geometry.position.map_or(json!(-1000000), |p| mm(p.x)), "y": w.geometry.position.map_or(json!(-1000000), |p| mm(p.y)),
            "w": mm(w.geometry.width), "h": mm(w.geometry.height), "setback": mm(w.geometry.setback),
            "wall": m.get_wall(w.wall).map(|x| x.name.clone()).unwrap_or_default()})).collect::<Vec<_>>(),
        "spaces": m.spaces.iter().map(|s| json!({"name": s.name, "h": mm(s.height), "z": mm(s.z), "area": mm(s.area(&m.walls) * 10.0)})).collect::<Vec<_>>(),
    })
}
