//! Geometry projection of a converted model (C03): global corner points of every wall and shade through
//! WallGeom::to_global_coords_matrix, normals, areas; windows in wall coordinates.

use bemodel::Model;
use serde_json::{json, Value};

pub fn geometry_of(m: &Model) -> Value {
    let mm = |v: f32| -> Value {
        let x = (v as f64 * 1000.0).round();
        if x.is_finite() && x.abs() < 2.0e9 { json!(x as i64) } else { json!(0) }
    };
    let geo = |g: &bemodel::WallGeom, area: f32| -> Value {
        let corners: Vec<Value> = match g.to_global_coords_matrix() {
            Some(tr) => g
                .polygon
                .iter()
                .map(|p| {
                    let q = tr * nalgebra::point![p.x, p.y, 0.0];
                    json!([mm(q.x), mm(q.y), mm(q.z)])
                })
                .collect(),
            None => vec![],
        };
        // geometric normal of the posed polygon (Newell's method on the global corner points), 1e-4
        let pts: Vec<[f64; 3]> = match g.to_global_coords_matrix() {
            Some(tr) => g.polygon.iter().map(|p| { let q = tr * nalgebra::point![p.x, p.y, 0.0]; [q.x as f64, q.y as f64, q.z as f64] }).collect(),
            None => vec![],
        };
        let mut n = [0.0f64; 3];
        for i in 0..pts.len() {
            let (a, b) = (pts[i], pts[(i + 1) % pts.len()]);
            n[0] += (a[1] - b[1]) * (a[2] + b[2]);
            n[1] += (a[2] - b[2]) * (a[0] + b[0]);
            n[2] += (a[0] - b[0]) * (a[1] + b[1]);
        }
        let l = (n[0] * n[0] + n[1] * n[1] + n[2] * n[2]).sqrt();
        let unit = |v: f64| -> Value { if l > 1e-12 { json!((v / l * 10000.0).round() as i64) } else { json!(0) } };
        // the normal the reported tilt and azimuth stand for: Rz(azimuth) Rx(tilt) (0, 0, +-1), sign = winding of the polygon
        let mut a2 = 0.0f64;
        for i in 0..g.polygon.len() {
            let (p, q) = (g.polygon[i], g.polygon[(i + 1) % g.polygon.len()]);
            a2 += (p.x as f64) * (q.y as f64) - (q.x as f64) * (p.y as f64);
        }
        let sgn = if a2 < 0.0 { -1.0 } else { 1.0 };
        let (t, az) = ((g.tilt as f64).to_radians(), (g.azimuth as f64).to_radians());
        let r4 = |v: f64| -> Value { json!((v * 10000.0).round() as i64) };
        json!({"corners": corners, "tilt": mm(g.tilt / 10.0), "azimuth": mm(g.azimuth / 10.0),
            "normal": [unit(n[0]), unit(n[1]), unit(n[2])],
            "nrep": [r4(sgn * az.sin() * t.sin()), r4(-sgn * az.cos() * t.sin()), r4(sgn * t.cos())],
            "area": mm(area * 10.0), "haspos": g.position.is_some()})
    };
    json!({
        "walls": m.walls.iter().map(|w| { let mut v = geo(&w.geometry, w.area()); v["name"] = json!(w.name); v["bounds"] = json!(crate::absmodel::bounds_name(w.bounds)); v["space"] = json!(m.get_space(w.space).map(|s| s.name.clone()).unwrap_or_default()); v }).collect::<Vec<_>>(),
        "shades": m.shades.iter().map(|w| { let mut v = geo(&w.geometry, w.area()); v["name"] = json!(w.name); v }).collect::<Vec<_>>(),
        "windows": m.windows.iter().map(|w| json!({"name": w.name,
            "x": w.geometry.position.map_or(json!(-1000000), |p| mm(p.x)), "y": w.geometry.position.map_or(json!(-1000000), |p| mm(p.y)),
            "w": mm(w.geometry.width), "h": mm(w.geometry.height), "setback": mm(w.geometry.setback),
            "wall": m.get_wall(w.wall).map(|x| x.name.clone()).unwrap_or_default()})).collect::<Vec<_>>(),
        "spaces": m.spaces.iter().map(|s| json!({"name": s.name, "h": mm(s.height), "z": mm(s.z), "area": mm(s.area(&m.walls) * 10.0)})).collect::<Vec<_>>(),
    })
}
