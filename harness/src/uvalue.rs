//! C06 / C07: U-values of the walls and window constructions of a model given as JSON.

use crate::util::*;
use bemodel::Model;
use serde_json::{json, Value};

fn q4(v: Option<f32>) -> Value {
    match v {
        None => json!(-1),
        Some(x) if x.is_finite() && x.abs() < 2e5 => json!(((x as f64) * 1e4).round() as i64),
        Some(_) => json!(-2),
    }
}

pub fn worker_handle(req: &Value) -> Value {
    let js = req["json"].as_str().unwrap_or("");
    let m = match catch(std::panic::AssertUnwindSafe(|| Model::from_json(js))) {
        Ok(Ok(m)) => m,
        Ok(Err(e)) => return json!({"ok": false, "err": format!("load: {}", e)}),
        Err(site) => return json!({"ok": false, "err": format!("panic {}", site)}),
    };
    let r = catch(std::panic::AssertUnwindSafe(|| {
        let ind = m.energy_indicators();
        let walls: Vec<Value> = m
            .walls
            .iter()
            .map(|w| {
                let direct = w.u_value(&m);
                let props = ind.props.walls.get(&w.id).and_then(|p| p.u_value);
                json!({"name": w.name, "u": q4(direct), "u_props": q4(props)})
            })
            .collect();
        let wincons: Vec<Value> = m
            .cons
            .wincons
            .iter()
            .map(|c| {
                let p = ind.props.wincons.get(&c.id);
                json!({"name": c.name, "u": q4(c.u_value(&m.cons)), "gwi": q4(c.g_glwi(&m.cons)), "gsh": q4(c.g_glshwi(&m.cons)),
                    "u_props": q4(p.and_then(|x| x.u_value)), "gwi_props": q4(p.map(|x| x.g_glwi)), "gsh_props": q4(p.map(|x| x.g_glshwi))})
            })
            .collect();
        json!({"ok": true, "walls": walls, "wincons": wincons})
    }));
    match r {
        Ok(v) => v,
        Err(site) => json!({"ok": false, "err": format!("panic {}", site)}),
    }
}

pub fn main_uvalue(args: &Args) {
    let out_path = args.get("--out").unwrap_or_else(|| "work/uvalue.ndjson".to_string());
    let mut w = Worker::new("uvalue");
    let mut out: Vec<String> = vec![];
    let mut n = 0;
    for l in read_lines(&args.get("--reqs").unwrap_or_default()) {
        let mut req: Value = match serde_json::from_str(&l) {
            Ok(v) => v,
            Err(_) => continue,
        };
        if req.get("json").is_none() {
            if let Some(p) = req["path"].as_str() {
                req["json"] = json!(std::fs::read_to_string(p).unwrap_or_default());
            }
        }
        n += 1;
        let mut ans = match w.call(&req, std::time::Duration::from_secs(30)) {
            Ok(a) => a,
            Err(kind) => json!({"ok": false, "err": kind}),
        };
        ans["id"] = req["id"].clone();
        out.push(ans.to_string());
    }
    write_lines(&out_path, &out);
    println!("{}", json!({"requests": n, "out": out_path}));
}
