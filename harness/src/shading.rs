//! C12: obstruction factors. Three parts, all judged by Trace_Shading.tla:
//!  (A) exact scenes emitted by TLC (MC_Shading) replayed into Model::sunlit_fraction;
//!  (B) aggregation over the July design-day hours on real and generated models (events `Fsh`);
//!  (C) consequences: nothing can hide -> >= 0.97, hidden at every hour -> diffuse share, no position -> 1,
//!      adding an obstacle never increases any factor (events `Mono`).

use crate::util::*;
use bemodel::climatedata::{ClimateZone, CLIMATEMETADATA, JULYRADDATA};
use bemodel::energy::ray_dir_to_sun;
use bemodel::{BoundaryType, Model, Shade, Wall, WallGeom, WinGeom, Window};
use climate::{nday_from_md, radiation_for_surface, SolarRadiation};
use nalgebra::{point, vector};
use serde_json::{json, Value};

type P3 = [f64; 3];

fn sub(a: P3, b: P3) -> P3 {
    [a[0] - b[0], a[1] - b[1], a[2] - b[2]]
}
fn cross(a: P3, b: P3) -> P3 {
    [a[1] * b[2] - a[2] * b[1], a[2] * b[0] - a[0] * b[2], a[0] * b[1] - a[1] * b[0]]
}
fn norm(a: P3) -> f64 {
    (a[0] * a[0] + a[1] * a[1] + a[2] * a[2]).sqrt()
}

/// WallGeom of a planar polygon given by its global corner points (first corner = position);
/// `flip` reverses the order of the corners (the surface faces the other way)
fn geom_from_corners(corners: &[P3], flip: bool) -> WallGeom {
    let mut c: Vec<P3> = corners.to_vec();
    if flip {
        c.reverse();
    }
    let n = cross(sub(c[1], c[0]), sub(c[c.len() - 1], c[0]));
    let l = norm(n);
    let n = [n[0] / l, n[1] / l, n[2] / l];
    // normal = (sin az sin t, -cos az sin t, cos t)
    let t = n[2].clamp(-1.0, 1.0).acos();
    let az = if t.sin().abs() < 1e-9 { 0.0 } else { n[0].atan2(-n[1]) };
    let (ct, st, ca, sa) = (t.cos(), t.sin(), az.cos(), az.sin());
    let p0 = c[0];
    let poly = c
        .iter()
        .map(|p| {
            let d = sub(*p, p0);
            let (x1, y1) = (d[0] * ca + d[1] * sa, -d[0] * sa + d[1] * ca);
            let (x, y) = (x1, y1 * ct + d[2] * st);
            point![x as f32, y as f32]
        })
        .collect();
    WallGeom {
        tilt: t.to_degrees() as f32,
        azimuth: az.to_degrees() as f32,
        position: Some(point![p0[0] as f32, p0[1] as f32, p0[2] as f32]),
        polygon: poly,
    }
}

/// Outward normal of a posed polygon: Rz(azimuth) Rx(tilt) (0, 0, +-1), the sign being the polygon's winding
fn normal_of(g: &WallGeom) -> nalgebra::Vector3<f32> {
    let n = g.polygon.len();
    let mut a2 = 0.0f64;
    for i in 0..n {
        let (p, q) = (g.polygon[i], g.polygon[(i + 1) % n]);
        a2 += (p.x as f64) * (q.y as f64) - (q.x as f64) * (p.y as f64);
    }
    let sgn = if a2 < 0.0 { -1.0 } else { 1.0 };
    let (t, az) = ((g.tilt as f64).to_radians(), (g.azimuth as f64).to_radians());
    vector![(sgn * az.sin() * t.sin()) as f32, (-sgn * az.cos() * t.sin()) as f32, (sgn * t.cos()) as f32]
}

const U: f64 = 0.05; // metres per scene unit

struct Frame {
    roof: bool,
    c: f64,
    s: f64,
    t: P3,
}
impl Frame {
    /// canonical scene coordinates (units) -> global metres
    fn g(&self, p: P3) -> P3 {
        let p = [p[0] * U, p[1] * U, p[2] * U];
        let p = if self.roof { [p[0], p[2], -p[1]] } else { p };
        [p[0] * self.c - p[1] * self.s + self.t[0], p[0] * self.s + p[1] * self.c + self.t[1], p[2] + self.t[2]]
    }
    fn dir(&self, d: P3) -> P3 {
        let p = if self.roof { [d[0], d[2], -d[1]] } else { d };
        [p[0] * self.c - p[1] * self.s, p[0] * self.s + p[1] * self.c, p[2]]
    }
    fn theta_deg(&self) -> f64 {
        self.s.atan2(self.c).to_degrees()
    }
}

fn num(v: &Value, k: &str) -> f64 {
    v[k].as_f64().unwrap_or(0.0)
}

fn blocker_corners(b: &Value) -> Vec<P3> {
    match b["k"].as_str().unwrap_or("") {
        "front" => {
            let (d, x0, x1, z0, z1) = (num(b, "dist"), num(b, "x0"), num(b, "x1"), num(b, "z0"), num(b, "z1"));
            vec![[x0, -d, z0], [x1, -d, z0], [x1, -d, z1], [x0, -d, z1]]
        }
        "fin" => {
            let (x, d, z0, z1) = (num(b, "x"), num(b, "d"), num(b, "z0"), num(b, "z1"));
            vec![[x, 0.0, z0], [x, -d, z0], [x, -d, z1], [x, 0.0, z1]]
        }
        _ => {
            let (z, d, x0, x1) = (num(b, "z"), num(b, "d"), num(b, "x0"), num(b, "x1"));
            vec![[x0, 0.0, z], [x1, 0.0, z], [x1, -d, z], [x0, -d, z]]
        }
    }
}

fn shade_of(name: &str, geometry: WallGeom) -> Shade {
    Shade { name: name.to_string(), geometry, ..Default::default() }
}
fn wall_of(name: &str, bounds: BoundaryType, geometry: WallGeom) -> Wall {
    Wall { name: name.to_string(), bounds, geometry, ..Default::default() }
}

/// Part A: one exact scene
fn run_scene(case: &Value, idx: usize, rng: &mut Rng) -> Value {
    let sc = &case["sc"];
    let rots: [(f64, f64); 8] = [(1.0, 0.0), (0.0, 1.0), (-1.0, 0.0), (0.0, -1.0), (0.8, 0.6), (-0.6, 0.8), (5.0 / 13.0, -12.0 / 13.0), (-0.28, -0.96)];
    let rot = idx % rots.len();
    let roof = (idx / 1013 + idx / rots.len()) % 2 == 1;
    let fr = Frame { roof, c: rots[rot].0, s: rots[rot].1, t: [rng.range(-20, 20) as f64, rng.range(-20, 20) as f64, rng.range(0, 10) as f64] };
    let mut m = Model::default();
    // the wall's outline may start anywhere in the wall's own coordinates (window offsets are measured from its first
    // corner): in a third of the poses the outline is listed from (2.0, 0.5) and the wall origin moved back accordingly
    let w0 = &sc["win"];
    let shift = (idx / 5) % 3 == 1 || std::env::var("VERIF_SHIFT_ALL").is_ok();
    let _ = w0;
    let (ox, oy) = if shift { (2.0f64, 0.5f64) } else { (0.0, 0.0) };
    let wpos = fr.g([-ox / U, 0.0, -oy / U]);
    // the same outline may carry corners that turn nothing (where a partition meets the facade): in a quarter of the poses
    // the first side is listed with its midpoint, in another quarter the last side
    let mut polygon = vec![point![ox as f32, oy as f32], point![(ox + 80.0 * U) as f32, oy as f32], point![(ox + 80.0 * U) as f32, (oy + 60.0 * U) as f32], point![ox as f32, (oy + 60.0 * U) as f32]];
    let redundant = (idx / 7) % 4;
    if redundant == 1 {
        polygon.insert(1, point![(ox + 40.0 * U) as f32, oy as f32]);
    } else if redundant == 2 {
        polygon.push(point![ox as f32, (oy + 30.0 * U) as f32]);
    } else if redundant == 3 {
        // a gable: the wall is a triangle (large enough to hold the window)
        polygon = vec![point![ox as f32, oy as f32], point![(ox + 160.0 * U) as f32, oy as f32], point![ox as f32, (oy + 120.0 * U) as f32]];
    }
    let wall = wall_of(
        "W",
        if idx % 5 == 4 { BoundaryType::ADIABATIC } else { BoundaryType::EXTERIOR },
        WallGeom {
            tilt: if roof { 0.0 } else { 90.0 },
            azimuth: fr.theta_deg() as f32,
            position: Some(point![wpos[0] as f32, wpos[1] as f32, wpos[2] as f32]),
            polygon,
        },
    );
    let w = &sc["win"];
    let win = Window {
        wall: wall.id,
        name: "V".to_string(),
        geometry: WinGeom { position: Some(point![(num(w, "x") * U) as f32, (num(w, "z") * U) as f32]), width: (num(w, "w") * U) as f32, height: (num(w, "h") * U) as f32, setback: (num(w, "sb") * U) as f32 },
        ..Default::default()
    };
    let wall_id = wall.id;
    m.walls.push(wall);
    // blockers: alternately shades, exterior walls, adiabatic walls; facing either way
    let mut kinds = vec![];
    if let Some(bs) = sc["blockers"].as_array() {
        for (j, b) in bs.iter().enumerate() {
            let corners: Vec<P3> = blocker_corners(b).into_iter().map(|p| fr.g(p)).collect();
            let sel = (idx / 3 + j) % 6;
            let g = geom_from_corners(&corners, sel % 2 == 1);
            match sel / 2 {
                0 => m.shades.push(shade_of(&format!("B{}", j), g)),
                1 => m.walls.push(wall_of(&format!("B{}", j), BoundaryType::EXTERIOR, g)),
                _ => m.walls.push(wall_of(&format!("B{}", j), BoundaryType::ADIABATIC, g)),
            }
            kinds.push(sel);
        }
    }
    // things that never hide anything: an interior and a ground wall right in front of the whole wall, an interior wall
    // with a deeply set-back window (its reveals belong to that window), a second window next to the first one
    let ghost = idx % 2 == 0;
    if ghost {
        let cover: Vec<P3> = [[-40.0, -3.0, -40.0], [120.0, -3.0, -40.0], [120.0, -3.0, 100.0], [-40.0, -3.0, 100.0]].iter().map(|p| fr.g(*p)).collect();
        m.walls.push(wall_of("GI", BoundaryType::INTERIOR, geom_from_corners(&cover, false)));
        let cover2: Vec<P3> = [[-40.0, -5.0, -40.0], [120.0, -5.0, -40.0], [120.0, -5.0, 100.0], [-40.0, -5.0, 100.0]].iter().map(|p| fr.g(*p)).collect();
        let gw = wall_of("GG", BoundaryType::GROUND, geom_from_corners(&cover2, true));
        // a window in the ground-bounded wall, set back: four reveal quads in front of our window that are not ours
        let gwin = Window { wall: gw.id, name: "GV".to_string(), geometry: WinGeom { position: Some(point![2.0, 2.0]), width: 4.0, height: 3.0, setback: 0.1 }, ..Default::default() };
        m.walls.push(gw);
        m.windows.push(gwin);
        // a wall that has no position, with a set-back window that has one: it has no reveals anywhere, and must not take
        // away the reveals of the other windows
        if (idx / 2) % 2 == 0 {
            let mut nw = wall_of("GN", BoundaryType::EXTERIOR, WallGeom { tilt: 90.0, azimuth: 0.0, position: None, polygon: rect(6.0, 3.0) });
            nw.geometry.position = None;
            let nwin = Window { wall: nw.id, name: "GNV".to_string(), geometry: WinGeom { position: Some(point![1.0, 1.0]), width: 1.0, height: 1.0, setback: 0.25 }, ..Default::default() };
            m.walls.push(nw);
            m.windows.push(nwin);
        }
        let other = Window { wall: wall_id, name: "V2".to_string(), geometry: WinGeom { position: Some(point![(62.0 * U) as f32, (5.0 * U) as f32]), width: (10.0 * U) as f32, height: (10.0 * U) as f32, setback: 0.3 }, ..Default::default() };
        m.windows.push(other);
    }
    // far away dummies, to cross the leaf size of the acceleration structure in both directions
    let nfar = [0usize, 1, 27, 28, 29, 30, 31, 45][(idx / 7) % 8];
    for k in 0..nfar {
        let base = [200.0 + 7.0 * k as f64, 400.0 + 3.0 * (k % 5) as f64, 10.0 * (k % 3) as f64];
        let c: Vec<P3> = [[0.0, 0.0, 0.0], [4.0, 0.0, 0.0], [4.0, 0.0, 4.0], [0.0, 0.0, 4.0]].iter().map(|p| fr.g([base[0] + p[0], base[1] + p[1], base[2] + p[2]])).collect();
        m.shades.push(shade_of(&format!("F{}", k), geom_from_corners(&c, k % 2 == 0)));
    }
    m.windows.insert(0, win);
    let dv = &sc["D"];
    let d = fr.dir([dv[0].as_f64().unwrap_or(0.0), dv[1].as_f64().unwrap_or(-1.0), dv[2].as_f64().unwrap_or(0.0)]);
    let dl = norm(d);
    let ray_dir = vector![(d[0] / dl) as f32, (d[1] / dl) as f32, (d[2] / dl) as f32];
    let r = catch(std::panic::AssertUnwindSafe(|| {
        let win = &m.windows[0];
        let origins = m.ray_origins_for_window(win);
        let occ = m.collect_occluders();
        (m.sunlit_fraction(win, &origins, &ray_dir, &occ), origins.len())
    }));
    let (ok, sl, n, panic) = match r {
        Ok((sl, n)) => (true, sl, n, String::new()),
        Err(p) => (false, 0.0, 0, p),
    };
    let x25 = sl as f64 * 25.0;
    json!({"ev": "Scene", "sc": sc, "ok": ok, "panic": panic, "got25": if x25.is_finite() { x25.round() as i64 } else { -1 },
        "exact": x25.is_finite() && (x25 - x25.round()).abs() < 1e-3, "nrays": n, "rot": rot, "roof": roof, "nfar": nfar, "ghost": ghost, "kinds": kinds, "shift": shift, "redundant": redundant})
}

// ------------------------------------------------------------------------------------------------ parts B and C

fn q(v: f64, scale: f64) -> i64 {
    let x = v * scale;
    // -9999 marks a value that is not a number (small enough for 32 bit arithmetic in the trace specification)
    if x.is_finite() && x.abs() < 2.0e7 { x.round() as i64 } else { -9999 }
}

/// Per window: hourly inputs obtained through the public API, and the reported factor
fn fsh_events(m: &Model, model_name: &str, expect: &dyn Fn(&Window) -> &'static str, via_props: bool, out: &mut Vec<Value>) -> Vec<i64> {
    let zone = m.meta.climate;
    let latitude = CLIMATEMETADATA.lock().unwrap_or_else(|e| e.into_inner()).get(&zone).map(|d| d.latitude);
    let rad = JULYRADDATA.lock().unwrap_or_else(|e| e.into_inner()).get(&zone).cloned();
    let reported = catch(std::panic::AssertUnwindSafe(|| m.compute_fshobst()));
    let props = if via_props { catch(std::panic::AssertUnwindSafe(|| m.energy_indicators())).ok() } else { None };
    let mut values = vec![];
    let (reported, panic) = match reported {
        Ok(r) => (r, String::new()),
        Err(p) => (Default::default(), p),
    };
    let occ = catch(std::panic::AssertUnwindSafe(|| m.collect_occluders())).unwrap_or_default();
    for (wi, win) in m.windows.iter().enumerate() {
        let value = reported.get(&win.id).map(|v| q(*v as f64, 100.0)).unwrap_or(-1);
        values.push(value);
        let wall = m.get_wall(win.wall);
        let mut sl = vec![];
        let mut dir = vec![];
        let mut dif = vec![];
        let mut nd = vec![];
        let positioned = wall.map_or(false, |w| w.geometry.position.is_some()) && win.geometry.position.is_some();
        if let (Some(wall), Some(lat), Some(rad)) = (wall, latitude, rad.as_ref()) {
            let origins = m.ray_origins_for_window(win);
            let normal = normal_of(&wall.geometry);
            for d in rad.iter() {
                let ray_dir = ray_dir_to_sun(d.azimuth, d.altitude);
                let r = radiation_for_surface(nday_from_md(d.month, d.day), d.hour, SolarRadiation { dir: d.dir, dif: d.dif }, lat, wall.geometry.tilt, wall.geometry.azimuth, 0.2);
                let s = catch(std::panic::AssertUnwindSafe(|| m.sunlit_fraction(win, &origins, &ray_dir, &occ))).unwrap_or(f32::NAN);
                sl.push(q(s as f64, 1000.0));
                dir.push(q(r.dir as f64, 100.0));
                dif.push(q(r.dif as f64, 100.0));
                nd.push(q(normal.dot(&ray_dir) as f64, 10000.0));
            }
        }
        let pv = props.as_ref().map(|p| p.props.windows.get(&win.id).and_then(|w| w.f_shobst).map(|v| q(v as f64, 100.0)).unwrap_or(-1)).unwrap_or(-2);
        out.push(json!({"ev": "Fsh", "model": model_name, "zone": zone.to_string(), "win": wi, "name": win.name, "haswall": wall.is_some(), "positioned": positioned,
            "n": sl.len(), "sl": sl, "dir": dir, "dif": dif, "nd": nd, "value": value, "props": pv, "expect": expect(win), "panic": panic}));
    }
    values
}

fn rect(w: f64, h: f64) -> Vec<nalgebra::Point2<f32>> {
    vec![point![0.0, 0.0], point![w as f32, 0.0], point![w as f32, h as f32], point![0.0, h as f32]]
}

/// A building over a counter-clockwise footprint: one wall per edge, a flat roof, a ground floor; windows as requested
fn building(rng: &mut Rng, foot: &[(f64, f64)], height: f64, origin: P3, setback: bool, skylight: bool) -> Model {
    let mut m = Model::default();
    let n = foot.len();
    for i in 0..n {
        let (a, b) = (foot[i], foot[(i + 1) % n]);
        let (dx, dy) = (b.0 - a.0, b.1 - a.1);
        let len = (dx * dx + dy * dy).sqrt();
        let wall = wall_of(
            &format!("W{}", i),
            BoundaryType::EXTERIOR,
            WallGeom { tilt: 90.0, azimuth: dy.atan2(dx).to_degrees() as f32, position: Some(point![(origin[0] + a.0) as f32, (origin[1] + a.1) as f32, origin[2] as f32]), polygon: rect(len, height) },
        );
        if len >= 2.0 {
            let ww = 0.5 + rng.range(0, 4) as f64 * 0.25;
            let wx = rng.range(1, ((len - ww - 0.25) * 4.0).max(1.0) as i64) as f64 * 0.25;
            let win = Window {
                wall: wall.id,
                name: format!("V{}", i),
                geometry: WinGeom { position: Some(point![wx as f32, 1.0]), width: ww as f32, height: 1.0, setback: if setback && rng.chance(1, 2) { rng.range(1, 6) as f32 * 0.05 } else { 0.0 } },
                ..Default::default()
            };
            m.windows.push(win);
        }
        m.walls.push(wall);
    }
    let (minx, miny) = foot.iter().fold((f64::MAX, f64::MAX), |acc, p| (acc.0.min(p.0), acc.1.min(p.1)));
    let poly: Vec<_> = foot.iter().map(|p| point![(p.0 - minx) as f32, (p.1 - miny) as f32]).collect();
    let roof = wall_of("ROOF", BoundaryType::EXTERIOR, WallGeom { tilt: 0.0, azimuth: 0.0, position: Some(point![(origin[0] + minx) as f32, (origin[1] + miny) as f32, (origin[2] + height) as f32]), polygon: poly.clone() });
    if skylight {
        // on a rectangular footprint the first corner of the roof polygon is its lower left corner
        m.windows.push(Window { wall: roof.id, name: "VR".to_string(), geometry: WinGeom { position: Some(point![0.5, 0.5]), width: 1.0, height: 1.0, setback: 0.0 }, ..Default::default() });
    }
    m.walls.push(roof);
    let fpoly = poly;
    m.walls.push(wall_of("FLOOR", BoundaryType::GROUND, WallGeom { tilt: 180.0, azimuth: 0.0, position: Some(point![(origin[0] + minx) as f32, (origin[1] + miny) as f32, origin[2] as f32]), polygon: fpoly }));
    m
}

fn rotate_foot(foot: &[(f64, f64)], deg: f64) -> Vec<(f64, f64)> {
    let (s, c) = deg.to_radians().sin_cos();
    foot.iter().map(|p| (p.0 * c - p.1 * s, p.0 * s + p.1 * c)).collect()
}

fn random_shade(rng: &mut Rng, around: P3, spread: f64) -> Shade {
    let w = 0.5 + rng.f64() * 6.0;
    let h = 0.5 + rng.f64() * 6.0;
    shade_of(
        "S",
        WallGeom {
            tilt: *rng.pick(&[0.0f32, 30.0, 60.0, 90.0, 90.0, 90.0, 120.0, 180.0]),
            azimuth: (rng.f64() * 360.0 - 180.0) as f32,
            position: Some(point![(around[0] + (rng.f64() - 0.5) * spread) as f32, (around[1] + (rng.f64() - 0.5) * spread) as f32, (around[2] + rng.f64() * 4.0) as f32]),
            polygon: rect(w, h),
        },
    )
}

/// global position of the centre of a window (None when it has none)
fn window_centre(m: &Model, win: &Window) -> Option<(P3, P3)> {
    let wall = m.get_wall(win.wall)?;
    let pos = win.geometry.position?;
    let tr = wall.geometry.to_global_coords_matrix()?;
    let topoly = wall.geometry.to_polygon_coords_matrix()?;
    let p2 = topoly * point![pos.x + win.geometry.width / 2.0, pos.y + win.geometry.height / 2.0];
    let p = tr * point![p2.x, p2.y, 0.0];
    let n = normal_of(&wall.geometry);
    Some(([p.x as f64, p.y as f64, p.z as f64], [n.x as f64, n.y as f64, n.z as f64]))
}

/// An obstacle that matters: a rectangle a short distance in front of a window, or a random shade nearby
fn extra_obstacle(rng: &mut Rng, m: &Model) -> (Option<Shade>, Option<Wall>, String) {
    let cands: Vec<(P3, P3)> = m.windows.iter().filter_map(|w| window_centre(m, w)).collect();
    if cands.is_empty() {
        return (Some(random_shade(rng, [0.0, 0.0, 0.0], 20.0)), None, "random shade (no window has a position)".to_string());
    }
    let (c, n) = cands[rng.below(cands.len())];
    let mode = rng.below(4);
    if mode == 0 {
        return (Some(random_shade(rng, c, 12.0)), None, "random shade near a window".to_string());
    }
    // rectangle facing the window at distance d, shifted sideways
    let d = 0.3 + rng.f64() * 5.0;
    let horiz = n[2].abs() > 0.9;
    let (ux, uy): (P3, P3) = if horiz { ([1.0, 0.0, 0.0], [0.0, 1.0, 0.0]) } else { ([-n[1], n[0], 0.0], [0.0, 0.0, 1.0]) };
    let lu = norm(ux).max(1e-9);
    let ux = [ux[0] / lu, ux[1] / lu, ux[2] / lu];
    let (w, h) = (0.5 + rng.f64() * 8.0, 0.5 + rng.f64() * 8.0);
    let (ox, oy) = ((rng.f64() - 0.5) * 3.0, (rng.f64() - 0.5) * 3.0);
    let base = [c[0] + n[0] * d, c[1] + n[1] * d, c[2] + n[2] * d];
    let corner = |a: f64, b: f64| [base[0] + ux[0] * (ox + a) + uy[0] * (oy + b), base[1] + ux[1] * (ox + a) + uy[1] * (oy + b), base[2] + ux[2] * (ox + a) + uy[2] * (oy + b)];
    let corners = vec![corner(-w / 2.0, -h / 2.0), corner(w / 2.0, -h / 2.0), corner(w / 2.0, h / 2.0), corner(-w / 2.0, h / 2.0)];
    let g = geom_from_corners(&corners, rng.chance(1, 2));
    if mode == 1 {
        (None, Some(wall_of("XW", if rng.chance(1, 2) { BoundaryType::EXTERIOR } else { BoundaryType::ADIABATIC }, g)), format!("wall {:.1} m in front of a window", d))
    } else {
        (Some(shade_of("XS", g)), None, format!("shade {:.1} m in front of a window", d))
    }
}

fn mono_event(rng: &mut Rng, m: &Model, name: &str, out: &mut Vec<Value>) {
    let before = catch(std::panic::AssertUnwindSafe(|| m.compute_fshobst()));
    let mut m2 = m.clone();
    let (s, w, what) = extra_obstacle(rng, m);
    let added = if let Some(s) = s {
        let j = serde_json::to_value(&s).unwrap_or(Value::Null);
        m2.shades.push(s);
        json!({"shade": j})
    } else if let Some(w) = w {
        let j = serde_json::to_value(&w).unwrap_or(Value::Null);
        m2.walls.push(w);
        json!({"wall": j})
    } else {
        json!({})
    };
    let after = catch(std::panic::AssertUnwindSafe(|| m2.compute_fshobst()));
    let (ok, b, a): (bool, Vec<i64>, Vec<i64>) = match (&before, &after) {
        (Ok(b), Ok(a)) => (true, m.windows.iter().map(|w| b.get(&w.id).map(|v| q(*v as f64, 100.0)).unwrap_or(-1)).collect(), m.windows.iter().map(|w| a.get(&w.id).map(|v| q(*v as f64, 100.0)).unwrap_or(-1)).collect()),
        _ => (false, vec![], vec![]),
    };
    let panic = before.err().or(after.err()).unwrap_or_default();
    out.push(json!({"ev": "Mono", "model": name, "zone": m.meta.climate.to_string(), "what": what, "ok": ok, "panic": panic, "n": b.len(), "before": b, "after": a, "added": added}));
}

fn zones() -> Vec<ClimateZone> {
    let mut z: Vec<ClimateZone> = JULYRADDATA.lock().unwrap_or_else(|e| e.into_inner()).keys().copied().collect();
    z.sort_by_key(|a| a.to_string());
    z
}

pub fn main_shading(args: &Args) {
    install_panic_hook();
    let out_path = args.get("--out").unwrap_or_else(|| "work/shading.ndjson".to_string());
    let stride = args.num("--stride", 1);
    let mut rng = Rng::new(seed_from_env());
    let mut out: Vec<Value> = vec![];
    let mut stats = json!({});
    // (A) exact scenes
    if let Some(cases) = args.get("--cases") {
        let offset = rng.below(stride.max(1));
        let mut n = 0;
        for (i, l) in read_lines(&cases).iter().enumerate() {
            if stride > 1 && i % stride != offset {
                continue;
            }
            if let Ok(v) = serde_json::from_str::<Value>(l) {
                // each scene in `variants` different poses / element kinds / dummy counts
                for k in 0..args.num("--variants", 2) {
                    out.push(run_scene(&v, i + k * 1013, &mut rng));
                    n += 1;
                }
            }
        }
        stats["scenes"] = json!(n);
    }
    if args.flag("--scenes-only") {
        write_lines(&out_path, &out.iter().map(|e| e.to_string()).collect::<Vec<_>>());
        println!("{}", json!({"events": out.len(), "traces": out.len(), "out": out_path}));
        return;
    }
    let zs = zones();
    // (B) real models: every window, plus one random extra obstacle per round
    let rounds = args.num("--obstacles", 1);
    let nzones_real = args.num("--zones-real", 1);
    let mut models: Vec<std::path::PathBuf> = shipped_models();
    if let Some(extra) = args.get("--models") {
        for l in read_lines(&extra) {
            models.push(l.into());
        }
    }
    let mut nreal = 0;
    let mut loaded: Vec<(String, Model)> = vec![];
    for p in models.iter() {
        let text = match std::fs::read_to_string(p) {
            Ok(t) => t,
            Err(_) => continue,
        };
        if let Ok(Ok(m)) = catch(std::panic::AssertUnwindSafe(|| Model::from_json(&text))) {
            loaded.push((p.file_name().map(|s| s.to_string_lossy().to_string()).unwrap_or_default(), m));
        }
    }
    if args.flag("--convert-corpus") {
        // every shipped project that converts, through the real converter
        for (ext, fmt) in [("ctehexml", "ctehexml"), ("cte", "cte")] {
            for p in corpus_files(ext) {
                let text = match std::fs::read(&p) {
                    Ok(b) => String::from_utf8(b.clone()).unwrap_or_else(|_| b.iter().map(|&c| c as char).collect()),
                    Err(_) => continue,
                };
                if let Ok(m) = crate::convert::convert_any(&text, fmt) {
                    loaded.push((format!("converted:{}", p.file_name().map(|s| s.to_string_lossy().to_string()).unwrap_or_default()), m));
                }
            }
        }
    }
    for (name, m) in loaded.iter() {
        let name = name.clone();
        for k in 0..nzones_real {
            let mut mz = m.clone();
            if k > 0 {
                mz.meta.climate = *rng.pick(&zs);
            }
            fsh_events(&mz, &name, &|_| "any", k == 0, &mut out);
            for _ in 0..rounds {
                mono_event(&mut rng, &mz, &name, &mut out);
            }
            nreal += 1;
        }
    }
    stats["real_models"] = json!(nreal);
    // (C) generated models x zones
    let ngen = args.num("--generated", 40);
    for gi in 0..ngen {
        let zone = zs[(gi + rng.below(zs.len())) % zs.len()];
        let kind = gi % 9;
        let turn = if gi % 3 == 0 { (rng.range(0, 23) * 15) as f64 } else { rng.f64() * 360.0 };
        let origin = [rng.range(-30, 30) as f64, rng.range(-30, 30) as f64, rng.range(0, 9) as f64];
        let (bw, bd, bh) = (3.0 + rng.range(0, 12) as f64 * 0.5, 3.0 + rng.range(0, 12) as f64 * 0.5, 2.5 + rng.range(0, 4) as f64 * 0.5);
        let boxfoot = vec![(0.0, 0.0), (bw, 0.0), (bw, bd), (0.0, bd)];
        let name = format!("gen{}-{}", gi, ["single", "box", "boxshade", "lshape", "hidden", "nopos", "tilted", "courtyard", "louvre"][kind]);
        let mut m = match kind {
            0 | 6 => {
                // one wall (any tilt and orientation), one window flush with it: nothing can hide it
                let mut m = Model::default();
                let tilt = if kind == 6 { *rng.pick(&[0.0f32, 15.0, 30.0, 45.0, 60.0, 75.0, 105.0, 120.0, 150.0, 180.0]) } else { 90.0 };
                let wall = wall_of("W", BoundaryType::EXTERIOR, WallGeom { tilt, azimuth: (turn - 180.0) as f32, position: Some(point![origin[0] as f32, origin[1] as f32, origin[2] as f32]), polygon: rect(bw, bh) });
                m.windows.push(Window { wall: wall.id, name: "V".to_string(), geometry: WinGeom { position: Some(point![0.5, 0.5]), width: 1.5, height: 1.0, setback: 0.0 }, ..Default::default() });
                m.walls.push(wall);
                m
            }
            1 => building(&mut rng, &rotate_foot(&boxfoot, turn), bh, origin, false, true),
            2 => {
                let mut m = building(&mut rng, &rotate_foot(&boxfoot, turn), bh, origin, true, true);
                for _ in 0..rng.range(1, 40) {
                    m.shades.push(random_shade(&mut rng, [origin[0] + bw / 2.0, origin[1] + bd / 2.0, origin[2]], 25.0));
                }
                m
            }
            3 | 7 => {
                // non-convex footprints: L shape, U shape (courtyard side): own walls can hide windows
                let foot = if kind == 3 {
                    vec![(0.0, 0.0), (bw + 3.0, 0.0), (bw + 3.0, 3.0), (3.0, 3.0), (3.0, bd + 3.0), (0.0, bd + 3.0)]
                } else {
                    vec![(0.0, 0.0), (9.0, 0.0), (9.0, bd + 3.0), (6.0, bd + 3.0), (6.0, 3.0), (3.0, 3.0), (3.0, bd + 3.0), (0.0, bd + 3.0)]
                };
                {
                    let sb = rng.chance(1, 2);
                    building(&mut rng, &rotate_foot(&foot, turn), bh, origin, sb, false)
                }
            }
            4 => {
                // a window in a tight enclosure: hidden at every hour
                let mut m = Model::default();
                let az = turn - 180.0;
                let wall = wall_of("W", BoundaryType::EXTERIOR, WallGeom { tilt: 90.0, azimuth: az as f32, position: Some(point![origin[0] as f32, origin[1] as f32, origin[2] as f32]), polygon: rect(4.0, 3.0) });
                m.windows.push(Window { wall: wall.id, name: "V".to_string(), geometry: WinGeom { position: Some(point![1.5, 1.0]), width: 1.0, height: 1.0, setback: 0.0 }, ..Default::default() });
                let fr = Frame { roof: false, c: az.to_radians().cos(), s: az.to_radians().sin(), t: origin };
                // canonical units of 5 cm: wall x in 0..80, z in 0..60, outside is y < 0; box around the window, open at the back
                let g = |p: P3| fr.g(p);
                let (x0, x1, z0, z1, y) = (20.0, 60.0, 10.0, 50.0, -8.0);
                let faces: Vec<Vec<P3>> = vec![
                    vec![[x0, y, z0], [x1, y, z0], [x1, y, z1], [x0, y, z1]],
                    vec![[x0, 0.0, z0], [x0, y, z0], [x0, y, z1], [x0, 0.0, z1]],
                    vec![[x1, 0.0, z0], [x1, y, z0], [x1, y, z1], [x1, 0.0, z1]],
                    vec![[x0, 0.0, z1], [x1, 0.0, z1], [x1, y, z1], [x0, y, z1]],
                    vec![[x0, 0.0, z0], [x1, 0.0, z0], [x1, y, z0], [x0, y, z0]],
                ];
                for (k, f) in faces.iter().enumerate() {
                    let c: Vec<P3> = f.iter().map(|p| g(*p)).collect();
                    m.shades.push(shade_of(&format!("E{}", k), geom_from_corners(&c, (gi + k) % 2 == 0)));
                }
                m.walls.push(wall);
                m
            }
            8 => {
                // a brise-soleil of equal slats in front of the first facade: many obstacles whose centres coincide on two axes
                let mut m = building(&mut rng, &rotate_foot(&boxfoot, 0.0), bh, origin, false, false);
                let n = [31usize, 33, 40, 64][rng.below(4)];
                let horizontal = rng.chance(1, 2);
                for k in 0..n {
                    let g = if horizontal {
                        // horizontal slats stacked in height, 20 cm in front of the south facade
                        WallGeom { tilt: 0.0, azimuth: 0.0, position: Some(point![origin[0] as f32, (origin[1] - 0.5) as f32, (origin[2] + 0.1 + 0.075 * k as f64) as f32]), polygon: rect(bw, 0.3) }
                    } else {
                        // vertical fins side by side along the facade, all at the same height and depth
                        WallGeom { tilt: 90.0, azimuth: 90.0, position: Some(point![(origin[0] + 0.05 + (bw - 0.1) * k as f64 / n as f64) as f32, (origin[1] - 0.6) as f32, origin[2] as f32]), polygon: rect(0.4, bh) }
                    };
                    m.shades.push(shade_of(&format!("L{}", k), g));
                }
                m
            }
            _ => {
                // elements without position: the window, or its wall
                let mut m = building(&mut rng, &rotate_foot(&boxfoot, turn), bh, origin, true, false);
                for _ in 0..5 {
                    m.shades.push(random_shade(&mut rng, origin, 10.0));
                }
                let nw = m.windows.len();
                if nw > 0 {
                    m.windows[0].geometry.position = None;
                    m.windows[0].name = "NOPOS".to_string();
                }
                if nw > 2 {
                    // a window whose wall is not in the model
                    m.windows[2].wall = bemodel::Uuid::from_u128(0xdead_beef);
                    m.windows[2].name = "NOPOS".to_string();
                }
                if nw > 1 {
                    let wid = m.windows[1].wall;
                    m.windows[1].name = "NOPOS".to_string();
                    for w in m.walls.iter_mut() {
                        if w.id == wid {
                            w.geometry.position = None;
                        }
                    }
                }
                m
            }
        };
        m.meta.climate = zone;
        // a shade that has no position hides nothing, however large (it is nowhere)
        if gi % 2 == 0 {
            m.shades.push(shade_of("NOWHERE", WallGeom { tilt: 90.0, azimuth: 0.0, position: None, polygon: rect(400.0, 400.0) }));
            m.shades.push(shade_of("NOWHERE2", WallGeom { tilt: 0.0, azimuth: 0.0, position: None, polygon: vec![point![-200.0, -200.0], point![200.0, -200.0], point![200.0, 200.0], point![-200.0, 200.0]] }));
        }
        // far away dummies on some models
        let nfar = [0usize, 0, 29, 31, 60][rng.below(5)];
        if kind != 5 {
            for k in 0..nfar {
                m.shades.push(shade_of(&format!("F{}", k), WallGeom { tilt: 90.0, azimuth: 10.0 * k as f32, position: Some(point![5000.0 + 20.0 * k as f32, -7000.0, 0.0]), polygon: rect(2.0, 2.0) }));
            }
        }
        let expect: Box<dyn Fn(&Window) -> &'static str> = match kind {
            0 | 1 | 6 => Box::new(|_| "free"),
            4 => Box::new(|_| "hidden"),
            5 => Box::new(|w: &Window| if w.name == "NOPOS" { "nopos" } else { "any" }),
            _ => Box::new(|_| "any"),
        };
        if let Some(dir) = args.get("--dump-only") {
            // models for the session recorder (computed there in supervised workers)
            let _ = std::fs::create_dir_all(&dir);
            let _ = std::fs::write(format!("{}/shading_{}.json", dir, name), m.as_json().unwrap_or_default());
            continue;
        }
        if kind == 8 && !args.flag("--with-louvres") {
            continue;           // computed by the session recorder, which can tell a hang from a slow model
        }
        fsh_events(&m, &name, &*expect, false, &mut out);
        for _ in 0..rounds {
            mono_event(&mut rng, &m, &name, &mut out);
        }
        if args.flag("--dump-models") {
            let _ = std::fs::write(format!("work/shading_{}.json", name), m.as_json().unwrap_or_default());
        }
    }
    stats["generated"] = json!(ngen);
    let lines: Vec<String> = out.iter().map(|v| v.to_string()).collect();
    write_lines(&out_path, &lines);
    stats["events"] = json!(lines.len());
    stats["out"] = json!(out_path);
    println!("{}", stats);
}
