//! C05: determinism, reproducibility, history independence, id stability, reference pairs, lock protocol.

use crate::util::*;
use bemodel::Model;
use serde_json::{json, Value};
use std::path::{Path, PathBuf};
use std::process::Command;

fn md5hex(s: &str) -> String {
    format!("{:x}", md5::compute(s.as_bytes()))
}

fn convert_dir(dir: &Path) -> Result<Model, String> {
    let r = catch(std::panic::AssertUnwindSafe(|| hulc2model::collect_hulc_data(dir.to_string_lossy(), false, false).map_err(|e| e.to_string())));
    match r {
        Ok(x) => x,
        Err(site) => Err(format!("panic {}", site)),
    }
}

fn convert_text(text: &str) -> Result<Model, String> {
    let r = catch(std::panic::AssertUnwindSafe(|| -> Result<Model, String> {
        let d = hulc::ctehexml::parse_with_catalog(text).map_err(|e| e.to_string())?;
        Model::try_from(&d).map_err(|e| e.to_string())
    }));
    match r {
        Ok(x) => x,
        Err(site) => Err(format!("panic {}", site)),
    }
}

/// canonical digest of the indicators (object keys sorted: QSolJulData.detail is a HashMap)
fn indicators_digest(m: &Model) -> Result<String, String> {
    let r = catch(std::panic::AssertUnwindSafe(|| m.energy_indicators()));
    match r {
        Ok(ind) => {
            let v = serde_json::to_value(&ind).map_err(|e| e.to_string())?;
            Ok(md5hex(&v.to_string()))
        }
        Err(site) => Err(format!("panic {}", site)),
    }
}

fn result_event(kind: &str, input: &str, mode: &str, r: Result<String, String>) -> Value {
    match r {
        Ok(d) => json!({"ev": "Result", "kind": kind, "input": input, "mode": mode, "ok": true, "digest": d}),
        Err(e) => json!({"ev": "Result", "kind": kind, "input": input, "mode": mode, "ok": false, "digest": "", "err": e.chars().take(200).collect::<String>()}),
    }
}

fn id_map(m: &Model) -> Vec<Value> {
    let mut v: Vec<(String, String)> = vec![];
    for s in &m.spaces { v.push((format!("space:{}", s.name), s.id.to_string())); }
    for s in &m.walls { v.push((format!("wall:{}", s.name), s.id.to_string())); }
    for s in &m.windows { v.push((format!("window:{}", s.name), s.id.to_string())); }
    for s in &m.cons.wallcons { v.push((format!("wallcons:{}", s.name), s.id.to_string())); }
    for s in &m.cons.wincons { v.push((format!("wincons:{}", s.name), s.id.to_string())); }
    for s in &m.cons.materials { v.push((format!("material:{}", s.name), s.id.to_string())); }
    for s in &m.cons.glasses { v.push((format!("glass:{}", s.name), s.id.to_string())); }
    for s in &m.cons.frames { v.push((format!("frame:{}", s.name), s.id.to_string())); }
    for s in &m.schedules.year { v.push((format!("year:{}", s.name), s.id.to_string())); }
    for s in &m.schedules.week { v.push((format!("week:{}", s.name), s.id.to_string())); }
    for s in &m.schedules.day { v.push((format!("day:{}", s.name), s.id.to_string())); }
    for s in &m.loads { v.push((format!("loads:{}", s.name), s.id.to_string())); }
    for s in &m.thermostats { v.push((format!("therm:{}", s.name), s.id.to_string())); }
    for s in &m.shades { v.push((format!("shade:{}", s.name), s.id.to_string())); }
    for s in &m.thermal_bridges { v.push((format!("tb:{}", s.name), s.id.to_string())); }
    // names repeated inside a collection cannot be told apart by name: keep the first
    let mut seen = std::collections::HashSet::new();
    v.into_iter().filter(|(n, _)| seen.insert(n.clone())).map(|(n, i)| json!([n, i])).collect()
}

/// BDL definitions nothing refers to, inserted at the end of the BDL section
const UNRELATED: [(&str, &str); 3] = [
    ("plus_material", "\n\"VERIF_UNUSED_MAT\" = MATERIAL\n  TYPE = PROPERTIES\n  THICKNESS = 0.1\n  CONDUCTIVITY = 0.5\n  DENSITY = 1000\n  SPECIFIC-HEAT = 1000\n  ..\n"),
    ("plus_schedule", "\n\"VERIF_UNUSED_DAY\" = DAY-SCHEDULE-PD\n  TYPE  = FRACTION\n  VALUES  = ( 0.5)\n  ..\n"),
    ("plus_polygon", "\n\"VERIF_UNUSED_POLY\" = POLYGON\n  V1 = ( 0, 0 )\n  V2 = ( 1, 0 )\n  V3 = ( 1, 1 )\n  ..\n"),
];

fn with_unrelated(text: &str, snippet: &str) -> Option<String> {
    let end = text.find("</EntradaGraficaLIDER>")?;
    let mut s = String::with_capacity(text.len() + snippet.len());
    s.push_str(&text[..end]);
    s.push_str(snippet);
    s.push_str(&text[end..]);
    Some(s)
}

pub fn main_one(args: &Args) {
    // fresh-process helper: prints one JSON line with the digest
    install_panic_hook();
    let r = if let Some(dir) = args.get("--dir") {
        convert_dir(Path::new(&dir)).and_then(|m| m.as_json().map_err(|e| e.to_string())).map(|s| md5hex(&s))
    } else {
        let p = args.get("--model").unwrap_or_default();
        std::fs::read_to_string(&p).map_err(|e| e.to_string()).and_then(|s| Model::from_json(&s).map_err(|e| e.to_string())).and_then(|m| indicators_digest(&m))
    };
    println!("@@D {}", match r { Ok(d) => json!({"ok": true, "digest": d}), Err(e) => json!({"ok": false, "err": e}) });
}

fn fresh(arg: &str, val: &str) -> Result<String, String> {
    let exe = std::env::current_exe().map_err(|e| e.to_string())?;
    let o = Command::new(exe).arg("locks-one").arg(arg).arg(val).env("RUST_BACKTRACE", "0").output().map_err(|e| e.to_string())?;
    let out = String::from_utf8_lossy(&o.stdout);
    for l in out.lines() {
        if let Some(rest) = l.strip_prefix("@@D ") {
            let v: Value = serde_json::from_str(rest).map_err(|e| e.to_string())?;
            return if v["ok"] == true { Ok(v["digest"].as_str().unwrap_or("").to_string()) } else { Err(v["err"].as_str().unwrap_or("").to_string()) };
        }
    }
    Err("fresh process gave no answer".to_string())
}

pub fn main_locks(args: &Args) {
    install_panic_hook();
    let seed = seed_from_env();
    let out_path = args.get("--out").unwrap_or_else(|| "work/locks.ndjson".to_string());
    let nthreads = args.num("--threads", 16);
    let rounds = args.num("--rounds", 2);
    let maxproj = args.num("--max-projects", 12);
    let mut rng = Rng::new(seed);
    let mut out: Vec<Value> = vec![];

    // ---- conversions -------------------------------------------------------------
    let mut dirs = crate::clicheck::project_dirs();
    dirs.truncate(maxproj);
    if let Some(extra) = args.get("--extra-dirs") {
        let mut more: Vec<std::path::PathBuf> = std::fs::read_dir(&extra).map(|rd| rd.filter_map(|e| e.ok()).map(|e| e.path()).filter(|p| p.is_dir()).collect()).unwrap_or_default();
        more.sort();
        dirs.extend(more);
    }
    for d in &dirs {
        let name = d.file_name().unwrap().to_string_lossy().to_string();
        for mode in ["first", "repeat"] {
            out.push(result_event("convert", &name, mode, convert_dir(d).and_then(|m| m.as_json().map_err(|e| e.to_string())).map(|s| md5hex(&s))));
        }
        out.push(result_event("convert", &name, "fresh_process", fresh("--dir", &d.to_string_lossy())));
    }
    // concurrently on threads
    {
        let dirs2: Vec<PathBuf> = dirs.clone();
        let handles: Vec<_> = (0..nthreads)
            .map(|t| {
                let dirs3 = dirs2.clone();
                std::thread::spawn(move || {
                    let mut res = vec![];
                    for k in 0..dirs3.len().min(4) {
                        let d = &dirs3[(t * 5 + k * 3) % dirs3.len()];
                        let name = d.file_name().unwrap().to_string_lossy().to_string();
                        res.push(result_event("convert", &name, "threads", convert_dir(d).and_then(|m| m.as_json().map_err(|e| e.to_string())).map(|s| md5hex(&s))));
                    }
                    res
                })
            })
            .collect();
        for h in handles {
            if let Ok(r) = h.join() {
                out.extend(r);
            }
        }
    }
    // ---- id stability --------------------------------------------------------------
    // (projects written for this purpose come on top: buildings whose walls carry several windows, with and without devices)
    let idmap_dirs: Vec<PathBuf> = args.get("--idmap-dirs").map(|d| {
        let mut v: Vec<PathBuf> = std::fs::read_dir(&d).map(|rd| rd.filter_map(|e| e.ok()).map(|e| e.path()).filter(|p| p.is_dir()).collect()).unwrap_or_default();
        v.sort();
        v
    }).unwrap_or_default();
    for d in dirs.iter().take(if maxproj < 12 { 3 } else { 12 }).chain(idmap_dirs.iter()) {
        let name = d.file_name().unwrap().to_string_lossy().to_string();
        let file = std::fs::read_dir(d).ok().and_then(|rd| rd.filter_map(|e| e.ok()).map(|e| e.path()).find(|p| p.extension().map_or(false, |x| x == "ctehexml")));
        if let Some(text) = file.and_then(|f| hulc_read(&f)) {
            if let Ok(m) = convert_text(&text) {
                out.push(json!({"ev": "IdMap", "input": name, "variant": "base", "ids": id_map(&m)}));
                // unused definitions that refer to existing ones: a construction over an existing layer set with another
                // absorptance, a window construction over an existing glazing and frame, a week over an existing day
                let first_named = |btype: &str| -> Option<String> {
                    text.lines().find_map(|l| {
                        let t = l.trim();
                        if t.starts_with('"') && t.ends_with(btype) && t[..t.len() - btype.len()].trim_end().ends_with('=') {
                            t[1..].find('"').map(|e| t[1..1 + e].to_string())
                        } else {
                            None
                        }
                    })
                };
                let mut dynamic: Vec<(String, String)> = vec![];
                if let Some(l) = first_named("LAYERS") {
                    dynamic.push(("plus_construction".into(), format!("\n\"{}0.95\" = CONSTRUCTION\n  TYPE = LAYERS\n  LAYERS = \"{}\"\n  ABSORPTANCE = 0.95\n  ..\n", l, l)));
                    dynamic.push(("plus_construction_z".into(), format!("\n\"ZZZ_VERIF_CONS\" = CONSTRUCTION\n  TYPE = LAYERS\n  LAYERS = \"{}\"\n  ABSORPTANCE = 0.15\n  ..\n", l)));
                }
                if let (Some(g), Some(f)) = (first_named("GLASS-TYPE"), first_named("NAME-FRAME")) {
                    dynamic.push(("plus_gap".into(), format!("\n\"ZZZ_VERIF_GAP\" = GAP\n  NAME = \"ZZZ_VERIF_GAP\"\n  TYPE = 1\n  GROUP = \"Usuario\"\n  GROUP-GLASS = \"Vidrios\"\n  GLASS-TYPE = \"{}\"\n  GROUP-FRAME = \"Marcos\"\n  NAME-FRAME = \"{}\"\n  PORCENTAGE = 33\n  INF-COEF = 9\n  porcentajeIncrementoU = 7\n  ..\n", g, f)));
                }
                // a new window with an overhang, first window of the first exterior wall of the file: an addition that leaves
                // every other element as it was
                if let Some(g) = first_named("GAP") {
                    let lines: Vec<&str> = text.lines().collect();
                    if let Some(i0) = lines.iter().position(|l| { let t = l.trim(); t.starts_with('"') && t.ends_with("EXTERIOR-WALL") }) {
                        if let Some(k) = lines[i0..].iter().position(|l| l.trim() == "..") {
                            let at = i0 + k + 1;
                            let win = format!("\"ZZZ_VERIF_WINDOW\" = WINDOW\n  X = 0.1\n  Y = 0.2\n  SETBACK = 0\n  HEIGHT = 0.5\n  WIDTH = 0.4\n  GAP = \"{}\"\n  OVERHANG-A = 0.1\n  OVERHANG-B = 0.1\n  OVERHANG-W = 0.6\n  OVERHANG-D = 0.3\n  OVERHANG-ANGLE = 90\n  ..", g);
                            let mut l2: Vec<String> = lines.iter().map(|x| x.to_string()).collect();
                            l2.insert(at, win);
                            match convert_text(&l2.join("\n")) {
                                Ok(m2) => out.push(json!({"ev": "IdMap", "input": name, "variant": "plus_window", "ids": id_map(&m2)})),
                                Err(e) => out.push(json!({"ev": "IdMap", "input": name, "variant": "plus_window", "ids": [], "err": e})),
                            }
                        }
                    }
                }
                if let Some(d) = first_named("DAY-SCHEDULE-PD") {
                    dynamic.push(("plus_week".into(), format!("\n\"ZZZ_VERIF_WEEK\" = WEEK-SCHEDULE-PD\n  TYPE = FRACTION\n  DAY-SCHEDULES = ( \"{}\" )\n  ..\n", d)));
                }
                let all: Vec<(String, String)> = UNRELATED.iter().map(|(a, b)| (a.to_string(), b.to_string())).chain(dynamic.into_iter()).collect();
                for (variant, snippet) in all.iter() {
                    if let Some(t2) = with_unrelated(&text, snippet) {
                        match convert_text(&t2) {
                            Ok(m2) => out.push(json!({"ev": "IdMap", "input": name, "variant": variant, "ids": id_map(&m2)})),
                            Err(e) => out.push(json!({"ev": "IdMap", "input": name, "variant": variant, "ids": [], "err": e})),
                        }
                    }
                }
            }
        }
    }
    // ---- reference pairs -----------------------------------------------------------
    let pairs = [("cubo", "cubo.json"), ("e4h_medianeras", "e4h_medianeras.json"), ("casoA", "caso_a.json"),
        ("ejemploviv_unif", "ejemploviv_unif.json"), ("ejemplo_gt_aerotermia", "ejemplo_gt_aerotermia.json"),
        ("cubo_gt_caldera_radiadores", "cubo_gt_caldera_radiadores.json")];
    for (proj, refname) in pairs {
        let dir = repo().join("hulc_tests/tests").join(proj);
        let reff = repo().join("bemodel/tests/data").join(refname);
        // the references were written by `thor FILE -o`: parse with catalogue + Model::try_from
        let file = std::fs::read_dir(&dir).ok().and_then(|rd| rd.filter_map(|e| e.ok()).map(|e| e.path()).find(|p| p.extension().map_or(false, |x| x == "ctehexml")));
        let got = match file {
            Some(f) => {
                let r = catch(std::panic::AssertUnwindSafe(|| -> Result<String, String> {
                    let d = hulc::ctehexml::parse_with_catalog_from_path(&f).map_err(|e| e.to_string())?;
                    Model::try_from(&d).map_err(|e| e.to_string())?.as_json().map_err(|e| e.to_string())
                }));
                match r { Ok(x) => x, Err(site) => Err(format!("panic {}", site)) }
            }
            None => Err("no project file".to_string()),
        };
        let want = std::fs::read_to_string(&reff).map_err(|e| e.to_string());
        let (veq, teq) = match (&got, &want) {
            (Ok(g), Ok(w)) => {
                let gv: Result<Value, _> = serde_json::from_str(g);
                let wv: Result<Value, _> = serde_json::from_str(w);
                (matches!((&gv, &wv), (Ok(a), Ok(b)) if a == b), g.trim() == w.trim())
            }
            _ => (false, false),
        };
        out.push(json!({"ev": "Reference", "pair": proj, "value_equal": veq, "text_equal": teq}));
    }
    // ---- indicators: alone, after one another, concurrently ------------------------------
    let mut models: Vec<(String, Model)> = vec![];
    for p in shipped_models() {
        if let Ok(m) = std::fs::read_to_string(&p).map_err(|e| e.to_string()).and_then(|s| Model::from_json(&s).map_err(|e| e.to_string())) {
            let name = p.file_name().unwrap().to_string_lossy().to_string();
            out.push(result_event("indicators", &name, "fresh_process", fresh("--model", &p.to_string_lossy())));
            models.push((name, m));
        }
    }
    // generated models share small ids (schedules, constructions) but differ in content: anything memoised by id
    // across computations shows up as a difference between the fresh-process result and the in-process ones
    let scratch = args.get("--scratch").unwrap_or_else(|| "work".to_string());
    for i in 0..args.num("--generated", 6) {
        let a = crate::session::random_abstract(&mut rng, 4, i % 3 == 2);
        let m = crate::absmodel::concretize(&a);
        let name = format!("gen{}", i);
        if let Ok(js) = m.as_json() {
            let p = std::path::Path::new(&scratch).join(format!("c05_{}.json", name));
            if std::fs::write(&p, js).is_ok() {
                out.push(result_event("indicators", &name, "fresh_process", fresh("--model", &p.to_string_lossy())));
                let _ = std::fs::remove_file(&p);
            }
        }
        models.push((name, m));
    }
    bemodel::verif_trace::take();
    bemodel::verif_trace::enable(true);
    // every ordered pair (A computed before B)
    for (na, ma) in &models {
        for (nb, mb) in &models {
            let _ = indicators_digest(ma);
            out.push(result_event("indicators", nb, &format!("after:{}", na), indicators_digest(mb)));
        }
    }
    let lock_events_seq: Vec<Value> = bemodel::verif_trace::take().iter().filter_map(|l| serde_json::from_str(l).ok()).collect();
    // concurrently
    let shared = std::sync::Arc::new(models);
    let handles: Vec<_> = (0..nthreads)
        .map(|t| {
            let ms = shared.clone();
            std::thread::spawn(move || {
                let mut res = vec![];
                for k in 0..rounds * ms.len() {
                    let (n, m) = &ms[(t * 7 + k * 5) % ms.len()];
                    res.push(result_event("indicators", n, "threads", indicators_digest(m)));
                }
                res
            })
        })
        .collect();
    for h in handles {
        if let Ok(r) = h.join() {
            out.extend(r);
        }
    }
    bemodel::verif_trace::enable(false);
    let mut lock_events: Vec<Value> = lock_events_seq;
    lock_events.extend(bemodel::verif_trace::take().iter().filter_map(|l| serde_json::from_str::<Value>(l).ok()));
    lock_events.retain(|e| e["ev"].as_str().map_or(false, |s| ["Request", "Done", "Acquire", "Release"].contains(&s)));
    lock_events.sort_by_key(|e| e["seq"].as_u64().unwrap_or(0));
    // a computation that finds one of the process-wide tables busy waits for it: while this thread holds a table (as a
    // concurrent computation does for a moment), another thread computes; the result must be the solitary one
    {
        use bemodel::climatedata::{CLIMATEMETADATA, JULYRADDATA, MONTHLYRADDATA};
        for table in ["CLIMATEMETADATA", "JULYRADDATA", "MONTHLYRADDATA"] {
            for k in 0..shared.len().min(3) {
                let ms = shared.clone();
                let (tx, rx) = std::sync::mpsc::channel();
                let h = {
                    let g1 = if table == "CLIMATEMETADATA" { Some(CLIMATEMETADATA.lock().unwrap_or_else(|e| e.into_inner())) } else { None };
                    let g2 = if table == "JULYRADDATA" { Some(JULYRADDATA.lock().unwrap_or_else(|e| e.into_inner())) } else { None };
                    let g3 = if table == "MONTHLYRADDATA" { Some(MONTHLYRADDATA.lock().unwrap_or_else(|e| e.into_inner())) } else { None };
                    let h = std::thread::spawn(move || {
                        let (n, m) = &ms[k];
                        let _ = tx.send(result_event("indicators", n, &format!("while {} is held by another thread", table), indicators_digest(m)));
                    });
                    std::thread::sleep(std::time::Duration::from_millis(120));
                    drop(g1);
                    drop(g2);
                    drop(g3);
                    h
                };
                let _ = h.join();
                if let Ok(e) = rx.recv_timeout(std::time::Duration::from_secs(60)) {
                    out.push(e);
                }
            }
        }
    }
    let nlock = lock_events.len();
    out.extend(lock_events);
    write_lines(&out_path, &out.iter().map(|e| e.to_string()).collect::<Vec<_>>());
    println!("{}", json!({"events": out.len(), "lock_events": nlock, "traces": out.len() - nlock, "out": out_path}));
}

fn hulc_read(p: &Path) -> Option<String> {
    // .ctehexml files are latin1 or utf8; the library's reader is private, so decode leniently
    let bytes = std::fs::read(p).ok()?;
    match String::from_utf8(bytes.clone()) {
        Ok(s) => Some(s),
        Err(_) => Some(bytes.iter().map(|b| *b as char).collect()),
    }
}
