//! C20: calendar, sun geometry on rational angles, radiation identities, embedded tables.

use crate::absmodel::orient_name;
use crate::util::*;
use bemodel::climatedata::{ClimateZone, CLIMATEMETADATA, JULYRADDATA, MONTHLYRADDATA};
use climate::solar::{angle_sol_surf, sun_position, Location};
use climate::{nday_from_md, nday_from_ymd, radiation_for_surface, SolarRadiation};
use serde_json::{json, Value};

fn deg(a: &(i64, i64, i64)) -> f32 {
    (a.1 as f64).atan2(a.0 as f64).to_degrees() as f32
}
fn tj(a: &(i64, i64, i64)) -> Value {
    json!([a.0, a.1, a.2])
}
fn q1(v: f32, scale: f64) -> i64 {
    let x = (v as f64) * scale;
    if x.is_finite() { x.round() as i64 } else { -999_999_999 }
}

pub fn main_solar(args: &Args) {
    install_panic_hook();
    let out_path = args.get("--out").unwrap_or_else(|| "work/solar.ndjson".to_string());
    let quick = !args.flag("--full");
    let mut out: Vec<Value> = vec![];
    // (1) calendar
    let ml = [31u32, 28, 31, 30, 31, 30, 31, 31, 30, 31, 30, 31];
    for m in 1..=12u32 {
        for d in 1..=ml[(m - 1) as usize] {
            let md = catch(move || nday_from_md(m, d)).map(|x| x as i64).unwrap_or(-1);
            let ymd = catch(move || nday_from_ymd(2001, m, d)).map(|x| x as i64).unwrap_or(-1);
            out.push(json!({"ev": "Nday", "m": m, "d": d, "md": md, "ymd": ymd}));
        }
    }
    // (2) tables
    let zones: Vec<ClimateZone> = {
        let meta = CLIMATEMETADATA.lock().unwrap();
        let mut z: Vec<ClimateZone> = meta.keys().copied().collect();
        let monthly = MONTHLYRADDATA.lock().unwrap();
        for e in monthly.iter() {
            if !z.contains(&e.zone) {
                z.push(e.zone);
            }
        }
        for k in JULYRADDATA.lock().unwrap().keys() {
            if !z.contains(k) {
                z.push(*k);
            }
        }
        z.sort_by_key(|a| a.to_string());
        z
    };
    // every zone name the climate crate knows must be there
    for name in climate::CTE_CLIMATEZONES.iter() {
        let z = ClimateZone::try_from(*name);
        let (nmeta, july, monthly, roundtrip) = match z {
            Ok(zone) => {
                let nmeta = if CLIMATEMETADATA.lock().unwrap().contains_key(&zone) { 1 } else { 0 };
                let july = JULYRADDATA.lock().unwrap().get(&zone).cloned().unwrap_or_default();
                let monthly: Vec<Value> = MONTHLYRADDATA.lock().unwrap().iter().filter(|e| e.zone == zone)
                    .map(|e| json!({"o": orient_name(e.orientation), "n": e.dir.len().min(e.dif.len()),
                        "min": q1(e.dir.iter().chain(e.dif.iter()).cloned().fold(f32::INFINITY, f32::min), 100.0)})).collect();
                (nmeta, july, monthly, zone.to_string() == *name)
            }
            Err(_) => (0, vec![], vec![], false),
        };
        out.push(json!({"ev": "Zone", "zone": name, "nmeta": nmeta, "roundtrip": roundtrip,
            "julyhours": july.iter().map(|d| q1(d.hour, 10.0)).collect::<Vec<_>>(),
            "julyalt": july.iter().map(|d| q1(d.altitude, 100.0)).collect::<Vec<_>>(),
            "julydir": july.iter().map(|d| q1(d.dir, 10.0)).collect::<Vec<_>>(),
            "julydif": july.iter().map(|d| q1(d.dif, 10.0)).collect::<Vec<_>>(),
            "monthly": monthly}));
    }
    let _ = zones;
    // (3) sun direction and incidence on rational angles
    let decls = [(1i64, 0i64, 1i64), (12, 5, 13), (12, -5, 13)];
    let lats = [(1i64, 0i64, 1i64), (4, 3, 5), (3, 4, 5), (12, 5, 13), (4, -3, 5)];
    let hours = [(1i64, 0i64, 1i64), (4, 3, 5), (3, 4, 5), (4, -3, 5), (3, -4, 5), (0, 1, 1), (0, -1, 1), (12, 5, 13), (5, 12, 13), (12, -5, 13), (5, -12, 13),
        (-3, 4, 5), (-3, -4, 5), (-4, 3, 5), (-5, 12, 13), (-5, -12, 13), (-12, 5, 13)];
    let tilts = [(1i64, 0i64, 1i64), (0, 1, 1), (-1, 0, 1), (4, 3, 5), (3, 4, 5), (-4, 3, 5), (-3, 4, 5)];
    let azs = [(1i64, 0i64, 1i64), (0, 1, 1), (-1, 0, 1), (0, -1, 1), (4, 3, 5), (3, 4, 5), (4, -3, 5), (-3, 4, 5), (-4, -3, 5)];
    for d in &decls {
        for p in &lats {
            for w in &hours {
                let loc = Location { latitude: deg(p), longitude: 0.0, ..Default::default() };
                let (dd, ww) = (deg(d), deg(w));
                let sp = catch(move || sun_position(dd, ww, loc));
                match sp {
                    Ok(sp) => {
                        let v = bemodel::energy::ray_dir_to_sun(sp.azimuth, sp.altitude);
                        out.push(json!({"ev": "SunVec", "decl": tj(d), "hour": tj(w), "lat": tj(p), "got": [q1(v.x, 1e4), q1(v.y, 1e4), q1(v.z, 1e4)],
                            "alt": q1(sp.altitude, 100.0), "az": q1(sp.azimuth, 100.0)}));
                    }
                    Err(site) => out.push(json!({"ev": "SunVec", "decl": tj(d), "hour": tj(w), "lat": tj(p), "got": [0, 0, 0], "alt": 0, "az": 0, "panic": site})),
                }
                let sp_for_front = {
                    let loc2 = Location { latitude: deg(p), longitude: 0.0, ..Default::default() };
                    let (dd, ww) = (deg(d), deg(w));
                    catch(move || sun_position(dd, ww, loc2)).ok().map(|sp| bemodel::energy::ray_dir_to_sun(sp.azimuth, sp.altitude))
                };
                if quick && (w.2 == 13) {
                    continue;
                }
                for t in &tilts {
                    for a in &azs {
                        let ang = angle_sol_surf(deg(d), deg(w), deg(p), deg(t), deg(a));
                        // the outward normal of a surface of the model with this tilt and azimuth, observed where the model uses it:
                        // a window in such a wall, nothing around, is sunlit exactly when the sun is in front of the wall
                        let front: i64 = match &sp_for_front {
                            Some(dir) => {
                                use bemodel::{BoundaryType, Model, Wall, WallGeom, WinGeom, Window};
                                let mut m = Model::default();
                                let wall = Wall { name: "W".into(), bounds: BoundaryType::EXTERIOR,
                                    geometry: WallGeom { tilt: deg(t), azimuth: deg(a), position: Some(nalgebra::point![0.0, 0.0, 0.0]),
                                        polygon: vec![nalgebra::point![0.0, 0.0], nalgebra::point![4.0, 0.0], nalgebra::point![4.0, 3.0], nalgebra::point![0.0, 3.0]] }, ..Default::default() };
                                let win = Window { name: "V".into(), wall: wall.id, geometry: WinGeom { position: Some(nalgebra::point![1.0, 1.0]), width: 1.0, height: 1.0, setback: 0.0 }, ..Default::default() };
                                m.walls.push(wall);
                                m.windows.push(win);
                                let dir = *dir;
                                catch(std::panic::AssertUnwindSafe(move || {
                                    let win = &m.windows[0];
                                    let origins = m.ray_origins_for_window(win);
                                    let occ = m.collect_occluders();
                                    m.sunlit_fraction(win, &origins, &dir, &occ)
                                })).map(|s| if s > 0.5 { 1 } else { 0 }).unwrap_or(-2)
                            }
                            None => -1,
                        };
                        out.push(json!({"ev": "Incidence", "decl": tj(d), "hour": tj(w), "lat": tj(p), "tilt": tj(t), "az": tj(a),
                            "gotcos": q1(ang.to_radians().cos(), 1e4), "front": front}));
                    }
                }
            }
        }
    }
    // (4) radiation identities over the shipped weather file, day by day
    let metpath = repo().join("climate/src/zonaD3.met");
    if let Ok(met) = climate::met::parse_from_path(&metpath) {
        let lat = met.meta.latitude;
        let mut day: Vec<&climate::met::HourlyData> = vec![];
        let mut flush = |day: &mut Vec<&climate::met::HourlyData>, out: &mut Vec<Value>| {
            if day.is_empty() {
                return;
            }
            let (mut hin, mut hout, mut down, mut alt, mut minbeam) = (vec![], vec![], vec![], vec![], vec![]);
            for d in day.iter() {
                let nday = nday_from_ymd(2001, d.month, d.day);
                let g = SolarRadiation { dir: d.rdirhor, dif: d.rdifhor };
                let h = radiation_for_surface(nday, d.hour, g, lat, 0.0, 0.0, 0.2);
                let dn = radiation_for_surface(nday, d.hour, SolarRadiation { dir: d.rdirhor, dif: d.rdifhor }, lat, 180.0, 0.0, 0.2);
                let mut mb = h.dir;
                for (tilt, az, _) in climate::ORIENTATIONS.iter() {
                    let r = radiation_for_surface(nday, d.hour, SolarRadiation { dir: d.rdirhor, dif: d.rdifhor }, lat, *tilt, *az, 0.2);
                    mb = mb.min(r.dir);
                }
                hin.push(q1(d.rdirhor + d.rdifhor, 10.0));
                hout.push(q1(h.dir + h.dif, 10.0));
                down.push(q1(dn.dir + dn.dif, 10.0));
                alt.push(q1(90.0 - d.zenith, 100.0));
                minbeam.push(q1(mb, 10.0));
            }
            out.push(json!({"ev": "RadDay", "month": day[0].month, "day": day[0].day, "hin": hin, "hout": hout, "down": down, "alt": alt, "minbeam": minbeam}));
            day.clear();
        };
        let mut cur = (0u32, 0u32);
        for d in &met.data {
            if (d.month, d.day) != cur {
                flush(&mut day, &mut out);
                cur = (d.month, d.day);
            }
            day.push(d);
        }
        flush(&mut day, &mut out);
        // (5) table = model for D3
        let monthly = MONTHLYRADDATA.lock().unwrap();
        for e in monthly.iter().filter(|e| e.zone == ClimateZone::D3) {
            // the table's own (beta, gamma) is what the generator fed to the radiation model
            let rad = climate::met::period_radiation_for_surface(&met.data, lat, e.beta, e.gamma, 0.2);
            for m in 1..=12u32 {
                let (mut sd, mut sf) = (0.0f64, 0.0f64);
                for r in rad.iter().filter(|r| r.month == m) {
                    sd += r.dir as f64;
                    sf += r.dif as f64;
                }
                out.push(json!({"ev": "TableVsModel", "orient": orient_name(e.orientation), "month": m, "what": "dir",
                    "table": q1(e.dir[(m - 1) as usize], 100.0), "model": ((sd / 1000.0) * 100.0).round() as i64}));
                out.push(json!({"ev": "TableVsModel", "orient": orient_name(e.orientation), "month": m, "what": "dif",
                    "table": q1(e.dif[(m - 1) as usize], 100.0), "model": ((sf / 1000.0) * 100.0).round() as i64}));
            }
        }
        // (5b) the library's own table generators (monthly sums per orientation, the hours of 21 July) fed with the shipped
        // weather file under every zone name: their rows for D3 are the embedded tables
        let mut allzones: std::collections::HashMap<String, climate::met::MetData> = std::collections::HashMap::new();
        for z in climate::CTE_CLIMATEZONES.iter() {
            allzones.insert((*z).to_string(), met.clone());
        }
        let allz = allzones.clone();
        if let Ok(rows) = catch(move || climate::met::met_monthly_data(&allz)) {
            for row in rows.iter().filter(|r| r.zc == "D3") {
                if let Some(e) = monthly.iter().find(|e| e.zone == ClimateZone::D3 && (e.beta - row.tilt).abs() < 1e-3 && (e.gamma - row.azimuth).abs() < 1e-3) {
                    for m in 0..12usize {
                        out.push(json!({"ev": "TableVsModel", "orient": orient_name(e.orientation), "month": m + 1, "what": "dir (met_monthly_data)",
                            "table": q1(e.dir[m], 100.0), "model": q1(*row.dir.get(m).unwrap_or(&f32::NAN), 100.0)}));
                        out.push(json!({"ev": "TableVsModel", "orient": orient_name(e.orientation), "month": m + 1, "what": "dif (met_monthly_data)",
                            "table": q1(e.dif[m], 100.0), "model": q1(*row.dif.get(m).unwrap_or(&f32::NAN), 100.0)}));
                        // the reduction factors for movable shading (share of the radiation received above 200 / 300 / 500 W/m2), in units of 0.0025: the table has two decimals
                        for (nm, tab, gen) in [("f_sh;with 200", &e.f_shwith200, &row.fshwi200), ("f_sh;with 300", &e.f_shwith300, &row.fshwi300), ("f_sh;with 500", &e.f_shwith500, &row.fshwi500)] {
                            out.push(json!({"ev": "TableVsModel", "orient": orient_name(e.orientation), "month": m + 1, "what": nm,
                                "table": q1(*tab.get(m).unwrap_or(&f32::NAN), 400.0), "model": q1(*gen.get(m).unwrap_or(&f32::NAN), 400.0)}));
                        }
                    }
                } else {
                    out.push(json!({"ev": "TableVsModel", "orient": row.name, "month": 0, "what": "no table row for this surface", "table": 0, "model": 1000000}));
                }
            }
        } else {
            out.push(json!({"ev": "TableVsModel", "orient": "-", "month": 0, "what": "met_monthly_data panics", "table": 0, "model": 1000000}));
        }
        drop(monthly);
        let allz = allzones.clone();
        let julyfn = catch(move || climate::met::met_july21st_radiation_data(&allz)).ok().and_then(|mut m| m.remove("D3"));
        let july = JULYRADDATA.lock().unwrap();
        // (the embedded July table is the 1st of July; the library's generator of a July day takes the 21st: what it returns
        //  must be the sunlit hours of that day of the weather file)
        if let Some(gen) = julyfn.as_ref() {
            let sunlit = met.data.iter().filter(|d| d.month == 7 && d.day == 21 && (d.rdirhor > 0.0 || d.rdifhor > 0.0)).count();
            for r in gen {
                let hit = met.data.iter().find(|d| d.month == r.month && d.day == r.day && (d.hour - r.hour).abs() < 0.01);
                out.push(json!({"ev": "JulyVsMet", "hour": q1(r.hour, 10.0), "found": hit.is_some() && gen.len() == sunlit && r.month == 7 && r.day == 21, "src": "met_july21st_radiation_data",
                    "tdir": q1(r.dir, 1.0), "tdif": q1(r.dif, 1.0), "talt": q1(r.altitude, 100.0),
                    "mdir": hit.map_or(0, |d| q1(d.rdirhor, 1.0)), "mdif": hit.map_or(0, |d| q1(d.rdifhor, 1.0)), "malt": hit.map_or(0, |d| q1(90.0 - d.zenith, 100.0))}));
            }
        }
        if let Some(rows) = july.get(&ClimateZone::D3) {
            for r in rows {
                let hit = met.data.iter().find(|d| d.month == r.month && d.day == r.day && (d.hour - r.hour).abs() < 0.01);
                out.push(json!({"ev": "JulyVsMet", "hour": q1(r.hour, 10.0), "found": hit.is_some(),
                    "tdir": q1(r.dir, 1.0), "tdif": q1(r.dif, 1.0), "talt": q1(r.altitude, 100.0),
                    "mdir": hit.map_or(0, |d| q1(d.rdirhor, 1.0)), "mdif": hit.map_or(0, |d| q1(d.rdifhor, 1.0)), "malt": hit.map_or(0, |d| q1(90.0 - d.zenith, 100.0))}));
            }
        }
    }
    write_lines(&out_path, &out.iter().map(|e| e.to_string()).collect::<Vec<_>>());
    println!("{}", json!({"events": out.len(), "traces": out.len(), "out": out_path}));
}
