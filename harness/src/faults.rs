//! C19: single-edit damage of project files, executed on the real pipeline in supervised workers.

use crate::util::*;
use serde_json::{json, Value};
use std::time::Duration;

pub const KINDS: [&str; 7] = ["DeleteLine", "DuplicateLine", "RemoveBlockAt", "RenameReferenceAt", "NumberToText", "NumberOutOfRange", "TruncateAfter"];

fn is_header(l: &str) -> bool {
    let t = l.trim();
    t.starts_with('"') && t.contains("\" =") && !t.ends_with(',') && t.split('=').nth(1).map_or(false, |r| {
        let r = r.trim();
        !r.is_empty() && r.chars().all(|c| c.is_ascii_alphanumeric() || c == '-' || c == '/')
    })
}

/// position of the first number token (not inside quotes) after the first '=' of the line
fn number_span(l: &str) -> Option<(usize, usize)> {
    let eq = l.find('=')?;
    let bytes = l.as_bytes();
    let mut i = eq + 1;
    let mut inq = false;
    while i < bytes.len() {
        let c = bytes[i] as char;
        if c == '"' {
            inq = !inq;
        } else if !inq && (c.is_ascii_digit() || ((c == '-' || c == '+' || c == '.') && i + 1 < bytes.len() && (bytes[i + 1] as char).is_ascii_digit())) {
            // must start a token
            let prev = bytes[i - 1] as char;
            if prev == ' ' || prev == '(' || prev == ',' || prev == '=' || prev == '\t' {
                let mut j = i + 1;
                while j < bytes.len() {
                    let d = bytes[j] as char;
                    if d.is_ascii_digit() || d == '.' || d == 'e' || d == 'E' || ((d == '-' || d == '+') && (bytes[j - 1] as char == 'e' || bytes[j - 1] as char == 'E')) {
                        j += 1;
                    } else {
                        break;
                    }
                }
                return Some((i, j));
            }
        }
        i += 1;
    }
    None
}

/// Apply one fault at `line` (0-based). None when the edit does not apply to that line (e.g. no number).
pub fn apply(lines: &[&str], line: usize, kind: &str, variant: u64) -> Option<String> {
    let nl = "\n";
    match kind {
        "DeleteLine" => Some(lines.iter().enumerate().filter(|(i, _)| *i != line).map(|(_, l)| *l).collect::<Vec<_>>().join(nl)),
        "DuplicateLine" => {
            let mut v: Vec<&str> = Vec::with_capacity(lines.len() + 1);
            for (i, l) in lines.iter().enumerate() {
                v.push(l);
                if i == line {
                    v.push(l);
                }
            }
            Some(v.join(nl))
        }
        "TruncateAfter" => Some(lines[..=line].join(nl)),
        "RemoveBlockAt" => {
            // the block around the line: from the nearest header above to the first ".." at or below
            let mut s = line;
            loop {
                if is_header(lines[s]) {
                    break;
                }
                if s == 0 || (s < line && lines[s].trim() == "..") {
                    return None;
                }
                s -= 1;
            }
            let mut e = line;
            while e < lines.len() && lines[e].trim() != ".." {
                e += 1;
            }
            if e >= lines.len() {
                return None;
            }
            Some(lines.iter().enumerate().filter(|(i, _)| *i < s || *i > e).map(|(_, l)| *l).collect::<Vec<_>>().join(nl))
        }
        "RenameReferenceAt" => {
            let l = lines[line];
            let eq = l.find('=')?;
            let q1 = l[eq..].find('"')? + eq;
            let q2 = l[q1 + 1..].find('"')? + q1 + 1;
            let new = format!("{}\"NO_EXISTE_VERIF\"{}", &l[..q1], &l[q2 + 1..]);
            let mut v: Vec<String> = lines.iter().map(|x| x.to_string()).collect();
            v[line] = new;
            Some(v.join(nl))
        }
        "NumberToText" | "NumberOutOfRange" => {
            let l = lines[line];
            let (a, b) = number_span(l)?;
            let repl = if kind == "NumberToText" {
                ["abc", "", "1,5x", "--"][(variant % 4) as usize].to_string()
            } else {
                ["1e39", "-1e39", "99999999999", "-1", "0", "1e-45"][(variant % 6) as usize].to_string()
            };
            let new = format!("{}{}{}", &l[..a], repl, &l[b..]);
            let mut v: Vec<String> = lines.iter().map(|x| x.to_string()).collect();
            v[line] = new;
            Some(v.join(nl))
        }
        _ => None,
    }
}

fn run_pipeline(text: &str, fmt: &str, scratch: &std::path::Path) -> (String, String) {
    // (outcome, site/msg)
    let r: Result<Result<(), String>, String> = match fmt {
        "ctehexml" | "cte" | "bdl" => {
            let r = crate::convert::convert_any(text, fmt);
            match r {
                Ok(_) => Ok(Ok(())),
                Err(e) if e.starts_with("panic: ") => Err(e[7..].to_string()),
                Err(e) => Ok(Err(e)),
            }
        }
        "kyg" => catch(std::panic::AssertUnwindSafe(|| hulc::kyg::parse(text).map(|_| ()).map_err(|e| e.to_string()))),
        "tbl" => {
            let p = scratch.join(format!("fault_{}.tbl", std::process::id()));
            let _ = std::fs::write(&p, text.as_bytes());
            let r = catch(std::panic::AssertUnwindSafe(|| hulc::tbl::parse(&p).map(|_| ()).map_err(|e| e.to_string())));
            let _ = std::fs::remove_file(&p);
            r
        }
        _ => Ok(Err("unknown format".to_string())),
    };
    match r {
        Ok(Ok(())) => ("converted".to_string(), String::new()),
        Ok(Err(e)) => ("rejected".to_string(), e.chars().take(120).collect()),
        Err(site) => ("crashed".to_string(), site.split('|').next().unwrap_or("").to_string()),
    }
}

/// worker request: {path, fmt, kind, lines: [line numbers], variant} -> {outcomes: [[line, code, site]]}
/// codes: 0 converted, 1 rejected, 2 crashed (panic), -1 edit not applicable
pub fn worker_handle(req: &Value) -> Value {
    let path = req["path"].as_str().unwrap_or("");
    let fmt = req["fmt"].as_str().unwrap_or("bdl");
    let kind = req["kind"].as_str().unwrap_or("");
    let scratch = std::path::PathBuf::from(req["scratch"].as_str().unwrap_or("/tmp"));
    let bytes = std::fs::read(path).unwrap_or_default();
    // legacy files are latin1: decode byte-wise so that every byte survives the edit
    let text: String = match String::from_utf8(bytes.clone()) {
        Ok(s) => s,
        Err(_) => bytes.iter().map(|b| *b as char).collect(),
    };
    let text = text.replace("\r\n", "\n");
    let lines: Vec<&str> = text.split('\n').collect();
    let mut out: Vec<Value> = vec![];
    for l in req["lines"].as_array().cloned().unwrap_or_default() {
        let li = l.as_u64().unwrap_or(0) as usize;
        if li >= lines.len() {
            out.push(json!([li, -1, ""]));
            continue;
        }
        match apply(&lines, li, kind, li as u64 + req["variant"].as_u64().unwrap_or(0)) {
            None => out.push(json!([li, -1, ""])),
            Some(t) => {
                let (o, site) = run_pipeline(&t, fmt, &scratch);
                let code = match o.as_str() { "converted" => 0, "rejected" => 1, _ => 2 };
                out.push(json!([li, code, site]));
            }
        }
    }
    json!({"outcomes": out})
}

pub fn main_faults(args: &Args) {
    // requests: ndjson {path, fmt, kind, lines:[..]} ; each is split in chunks handled by parallel workers
    let out_path = args.get("--out").unwrap_or_else(|| "work/faults.ndjson".to_string());
    let jobs = args.num("--jobs", 14);
    let chunk = args.num("--chunk", 40);
    let per_fault_ms = args.num("--timeout-ms", 4000) as u64;
    let scratch = args.get("--scratch").unwrap_or_else(|| "work".to_string());
    let mut reqs: Vec<Value> = vec![];
    for l in read_lines(&args.get("--reqs").unwrap_or_default()) {
        if let Ok(v) = serde_json::from_str::<Value>(&l) {
            reqs.push(v);
        }
    }
    // work items: (request index, chunk of lines)
    let mut items: Vec<(usize, Vec<u64>)> = vec![];
    for (ri, r) in reqs.iter().enumerate() {
        let ls: Vec<u64> = r["lines"].as_array().map(|a| a.iter().filter_map(|x| x.as_u64()).collect()).unwrap_or_default();
        for c in ls.chunks(chunk) {
            items.push((ri, c.to_vec()));
        }
    }
    let items = std::sync::Arc::new(items);
    let reqs = std::sync::Arc::new(reqs);
    let next = std::sync::Arc::new(std::sync::atomic::AtomicUsize::new(0));
    let results: std::sync::Arc<std::sync::Mutex<Vec<Vec<Value>>>> = std::sync::Arc::new(std::sync::Mutex::new(vec![vec![]; reqs.len()]));
    let handles: Vec<_> = (0..jobs.max(1))
        .map(|_| {
            let items = items.clone();
            let reqs = reqs.clone();
            let next = next.clone();
            let results = results.clone();
            let scratch = scratch.clone();
            std::thread::spawn(move || {
                let mut w = Worker::new("faults");
                w.mem_limit_mb = 3072;
                loop {
                    let i = next.fetch_add(1, std::sync::atomic::Ordering::SeqCst);
                    if i >= items.len() {
                        break;
                    }
                    let (ri, ref ls) = items[i];
                    let r = &reqs[ri];
                    let mut pending: Vec<u64> = ls.clone();
                    let mut got: Vec<Value> = vec![];
                    // a hang or a hard crash loses the whole chunk: retry line by line
                    let req = json!({"path": r["path"], "fmt": r["fmt"], "kind": r["kind"], "lines": pending, "variant": r["variant"], "scratch": scratch});
                    match w.call(&req, Duration::from_millis(per_fault_ms * (pending.len() as u64).max(1))) {
                        Ok(a) => got.extend(a["outcomes"].as_array().cloned().unwrap_or_default()),
                        Err(_) => {
                            for l in pending.drain(..) {
                                let req1 = json!({"path": r["path"], "fmt": r["fmt"], "kind": r["kind"], "lines": [l], "variant": r["variant"], "scratch": scratch});
                                match w.call(&req1, Duration::from_millis(per_fault_ms)) {
                                    Ok(a) => got.extend(a["outcomes"].as_array().cloned().unwrap_or_default()),
                                    Err(kind) => got.push(json!([l, if kind == "hang" { 3 } else { 4 }, kind])),
                                }
                            }
                        }
                    }
                    results.lock().unwrap()[ri].extend(got);
                }
            })
        })
        .collect();
    for h in handles {
        let _ = h.join();
    }
    let res = results.lock().unwrap();
    let mut out: Vec<String> = vec![];
    let (mut total, mut bad) = (0usize, 0usize);
    for (ri, r) in reqs.iter().enumerate() {
        let mut rows: Vec<Value> = res[ri].clone();
        rows.sort_by_key(|x| x[0].as_u64().unwrap_or(0));
        let lines: Vec<u64> = rows.iter().map(|x| x[0].as_u64().unwrap_or(0)).collect();
        let codes: Vec<i64> = rows.iter().map(|x| x[1].as_i64().unwrap_or(9)).collect();
        let badrows: Vec<Value> = rows.iter().filter(|x| x[1].as_i64().unwrap_or(9) >= 2).cloned().collect();
        total += codes.iter().filter(|c| **c >= 0).count();
        bad += badrows.len();
        out.push(json!({"ev": "FaultRow", "file": r["file"], "fmt": r["fmt"], "kind": r["kind"], "nlines": r["nlines"],
            "planned": r["lines"], "lines": lines, "codes": codes, "bad": badrows}).to_string());
    }
    write_lines(&out_path, &out);
    println!("{}", json!({"rows": out.len(), "faults": total, "traces": total, "not_allowed": bad, "out": out_path}));
}
