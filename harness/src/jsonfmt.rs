//! C04: JSON round trips of models.

use crate::util::*;
use bemodel::Model;
use serde_json::{json, Value};

pub fn worker_handle(req: &Value) -> Value {
    // models produced by the converter itself (with or without the overrides and extra data taken from HULC's result
    // files): written, read back and compared with the model in memory
    if req.get("convert").is_some() || req.get("collect").is_some() {
        let r = catch(std::panic::AssertUnwindSafe(|| -> Result<Value, String> {
            let m0: Model = if let Some(dir) = req["collect"].as_str() {
                hulc2model::collect_hulc_data(dir, true, true).map_err(|e| format!("convert: {}", e))?
            } else {
                let p = req["convert"].as_str().unwrap_or("");
                let bytes = std::fs::read(p).map_err(|e| e.to_string())?;
                let text = String::from_utf8(bytes.clone()).unwrap_or_else(|_| bytes.iter().map(|b| *b as char).collect());
                crate::convert::convert_any(&text, req["fmt"].as_str().unwrap_or("ctehexml"))?
            };
            let j1 = m0.as_json().map_err(|e| format!("ser: {}", e))?;
            let m1 = Model::from_json(&j1).map_err(|e| format!("reload: {}", e))?;
            let j2 = m1.as_json().map_err(|e| format!("ser2: {}", e))?;
            Ok(json!({"loads": true, "debug_equal": format!("{:?}", m0) == format!("{:?}", m1), "text_equal": j1 == j2, "value_equal": true, "out": 0}))
        }));
        return match r {
            Ok(Ok(v)) => v,
            Ok(Err(e)) if e.starts_with("convert: ") || e.starts_with("parse: ") || e.starts_with("panic: ") => json!({"skip": true, "err": e}),
            Ok(Err(e)) => json!({"loads": false, "debug_equal": false, "text_equal": false, "value_equal": false, "err": e, "out": 0}),
            Err(site) => json!({"loads": false, "debug_equal": false, "text_equal": false, "value_equal": false, "err": format!("panic {}", site), "out": 0}),
        };
    }
    let text: String = match req["json"].as_str() {
        Some(t) => t.to_string(),
        None => std::fs::read_to_string(req["path"].as_str().unwrap_or("")).unwrap_or_default(),
    };
    let r = catch(std::panic::AssertUnwindSafe(|| -> Result<Value, String> {
        let m1 = Model::from_json(&text).map_err(|e| format!("load: {}", e))?;
        let j1 = m1.as_json().map_err(|e| format!("ser: {}", e))?;
        let m2 = Model::from_json(&j1).map_err(|e| format!("reload: {}", e))?;
        let j2 = m2.as_json().map_err(|e| format!("ser2: {}", e))?;
        let v0: Value = serde_json::from_str(&text).map_err(|e| e.to_string())?;
        let v1: Value = serde_json::from_str(&j1).map_err(|e| e.to_string())?;
        Ok(json!({"loads": true, "debug_equal": format!("{:?}", m1) == format!("{:?}", m2), "text_equal": j1 == j2,
            "value_equal": v0 == v1, "out": if req["want_out"].as_bool().unwrap_or(false) { v1 } else { json!(0) }}))
    }));
    match r {
        Ok(Ok(v)) => v,
        Ok(Err(e)) => json!({"loads": false, "debug_equal": false, "text_equal": false, "value_equal": false, "err": e, "out": 0}),
        Err(site) => json!({"loads": false, "debug_equal": false, "text_equal": false, "value_equal": false, "err": format!("panic {}", site), "out": 0}),
    }
}

pub fn main_jsonfmt(args: &Args) {
    let out_path = args.get("--out").unwrap_or_else(|| "work/jsonfmt.ndjson".to_string());
    let mut w = Worker::new("jsonfmt");
    let mut out: Vec<String> = vec![];
    for l in read_lines(&args.get("--reqs").unwrap_or_default()) {
        let req: Value = match serde_json::from_str(&l) {
            Ok(v) => v,
            Err(_) => continue,
        };
        let mut ans = match w.call(&req, std::time::Duration::from_secs(30)) {
            Ok(a) => a,
            Err(kind) => json!({"loads": false, "debug_equal": false, "text_equal": false, "value_equal": false, "err": kind, "out": 0}),
        };
        ans["id"] = req["id"].clone();
        out.push(ans.to_string());
    }
    write_lines(&out_path, &out);
    println!("{}", json!({"requests": out.len(), "out": out_path}));
}
