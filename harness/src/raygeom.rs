//! C13 (second part): ray / polygon / bounding box / reveal surfaces against RayGeom.tla.

use crate::util::*;
use bemodel::energy::{Bounded, Intersectable, Ray};
use bemodel::{Model, Wall, WallGeom, WinGeom, Window};
use nalgebra::{point, vector};
use serde_json::{json, Value};

fn ang(v: &Value) -> (f64, f64) {
    // (cos, sin) of a rational angle [c, s, h]
    let (c, s, h) = (v[0].as_f64().unwrap_or(1.0), v[1].as_f64().unwrap_or(0.0), v[2].as_f64().unwrap_or(1.0));
    (c / h, s / h)
}
fn degrees(v: &Value) -> f32 {
    let (c, s) = ang(v);
    s.atan2(c).to_degrees() as f32
}
/// pos + Rz(az) Rx(tilt) (x, y, z), in f64, independent of nalgebra
fn to_global(p: [f64; 3], tilt: &Value, az: &Value, pos: [f64; 3]) -> [f64; 3] {
    let (ct, st) = ang(tilt);
    let (ca, sa) = ang(az);
    let (x, y, z) = (p[0], p[1] * ct - p[2] * st, p[1] * st + p[2] * ct);
    [pos[0] + x * ca - y * sa, pos[1] + x * sa + y * ca, pos[2] + z]
}
fn to_local(g: [f64; 3], tilt: &Value, az: &Value, pos: [f64; 3]) -> [f64; 3] {
    let (ct, st) = ang(tilt);
    let (ca, sa) = ang(az);
    let (x, y, z) = (g[0] - pos[0], g[1] - pos[1], g[2] - pos[2]);
    let (x1, y1) = (x * ca + y * sa, -x * sa + y * ca);
    [x1, y1 * ct + z * st, -y1 * st + z * ct]
}
fn mm(v: f64) -> i64 {
    (v * 1000.0).round() as i64
}

pub fn main_raygeom(args: &Args) {
    install_panic_hook();
    let out_path = args.get("--out").unwrap_or_else(|| "work/raygeom.ndjson".to_string());
    let stride = args.num("--stride", 1);
    let mut rng = Rng::new(seed_from_env());
    let offset = rng.below(stride.max(1));
    let mut out: Vec<String> = vec![];
    let pos = [1.5f64, -2.0, 0.5];
    let mut n = 0usize;
    if let Some(cases) = args.get("--cases") {
        for (i, l) in read_lines(&cases).iter().enumerate() {
            if stride > 1 && i % stride != offset {
                continue;
            }
            let v: Value = match serde_json::from_str(l) {
                Ok(v) => v,
                Err(_) => continue,
            };
            let c = &v["c"];
            let poly: Vec<_> = c["poly"].as_array().unwrap().iter().map(|p| point![(p[0].as_f64().unwrap() / 2.0) as f32, (p[1].as_f64().unwrap() / 2.0) as f32]).collect();
            let geom = WallGeom { tilt: degrees(&c["tilt"]), azimuth: degrees(&c["az"]), position: Some(point![pos[0] as f32, pos[1] as f32, pos[2] as f32]), polygon: poly };
            let q = [c["q"][0].as_f64().unwrap() / 2.0, c["q"][1].as_f64().unwrap() / 2.0, 0.0];
            let g = to_global(q, &c["tilt"], &c["az"], pos);
            let d = [c["D"][0].as_f64().unwrap(), c["D"][1].as_f64().unwrap(), c["D"][2].as_f64().unwrap()];
            let k = c["k"].as_f64().unwrap();
            let o = [g[0] - k * d[0], g[1] - k * d[1], g[2] - k * d[2]];
            let ray = Ray::new(point![o[0] as f32, o[1] as f32, o[2] as f32], vector![d[0] as f32, d[1] as f32, d[2] as f32]);
            let r = catch(std::panic::AssertUnwindSafe(|| geom.intersects(&ray)));
            let dn = (d[0] * d[0] + d[1] * d[1] + d[2] * d[2]).sqrt();
            let mut e = c.clone();
            e["ev"] = json!("RayCase");
            e["ok"] = json!(r.is_ok());
            e["got"] = json!(r.as_ref().map(|x| x.is_some()).unwrap_or(false));
            e["tgot"] = json!(r.ok().flatten().map(|t| mm(t as f64)).unwrap_or(0));
            e["texp"] = json!(mm(k * dn));
            out.push(e.to_string());
            n += 1;
            // bounding box of the posed polygon
            if i % 7 == 0 {
                let bb = geom.aabb();
                let corners: Vec<Value> = geom.polygon.iter().map(|p| {
                    let g = to_global([p.x as f64, p.y as f64, 0.0], &c["tilt"], &c["az"], pos);
                    json!([mm(g[0]), mm(g[1]), mm(g[2])])
                }).collect();
                out.push(json!({"ev": "Aabb", "corners": corners, "lo": [mm(bb.min.x as f64), mm(bb.min.y as f64), mm(bb.min.z as f64)],
                    "hi": [mm(bb.max.x as f64), mm(bb.max.y as f64), mm(bb.max.z as f64)], "tilt": c["tilt"], "az": c["az"]}).to_string());
            }
        }
    }
    // reveal surfaces of set-back windows on walls of any (rational) pose
    let family: Vec<Value> = vec![json!([1, 0, 1]), json!([0, 1, 1]), json!([-1, 0, 1]), json!([0, -1, 1]), json!([4, 3, 5]), json!([3, 4, 5]), json!([-4, 3, 5]),
        json!([3, -4, 5]), json!([12, 5, 13]), json!([-5, 12, 13])];
    let nrev = args.num("--reveals", 60);
    for i in 0..nrev {
        let tilt = rng.pick(&family).clone();
        let az = rng.pick(&family).clone();
        let (wx, wy, ww, wh) = (rng.range(0, 6) as f64 * 0.25, rng.range(0, 4) as f64 * 0.25, rng.range(2, 8) as f64 * 0.25, rng.range(2, 6) as f64 * 0.25);
        let d = if i % 6 == 5 { 0.0 } else { rng.range(1, 20) as f64 * 0.05 };
        let wpos = [rng.range(-5, 5) as f64, rng.range(-5, 5) as f64, rng.range(0, 6) as f64 * 0.5];
        let mut m = Model::default();
        let wall = Wall {
            geometry: WallGeom { tilt: degrees(&tilt), azimuth: degrees(&az), position: Some(point![wpos[0] as f32, wpos[1] as f32, wpos[2] as f32]),
                polygon: vec![point![0.0, 0.0], point![6.0, 0.0], point![6.0, 3.0], point![0.0, 3.0]] },
            ..Default::default()
        };
        let mk = |x: f64, y: f64, wall_id| Window { wall: wall_id, geometry: WinGeom { position: Some(point![x as f32, y as f32]), height: wh as f32, width: ww as f32, setback: d as f32 }, ..Default::default() };
        let win = mk(wx, wy, wall.id);
        // a second set-back window on the same wall: its reveals must not be attributed to the first
        let other = mk(wx + ww + 0.5, wy, wall.id);
        let (wid, oid) = (win.id, other.id);
        m.walls.push(wall);
        m.windows.push(win);
        m.windows.push(other);
        let occ = catch(std::panic::AssertUnwindSafe(|| m.collect_occluders()));
        if let Ok(occ) = occ {
            let mine: Vec<_> = occ.iter().filter(|o| o.linked_to_id == Some(wid)).collect();
            let others_ok = occ.iter().filter(|o| o.linked_to_id.is_some()).all(|o| o.linked_to_id == Some(wid) || o.linked_to_id == Some(oid));
            if d == 0.0 {
                out.push(json!({"ev": "NoReveal", "count": occ.iter().filter(|o| o.linked_to_id.is_some()).count()}).to_string());
            } else {
                let quads: Vec<Value> = mine.iter().map(|o| {
                    let inv = o.trans_matrix.map(|t| t.inverse());
                    Value::Array(o.polygon.iter().map(|p| {
                        let g = match inv { Some(t) => t * point![p.x, p.y, 0.0], None => point![0.0, 0.0, 0.0] };
                        let lc = to_local([g.x as f64, g.y as f64, g.z as f64], &tilt, &az, wpos);
                        json!([mm(lc[0]), mm(lc[1]), mm(lc[2])])
                    }).collect())
                }).collect();
                out.push(json!({"ev": "Reveal", "win": {"x": mm(wx), "y": mm(wy), "w": mm(ww), "h": mm(wh), "d": mm(d)}, "quads": quads,
                    "linked_ok": others_ok && mine.len() == 4, "tilt": tilt, "az": az}).to_string());
            }
            n += 1;
        }
    }
    write_lines(&out_path, &out);
    println!("{}", json!({"cases": n, "events": out.len(), "out": out_path}));
}
