mod absmodel;
mod bdlparse;
mod bvhcheck;
mod classify;
mod clicheck;
mod convert;
mod faults;
mod library;
mod geom;
mod jsonfmt;
mod locks;
mod sched;
mod raygeom;
mod session;
mod shading;
mod solar;
mod util;
mod uvalue;

use std::io::BufRead;
use util::Args;

fn worker(kind: &str) {
    util::install_panic_hook();
    let stdin = std::io::stdin();
    for line in stdin.lock().lines() {
        let line = match line {
            Ok(l) => l,
            Err(_) => break,
        };
        if line.trim().is_empty() {
            continue;
        }
        let req: serde_json::Value = match serde_json::from_str(&line) {
            Ok(v) => v,
            Err(e) => {
                util::answer(&serde_json::json!({"error": format!("bad request: {}", e)}));
                continue;
            }
        };
        let ans = match kind {
            "session" => session::worker_handle(&req),
            "bvh" => bvhcheck::worker_handle(&req),
            "cli" => clicheck::worker_handle(&req),
            "convert" => convert::worker_handle(&req),
            "uvalue" => uvalue::worker_handle(&req),
            "jsonfmt" => jsonfmt::worker_handle(&req),
            "bdlparse" => bdlparse::worker_handle(&req),
            "faults" => faults::worker_handle(&req),
            "library" => library::worker_handle(&req),
            _ => serde_json::json!({"error": "unknown worker kind"}),
        };
        util::answer(&ans);
    }
}

fn main() {
    let argv: Vec<String> = std::env::args().collect();
    if argv.len() < 2 {
        eprintln!("usage: vh <command> ...");
        std::process::exit(2);
    }
    let args = Args(argv[2..].to_vec());
    match argv[1].as_str() {
        "worker" => worker(argv.get(2).map(|s| s.as_str()).unwrap_or("")),
        "session" => session::main_session(&args),
        "probe" => session::main_probe(&args),
        "nulls" => session::main_nulls(&args),
        "bvh" => bvhcheck::main_bvh(&args),
        "sched" => sched::main_sched(&args),
        "cli" => clicheck::main_cli(&args),
        "convert" => convert::main_convert(&args),
        "uvalue" => uvalue::main_uvalue(&args),
        "classify" => classify::main_classify(&args),
        "solar" => solar::main_solar(&args),
        "raygeom" => raygeom::main_raygeom(&args),
        "shading" => shading::main_shading(&args),
        "jsonfmt" => jsonfmt::main_jsonfmt(&args),
        "bdlparse" => bdlparse::main_bdlparse(&args),
        "faults" => faults::main_faults(&args),
        "library" => library::main_library(&args),
        "locks" => locks::main_locks(&args),
        "locks-one" => locks::main_one(&args),
        other => {
            eprintln!("unknown command {}", other);
            std::process::exit(2);
        }
    }
}
