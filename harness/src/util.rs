//! Shared helpers: RNG, quantisation, panic capture, supervised worker processes, corpus location.

use serde_json::{json, Value};
use std::cell::RefCell;
use std::io::{BufRead, BufReader, Write};
use std::path::{Path, PathBuf};
use std::process::{Child, ChildStdin, Command, Stdio};
use std::sync::mpsc::{channel, Receiver};
use std::time::Duration;

// ---------------------------------------------------------------- RNG (splitmix64 / xorshift)

#[derive(Clone)]
pub struct Rng(pub u64);

impl Rng {
    pub fn new(seed: u64) -> Self {
        Rng(seed.wrapping_mul(0x9E37_79B9_7F4A_7C15) ^ 0xD1B5_4A32_D192_ED03)
    }
    pub fn next_u64(&mut self) -> u64 {
        self.0 = self.0.wrapping_add(0x9E37_79B9_7F4A_7C15);
        let mut z = self.0;
        z = (z ^ (z >> 30)).wrapping_mul(0xBF58_476D_1CE4_E5B9);
        z = (z ^ (z >> 27)).wrapping_mul(0x94D0_49BB_1331_11EB);
        z ^ (z >> 31)
    }
    /// uniform in 0..n
    pub fn below(&mut self, n: usize) -> usize {
        if n == 0 {
            0
        } else {
            (self.next_u64() % n as u64) as usize
        }
    }
    pub fn range(&mut self, lo: i64, hi: i64) -> i64 {
        lo + (self.next_u64() % ((hi - lo + 1) as u64)) as i64
    }
    pub fn chance(&mut self, num: u32, den: u32) -> bool {
        (self.next_u64() % den as u64) < num as u64
    }
    pub fn f64(&mut self) -> f64 {
        (self.next_u64() >> 11) as f64 / (1u64 << 53) as f64
    }
    pub fn pick<'a, T>(&mut self, v: &'a [T]) -> &'a T {
        &v[self.below(v.len())]
    }
}

pub fn seed_from_env() -> u64 {
    std::env::var("VERIF_SEED")
        .ok()
        .and_then(|s| s.parse::<u64>().ok())
        .unwrap_or(1)
}

// ---------------------------------------------------------------- quantisation

/// Quantise to an integer with `scale` units per 1.0. Non finite or out of the 32 bit range -> None.
pub fn q(v: f32, scale: f64) -> Option<i64> {
    let x = (v as f64) * scale;
    if !x.is_finite() || x.abs() > 2.0e9 {
        None
    } else {
        Some(x.round() as i64)
    }
}

/// Quantised value as JSON; a value that cannot be represented is recorded in `bad` and logged as 0
pub fn qv(v: f32, scale: f64, what: &str, bad: &mut Vec<String>) -> Value {
    match q(v, scale) {
        Some(i) => json!(i),
        None => {
            bad.push(format!("{}={}", what, v));
            json!(0)
        }
    }
}

pub fn qopt(v: Option<f32>, scale: f64, what: &str, bad: &mut Vec<String>) -> Value {
    match v {
        None => json!(-1),
        Some(x) => {
            // negative optional values are shifted out of the way of the None marker by the caller's
            // convention: all optional quantities logged here are non-negative physical values;
            // a negative one is recorded as bad.
            if x < 0.0 {
                bad.push(format!("{}={}", what, x));
                json!(0)
            } else {
                qv(x, scale, what, bad)
            }
        }
    }
}

// ---------------------------------------------------------------- panic capture

thread_local! {
    static LAST_PANIC: RefCell<Option<String>> = RefCell::new(None);
}

pub fn install_panic_hook() {
    std::panic::set_hook(Box::new(|info| {
        let loc = info
            .location()
            .map(|l| {
                let f = l.file();
                // keep the path relative to the repository
                let f = f.rsplit_once("/repo/").map(|x| x.1).unwrap_or(f);
                format!("{}:{}", f, l.line())
            })
            .unwrap_or_else(|| "unknown".to_string());
        let msg = if let Some(s) = info.payload().downcast_ref::<&str>() {
            s.to_string()
        } else if let Some(s) = info.payload().downcast_ref::<String>() {
            s.clone()
        } else {
            "".to_string()
        };
        let mut short = msg.replace('\n', " ");
        short.truncate(160);
        LAST_PANIC.with(|p| *p.borrow_mut() = Some(format!("{}|{}", loc, short)));
    }));
}

/// Run f, turning a panic into Err("file:line|message")
pub fn catch<T>(f: impl FnOnce() -> T + std::panic::UnwindSafe) -> Result<T, String> {
    LAST_PANIC.with(|p| *p.borrow_mut() = None);
    match std::panic::catch_unwind(f) {
        Ok(v) => Ok(v),
        Err(_) => Err(LAST_PANIC
            .with(|p| p.borrow_mut().take())
            .unwrap_or_else(|| "unknown|".to_string())),
    }
}

// ---------------------------------------------------------------- supervised workers

/// A child process of this same binary running `worker <kind>`: one JSON line per request on stdin,
/// one line starting with "@@R " per answer on stdout (anything else the library prints to stdout is
/// kept apart: it is data for C01, noise elsewhere).
pub struct Worker {
    kind: String,
    child: Option<Child>,
    stdin: Option<ChildStdin>,
    rx: Option<Receiver<String>>,
    pub restarts: usize,
    pub mem_limit_mb: u64,
}

impl Worker {
    pub fn new(kind: &str) -> Self {
        Worker {
            kind: kind.to_string(),
            child: None,
            stdin: None,
            rx: None,
            restarts: 0,
            mem_limit_mb: 4096,
        }
    }

    fn start(&mut self) {
        let exe = std::env::current_exe().expect("current exe");
        let mut cmd = Command::new("bash");
        // address space limit through the shell's ulimit (no libc dependency needed)
        cmd.arg("-c")
            .arg(format!(
                "ulimit -v {}; exec \"$0\" worker {}",
                self.mem_limit_mb * 1024,
                self.kind
            ))
            .arg(exe)
            .env("RUST_BACKTRACE", "0")
            .stdin(Stdio::piped())
            .stdout(Stdio::piped())
            .stderr(Stdio::null());
        let mut child = cmd.spawn().expect("spawn worker");
        let stdout = child.stdout.take().unwrap();
        let (tx, rx) = channel();
        std::thread::spawn(move || {
            let rd = BufReader::new(stdout);
            for line in rd.split(b'\n') {
                match line {
                    Ok(bytes) => {
                        let l = String::from_utf8_lossy(&bytes).to_string();
                        if let Some(rest) = l.strip_prefix("@@R ") {
                            if tx.send(rest.to_string()).is_err() {
                                break;
                            }
                        }
                    }
                    Err(_) => break,
                }
            }
        });
        self.stdin = child.stdin.take();
        self.child = Some(child);
        self.rx = Some(rx);
    }

    pub fn restart(&mut self) {
        self.kill();
        self.restarts += 1;
    }

    fn kill(&mut self) {
        if let Some(mut c) = self.child.take() {
            let _ = c.kill();
            let _ = c.wait();
        }
        self.stdin = None;
        self.rx = None;
    }

    /// Send one request; Ok(answer) | Err("hang") | Err("died").
    /// A request that does not answer in time is given a second chance in a fresh worker with a much longer limit (four
    /// times the limit, at least a minute): on a loaded machine a computation may simply be slow, and a hang must be a hang.
    pub fn call(&mut self, req: &Value, timeout: Duration) -> Result<Value, String> {
        // (once three requests of this run have hung for good, the tree is known to hang: no more second chances, so that a
        //  check against such a tree still ends in reasonable time)
        static CONFIRMED: std::sync::atomic::AtomicUsize = std::sync::atomic::AtomicUsize::new(0);
        match self.call_once(req, timeout) {
            Err(kind) if kind == "hang" && CONFIRMED.load(std::sync::atomic::Ordering::Relaxed) < 3 => {
                let longer = std::cmp::max(timeout * 4, Duration::from_secs(60));
                let r = self.call_once(req, longer);
                if matches!(&r, Err(k) if k == "hang") {
                    CONFIRMED.fetch_add(1, std::sync::atomic::Ordering::Relaxed);
                }
                r
            }
            other => other,
        }
    }

    fn call_once(&mut self, req: &Value, timeout: Duration) -> Result<Value, String> {
        if self.child.is_none() {
            self.start();
        }
        let line = format!("{}\n", req);
        let ok = self
            .stdin
            .as_mut()
            .map(|s| s.write_all(line.as_bytes()).and_then(|_| s.flush()).is_ok())
            .unwrap_or(false);
        if !ok {
            self.kill();
            self.restarts += 1;
            return Err("died".to_string());
        }
        match self.rx.as_ref().unwrap().recv_timeout(timeout) {
            Ok(ans) => serde_json::from_str(&ans).map_err(|e| format!("badjson:{}", e)),
            Err(std::sync::mpsc::RecvTimeoutError::Timeout) => {
                self.kill();
                self.restarts += 1;
                Err("hang".to_string())
            }
            Err(_) => {
                self.kill();
                self.restarts += 1;
                Err("died".to_string())
            }
        }
    }
}

impl Drop for Worker {
    fn drop(&mut self) {
        self.kill();
    }
}

/// Answer from a worker
pub fn answer(v: &Value) {
    let out = std::io::stdout();
    let mut l = out.lock();
    let _ = writeln!(l, "@@R {}", v);
    let _ = l.flush();
}

// ---------------------------------------------------------------- corpus

pub fn repo() -> PathBuf {
    PathBuf::from(std::env::var("VERIF_REPO").unwrap_or_else(|_| "/repo".to_string()))
}

/// The 7 shipped model JSON files
pub fn shipped_models() -> Vec<PathBuf> {
    let mut v: Vec<PathBuf> = std::fs::read_dir(repo().join("bemodel/tests/data"))
        .map(|rd| {
            rd.filter_map(|e| e.ok())
                .map(|e| e.path())
                .filter(|p| p.extension().map_or(false, |x| x == "json"))
                .collect()
        })
        .unwrap_or_default();
    v.sort();
    v
}

pub fn walk(dir: &Path, out: &mut Vec<PathBuf>) {
    if let Ok(rd) = std::fs::read_dir(dir) {
        let mut es: Vec<_> = rd.filter_map(|e| e.ok()).map(|e| e.path()).collect();
        es.sort();
        for p in es {
            if p.is_dir() {
                walk(&p, out);
            } else {
                out.push(p);
            }
        }
    }
}

/// All files under the test data directories with the given (lower case) extension
pub fn corpus_files(ext: &str) -> Vec<PathBuf> {
    let mut all = vec![];
    for d in ["hulc_tests/tests", "hulc/tests", "bemodel/tests"] {
        walk(&repo().join(d), &mut all);
    }
    all.retain(|p| {
        p.extension()
            .and_then(|e| e.to_str())
            .map_or(false, |e| e.to_lowercase() == ext)
    });
    all
}

pub fn write_lines(path: &str, lines: &[String]) {
    let mut f = std::io::BufWriter::new(std::fs::File::create(path).expect("create out file"));
    for l in lines {
        let _ = writeln!(f, "{}", l);
    }
}

pub fn read_lines(path: &str) -> Vec<String> {
    std::fs::read_to_string(path)
        .map(|s| s.lines().filter(|l| !l.trim().is_empty()).map(|l| l.to_string()).collect())
        .unwrap_or_default()
}

/// Minimal command line parsing: --key value pairs and flags
pub struct Args(pub Vec<String>);
impl Args {
    pub fn get(&self, key: &str) -> Option<String> {
        self.0
            .iter()
            .position(|a| a == key)
            .and_then(|i| self.0.get(i + 1).cloned())
    }
    pub fn num(&self, key: &str, dflt: usize) -> usize {
        self.get(key).and_then(|s| s.parse().ok()).unwrap_or(dflt)
    }
    pub fn flag(&self, key: &str) -> bool {
        self.0.iter().any(|a| a == key)
    }
}
