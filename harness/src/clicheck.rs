//! C01: run the real binaries as processes and record what they write to stdout, to the -o file and
//! their exit status, next to the library's own conversion of the same input (computed in a worker).

use crate::util::*;
use bemodel::Model;
use serde_json::{json, Value};
use std::path::{Path, PathBuf};
use std::process::Command;
use std::time::Duration;

/// worker: {"dir": .., "extra": bool} or {"file": ..} -> {"ok": bool, "json": text | "err": ..}
pub fn worker_handle(req: &Value) -> Value {
    let r = catch(std::panic::AssertUnwindSafe(|| -> Result<(String, String), String> {
        let m = if let Some(dir) = req["dir"].as_str() {
            let extra = req["extra"].as_bool().unwrap_or(false);
            hulc2model::collect_hulc_data(dir, extra, extra).map_err(|e| e.to_string())?
        } else {
            let file = req["file"].as_str().unwrap_or("");
            let d = hulc::ctehexml::parse_with_catalog_from_path(file).map_err(|e| e.to_string())?;
            Model::try_from(&d).map_err(|e| e.to_string())?
        };
        // the model as the library holds it in memory (Debug text) next to its JSON: the property compares the model
        // that the written document loads as with the library's model, not two outputs of the same serialiser
        Ok((m.as_json().map_err(|e| e.to_string())?, format!("{:?}", m)))
    }));
    match r {
        Ok(Ok((js, dbg))) => json!({"ok": true, "json": js, "debug": dbg}),
        Ok(Err(e)) => json!({"ok": false, "err": e}),
        Err(site) => json!({"ok": false, "err": format!("panic {}", site)}),
    }
}

/// Split stdout into maximal JSON documents (objects) and other text
fn chunks(out: &str) -> Vec<(String, String)> {
    let mut res: Vec<(String, String)> = vec![];
    let mut other = String::new();
    let mut rest = out;
    loop {
        let t = rest.trim_start();
        if t.is_empty() {
            break;
        }
        let mut matched = false;
        if t.starts_with('{') {
            let mut stream = serde_json::Deserializer::from_str(t).into_iter::<Value>();
            if let Some(Ok(v)) = stream.next() {
                if v.is_object() {
                    let off = stream.byte_offset();
                    if !other.trim().is_empty() {
                        res.push(("other".to_string(), other.clone()));
                    }
                    other.clear();
                    res.push(("json".to_string(), t[..off].to_string()));
                    rest = &t[off..];
                    matched = true;
                }
            }
        }
        if !matched {
            // consume one line of other text
            let end = t.find('\n').map(|i| i + 1).unwrap_or(t.len());
            other.push_str(&t[..end]);
            rest = &t[end..];
        }
    }
    if !other.trim().is_empty() {
        res.push(("other".to_string(), other));
    }
    res
}

fn same_model(a: &str, lib: &str, lib_debug: &str) -> bool {
    match Model::from_json(a) {
        Ok(m) => m.as_json().map(|s| s == lib).unwrap_or(false) && format!("{:?}", m) == lib_debug,
        Err(_) => false,
    }
}

pub fn project_dirs() -> Vec<PathBuf> {
    let mut v: Vec<PathBuf> = corpus_files("ctehexml").iter().filter_map(|p| p.parent().map(|d| d.to_path_buf())).collect();
    v.sort();
    v.dedup();
    v
}

fn run_one(bin_dir: &Path, tool: &str, target: &Path, extra: bool, kind_hint: &str, w: &mut Worker, scratch: &Path, out: &mut Vec<Value>, n: usize) {
    run_pre(bin_dir, tool, target, extra, kind_hint, w, scratch, out, n, (n / 3) % 3)
}

#[allow(clippy::too_many_arguments)]
fn run_pre(bin_dir: &Path, tool: &str, target: &Path, extra: bool, kind_hint: &str, w: &mut Worker, scratch: &Path, out: &mut Vec<Value>, n: usize, pre: usize) {
    let outfile = scratch.join(format!("thor_out_{}.json", n));
    let _ = std::fs::remove_file(&outfile);
    // the file named with -o may exist already (an earlier export): longer than the new document, shorter, or absent
    let mut preexisting = "none";
    if tool == "thor" {
        match pre {
            0 => {
                let mut old = String::from("{\"meta\": {\"name\": \"exportacion anterior\"}, \"relleno\": \"");
                old.push_str(&"x".repeat(3_000_000));
                old.push_str("\"}\n");
                let _ = std::fs::write(&outfile, old);
                preexisting = "longer";
            }
            1 => {
                let _ = std::fs::write(&outfile, "{}\n");
                preexisting = "shorter";
            }
            _ => {}
        }
    }
    // the library's own answer
    let ctehexml = if target.is_dir() {
        std::fs::read_dir(target).ok().and_then(|rd| rd.filter_map(|e| e.ok()).map(|e| e.path()).find(|p| p.extension().map_or(false, |x| x == "ctehexml")))
    } else {
        Some(target.to_path_buf())
    };
    let lib = if tool == "hulc2model" {
        w.call(&json!({"dir": target.to_string_lossy(), "extra": extra}), Duration::from_secs(60))
    } else {
        w.call(&json!({"file": ctehexml.clone().unwrap_or_default().to_string_lossy()}), Duration::from_secs(60))
    };
    let (lib_ok, lib_json, lib_debug) = match &lib {
        Ok(v) if v["ok"] == true => (true, v["json"].as_str().unwrap_or("").to_string(), v["debug"].as_str().unwrap_or("").to_string()),
        _ => (false, String::new(), String::new()),
    };
    let input = if kind_hint == "noproject" { "noproject" } else if lib_ok { "project" } else { "unconvertible" };
    let mut cmd = Command::new(bin_dir.join(tool));
    if tool == "hulc2model" {
        if extra {
            cmd.arg("--use-extra");
        }
        cmd.arg(target);
    } else {
        cmd.arg(ctehexml.clone().unwrap_or_else(|| target.join("missing.ctehexml"))).arg("-o").arg(&outfile);
    }
    cmd.env("RUST_BACKTRACE", "0").env_remove("RUST_LOG").current_dir(scratch);
    let res = cmd.output();
    let (code, stdout) = match res {
        Ok(o) => (o.status.code().unwrap_or(-1), String::from_utf8_lossy(&o.stdout).to_string()),
        Err(_) => (-2, String::new()),
    };
    out.push(json!({"ev": "Start", "tool": tool, "input": input, "extra": extra, "target": target.to_string_lossy(), "preexisting": preexisting,
        "liberr": lib.as_ref().ok().and_then(|v| v["err"].as_str().map(|s| s.chars().take(160).collect::<String>())).unwrap_or_default()}));
    for (kind, text) in chunks(&stdout) {
        let equal = kind == "json" && lib_ok && same_model(&text, &lib_json, &lib_debug);
        out.push(json!({"ev": "Stdout", "kind": kind, "equal": equal, "bytes": text.len(), "head": text.chars().take(200).collect::<String>()}));
    }
    if outfile.exists() {
        let text = std::fs::read_to_string(&outfile).unwrap_or_default();
        // an earlier export that this run left as it was is not an output of this run
        let untouched = preexisting != "none" && ((preexisting == "shorter" && text == "{}\n") || (preexisting == "longer" && text.len() > 3_000_000 && text.contains("exportacion anterior")));
        let is_model = Model::from_json(&text).is_ok() && text.trim_start().starts_with('{');
        out.push(json!({"ev": "OutFile", "kind": if is_model { "json" } else { "other" }, "equal": lib_ok && same_model(&text, &lib_json, &lib_debug), "bytes": text.len(), "untouched": untouched}));
        let _ = std::fs::remove_file(&outfile);
    }
    out.push(json!({"ev": "Exit", "code": code}));
}

pub fn main_cli(args: &Args) {
    let out_path = args.get("--out").unwrap_or_else(|| "work/cli.ndjson".to_string());
    let bin_dir = PathBuf::from(args.get("--bins").unwrap_or_else(|| "harness/target-repo/debug".to_string()));
    let scratch = PathBuf::from(args.get("--scratch").unwrap_or_else(|| "work/cli_scratch".to_string()));
    let _ = std::fs::create_dir_all(&scratch);
    let bin_dir = std::fs::canonicalize(&bin_dir).unwrap_or(bin_dir);
    let scratch = std::fs::canonicalize(&scratch).unwrap_or(scratch);
    let maxdirs = args.num("--max-dirs", 100);
    let mut w = Worker::new("cli");
    let mut out: Vec<Value> = vec![];
    let mut n = 0;
    let mut dirs = project_dirs();
    if let Some(extra_dirs) = args.get("--synthetic") {
        // directories written by the BDL printer (one project per sub directory)
        if let Ok(rd) = std::fs::read_dir(&extra_dirs) {
            let mut v: Vec<PathBuf> = rd.filter_map(|e| e.ok()).map(|e| e.path()).filter(|p| p.is_dir()).collect();
            v.sort();
            dirs.extend(v);
        }
    }
    dirs.truncate(maxdirs);
    for d in &dirs {
        for extra in [false, true] {
            run_one(&bin_dir, "hulc2model", d, extra, "project", &mut w, &scratch, &mut out, n);
            n += 1;
        }
        run_one(&bin_dir, "thor", d, false, "project", &mut w, &scratch, &mut out, n);
        n += 1;
    }
    // directories that hold no project
    let empty = scratch.join("empty_dir");
    let _ = std::fs::create_dir_all(&empty);
    let missing = scratch.join("does_not_exist");
    let broken = scratch.join("broken_project");
    let _ = std::fs::create_dir_all(&broken);
    let _ = std::fs::write(broken.join("broken.ctehexml"), "");
    for d in [&empty, &missing] {
        for extra in [false, true] {
            run_one(&bin_dir, "hulc2model", d, extra, "noproject", &mut w, &scratch, &mut out, n);
            n += 1;
        }
        // (whatever an earlier export left under the name given with -o)
        for pre in 0..3 {
            run_pre(&bin_dir, "thor", d, false, "noproject", &mut w, &scratch, &mut out, n, pre);
            n += 1;
        }
    }
    run_one(&bin_dir, "hulc2model", &broken, false, "project", &mut w, &scratch, &mut out, n);
    n += 1;
    for pre in 0..3 {
        run_pre(&bin_dir, "thor", &broken, false, "project", &mut w, &scratch, &mut out, n, pre);
        n += 1;
    }
    write_lines(&out_path, &out.iter().map(|e| e.to_string()).collect::<Vec<_>>());
    println!("{}", json!({"runs": n, "traces": n, "events": out.len(), "out": out_path}));
}
