"""A light, layout-preserving scanner of BDL text (as found in .ctehexml / .cte files): blocks, attributes,
reference edges; text mutations for C02 (broken references) and C19 (single-edit damage)."""
import re

HEADER = re.compile(r'^\s*"([^"]*)"\s*=\s*([A-Za-z][A-Za-z0-9/\-]*)\s*$')
ATTR = re.compile(r'^\s*([A-Za-z][A-Za-z0-9_/\-]*)\s*=\s*(.*)$')

# (block types, attribute) -> edge kind : the reference edges of the BDL schema
WALLS = ("EXTERIOR-WALL", "ROOF", "UNDERGROUND-WALL", "INTERIOR-WALL")
EDGES = [
    (("SPACE",), "POLYGON", "space->polygon"),
    (WALLS, "CONSTRUCTION", "wall->construction"),
    (WALLS, "POLYGON", "wall->polygon"),
    (("INTERIOR-WALL",), "NEXT-TO", "wall->nextto"),
    (("CONSTRUCTION",), "LAYERS", "construction->layers"),
    (("LAYERS",), "MATERIAL", "layers->material"),
    (("WINDOW",), "GAP", "window->gap"),
    (("GAP",), "GLASS-TYPE", "gap->glass"),
    (("GAP",), "NAME-FRAME", "gap->frame"),
    (("SPACE",), "SPACE-CONDITIONS", "space->spaceconds"),
    (("SPACE",), "SYSTEM-CONDITIONS", "space->systemconds"),
    (("SPACE-CONDITIONS",), "PEOPLE-SCHEDULE", "spaceconds->schedule"),
    (("SPACE-CONDITIONS",), "EQUIP-SCHEDULE", "spaceconds->schedule"),
    (("SPACE-CONDITIONS",), "LIGHTING-SCHEDULE", "spaceconds->schedule"),
    (("SYSTEM-CONDITIONS",), "COOL-TEMP-SCH", "systemconds->schedule"),
    (("SYSTEM-CONDITIONS",), "HEAT-TEMP-SCH", "systemconds->schedule"),
    (("SCHEDULE-PD",), "WEEK-SCHEDULES", "year->week"),
    (("WEEK-SCHEDULE-PD",), "DAY-SCHEDULES", "week->day"),
]


def bdl_span(text):
    """(start, end) offsets of the BDL section: inside <EntradaGraficaLIDER> for .ctehexml, whole text otherwise"""
    i = text.find("<EntradaGraficaLIDER>")
    if i < 0:
        return 0, len(text)
    j = text.find("</EntradaGraficaLIDER>", i)
    return i + len("<EntradaGraficaLIDER>"), (j if j > 0 else len(text))


def scan_blocks(lines):
    """blocks as dicts: name, type, start, end (line indexes, end = line of '..'), attrs [(key, first line, last line)]"""
    blocks = []
    cur = None
    for i, raw in enumerate(lines):
        l = raw.strip()
        if not l or l.startswith("$"):
            continue
        m = HEADER.match(l)
        if m and cur is None:
            cur = {"name": m.group(1), "type": m.group(2), "start": i, "attrs": []}
            continue
        if cur is not None:
            if l == "..":
                cur["end"] = i
                blocks.append(cur)
                cur = None
                continue
            a = ATTR.match(l)
            if a and not (cur["attrs"] and cur["attrs"][-1][3]):
                val = a.group(2)
                opened = val.count("(") - val.count(")") > 0
                cur["attrs"].append([a.group(1), i, i, opened])
            elif cur["attrs"]:
                cur["attrs"][-1][2] = i
                if ")" in l:
                    cur["attrs"][-1][3] = False
            if HEADER.match(l) and not (cur["attrs"] and cur["attrs"][-1][3]):
                # a header inside an unterminated block: start again (legacy files are irregular)
                cur = {"name": HEADER.match(l).group(1), "type": HEADER.match(l).group(2), "start": i, "attrs": []}
    return blocks


def reference_edges(lines, blocks=None):
    """every reference written in the text: dicts kind, block index, owner name/type, line range, names, live"""
    blocks = blocks if blocks is not None else scan_blocks(lines)
    out = []
    gaps_used, layers_used, cons_used = set(), set(), set()
    for b in blocks:
        for key, l0, l1, _ in b["attrs"]:
            txt = " ".join(lines[l0:l1 + 1])
            names = re.findall(r'"([^"]*)"', txt.split("=", 1)[1] if "=" in txt else txt)
            if b["type"] == "WINDOW" and key == "GAP":
                gaps_used.update(names)
            if b["type"] in WALLS and key == "CONSTRUCTION":
                cons_used.update(names)
                layers_used.update(names)
            if b["type"] == "CONSTRUCTION" and key == "LAYERS":
                layers_used.update(names)
    for bi, b in enumerate(blocks):
        for key, l0, l1, _ in b["attrs"]:
            for types, k, kind in EDGES:
                if b["type"] in types and key == k:
                    txt = " ".join(lines[l0:l1 + 1])
                    rhs = txt.split("=", 1)[1] if "=" in txt else ""
                    names = re.findall(r'"([^"]*)"', rhs)
                    if not names:
                        continue
                    live = True
                    if b["type"] == "GAP":
                        live = b["name"] in gaps_used
                    if b["type"] == "LAYERS":
                        live = b["name"] in layers_used
                    if b["type"] == "CONSTRUCTION":
                        live = b["name"] in cons_used
                    out.append({"kind": kind, "block": bi, "owner": b["name"], "otype": b["type"], "key": key,
                                "l0": l0, "l1": l1, "names": names, "live": live})
    return out


def break_reference(lines, edge, which=0, newname="NO_EXISTE_VERIF"):
    """copy of lines with the `which`-th name of the reference replaced by a name that is defined nowhere"""
    out = list(lines)
    count = -1
    for li in range(edge["l0"], edge["l1"] + 1):
        parts = out[li].split("=", 1) if li == edge["l0"] else ["", out[li]]
        head, rhs = (parts[0] + "=", parts[1]) if li == edge["l0"] and len(parts) == 2 else ("", out[li])

        def repl(m):
            nonlocal count
            count += 1
            return '"%s"' % newname if count == which else m.group(0)
        new_rhs = re.sub(r'"[^"]*"', repl, rhs)
        out[li] = head + new_rhs
        if count >= which:
            break
    return out


def remove_block(lines, block):
    return lines[:block["start"]] + lines[block["end"] + 1:]
