"""C04: the JSON model format. The serde field protocol is extracted from the source tree, model-checked
(JsonFormat.tla) and bound to the implementation: instances of every struct with every field in every value
class are serialised by the real code (key presence vs. schema), generated / shipped / converted models are
round-tripped."""
import copy
import itertools
import json
import os
import random

from common import *
from simple_checks import generic_trace_check
import serde_schema

U = lambda n: "00000000-0000-0000-0000-%012d" % n

# a fully populated, non-default instance of every struct (the "other" class of every field)
def base_instances():
    geom = {"tilt": 90.0, "azimuth": 45.0, "position": [1.0, 2.0, 3.0], "polygon": [[0.0, 0.0], [2.0, 0.0], [2.0, 3.0], [0.0, 3.0]]}
    return {
        "Space": {"id": U(1), "name": "E1", "multiplier": 2.0, "kind": "UNINHABITED", "inside_tenv": False, "height": 2.7, "z": 1.5,
                  "loads": U(31), "thermostat": U(41), "n_v": 0.6, "illuminance": 300.0},
        "Wall": {"id": U(2), "name": "W1", "bounds": "INTERIOR", "cons": U(11), "space": U(1), "next_to": U(1), "geometry": geom},
        "Shade": {"id": U(3), "name": "S1", "geometry": geom},
        "WallGeom": geom,
        "Window": {"id": U(4), "name": "V1", "cons": U(12), "wall": U(2), "geometry": {"position": [0.5, 1.0], "height": 1.2, "width": 1.5, "setback": 0.2}},
        "WinGeom": {"position": [0.5, 1.0], "height": 1.2, "width": 1.5, "setback": 0.2},
        "ThermalBridge": {"id": U(5), "name": "T1", "kind": "ROOF", "l": 12.5, "psi": 0.35},
        "WallCons": {"id": U(11), "name": "C1", "layers": [{"material": U(13), "e": 0.2}], "absorptance": 0.55},
        "WinCons": {"id": U(12), "name": "VC1", "glass": U(14), "frame": U(15), "f_f": 0.25, "delta_u": 10.0, "g_glshwi": 0.3, "c_100": 27.0},
        "Glass": {"id": U(14), "name": "G1", "u_value": 2.8, "g_gln": 0.7},
        "Frame": {"id": U(15), "name": "F1", "u_value": 2.2, "absorptivity": 0.65},
        "Meta": {"name": "Proyecto", "is_new_building": False, "is_dwelling": False, "num_dwellings": 3, "climate": "B4",
                 "global_ventilation_l_s": 55.0, "n50_test_ach": 4.5, "d_perim_insulation": 1.0, "rn_perim_insulation": 1.5},
        "SpaceLoads": {"id": U(31), "name": "L1", "area_per_person": 12.0, "people_schedule": U(51), "people_sensible": 3.5, "people_latent": 2.0,
                       "equipment": 4.0, "equipment_schedule": U(51), "lighting": 5.0, "lighting_schedule": U(51)},
        "Thermostat": {"id": U(41), "name": "TH1", "temp_max": U(51), "temp_min": U(51)},
        "Schedule": {"id": U(51), "name": "Y1", "values": [[U(52), 365]]},
        "ScheduleWeek": {"id": U(52), "name": "WK1", "values": [[U(53), 7]]},
        "ScheduleDay": {"id": U(53), "name": "D1", "values": [0.5] * 24},
    }


def type_classes(t):
    """the values of a type that a skip rule or a load default could single out, whatever rule the field declares"""
    if t.startswith("Option<"):
        return ["none"] + type_classes(t[len("Option<"):-1])
    if t == "String" or t.startswith("Vec<") or t.startswith("BTreeMap<"):
        return ["empty", "other"]
    if t == "f32":
        return ["zero", "one", "other"]
    if t == "bool":
        return ["zero", "true"]
    return ["other"]


CLASS_VALUE = {
    ("bool", "zero"): False, ("f32", "zero"): 0.0, ("f32", "one"): 1.0, ("bool", "true"): True, ("String", "empty"): "", ("SpaceType", "zero"): "CONDITIONED",
    ("ThermalBridgeKind", "zero"): "GENERIC",
}


def value_for(ftype, cls, other):
    """(present in input?, value)"""
    if cls == "other":
        return True, other
    if cls == "none":
        return False, None
    if cls == "empty":
        if ftype == "String":
            return True, ""
        return True, []
    if (ftype, cls) in CLASS_VALUE:
        return True, CLASS_VALUE[(ftype, cls)]
    return None, None


WHERE = {"Space": "spaces", "Wall": "walls", "Shade": "shades", "Window": "windows", "ThermalBridge": "thermal_bridges",
         "WallCons": "cons.wallcons", "WinCons": "cons.wincons", "Glass": "cons.glasses", "Frame": "cons.frames",
         "SpaceLoads": "loads", "Thermostat": "thermostats", "Schedule": "schedules.year", "ScheduleWeek": "schedules.week", "ScheduleDay": "schedules.day"}


def put(model, path, items):
    cur = model
    parts = path.split(".")
    for p in parts[:-1]:
        cur = cur.setdefault(p, {})
    cur[parts[-1]] = items


def get(model, path):
    cur = model
    for p in path.split("."):
        if not isinstance(cur, dict) or p not in cur:
            return None
        cur = cur[p]
    return cur


def run_c04(tier, replay=None):
    quick = tier == "quick"
    schema_file = os.path.join(WORK, "C04_schema.ndjson")
    os.makedirs(WORK, exist_ok=True)
    rows = serde_schema.tla_schema(serde_schema.extract(REPO))
    write_ndjson(schema_file, rows)
    os.environ["SCHEMA"] = schema_file
    byrow = {(r["struct"], r["field"]): r for r in rows}

    def record(wd, tier, cases_file, payload):
        trace = os.path.join(wd, "trace.ndjson")
        reqf = os.path.join(wd, "reqs.ndjson")
        rng = random.Random(seed())
        base = base_instances()
        reqs, meta = [], []
        # (1) every struct that lives in a collection: every class vector of its skippable / optional fields
        for struct, where in WHERE.items():
            fields = [r for r in rows if r["struct"] == struct]
            vary = [r for r in fields if r["skip"] != "never" or r["load"] == "none"]
            choices = []
            for r in vary:
                cl = ["other"] + sorted(({c for c in (r["skip"], r["load"]) if c not in ("never", "error") and not c.startswith(("unknown:", "fn:"))}
                                         | set(type_classes(r["type"]))) - {"other"})
                choices.append([(r, c) for c in cl])
            nvec = 1
            for c in choices:
                nvec *= len(c)
            cap = 40 if quick else 3000
            if nvec > cap:
                # every class of every field at least once, the rest drawn at random
                vectors = [tuple(rng.choice(c) for c in choices) for _ in range(cap)]
                for k, c in enumerate(choices):
                    for j, pick in enumerate(c):
                        v = list(vectors[(k * 7 + j) % cap])
                        v[k] = pick
                        vectors[(k * 7 + j) % cap] = tuple(v)
            else:
                vectors = list(itertools.product(*choices)) if choices else [()]
            instances, desc = [], []
            for n, vec in enumerate(vectors):
                inst = copy.deepcopy(base[struct])
                inst["id"] = U(1000 + n)
                d = []
                for r, cls in vec:
                    present, val = value_for(r["type"].replace("Option<", "").rstrip(">") if cls != "none" else r["type"], cls, base[struct].get(r["field"]))
                    if present is None:
                        continue
                    if present:
                        inst[r["field"]] = val
                    else:
                        inst.pop(r["field"], None)
                    d.append({"field": r["field"], "class": cls})
                instances.append(inst)
                desc.append(d)
            model = {"meta": copy.deepcopy(base["Meta"])}
            put(model, where, instances)
            reqs.append({"id": len(meta), "json": json.dumps(model), "want_out": True})
            meta.append(("keys", struct, where, desc))
        # Meta and Model themselves
        for n in range(8 if quick else 64):
            model = {"meta": copy.deepcopy(base["Meta"])}
            d = []
            for r in [x for x in rows if x["struct"] == "Meta" and (x["skip"] != "never" or x["load"] == "none")]:
                cls = rng.choice(["other"] + sorted(({c for c in (r["skip"], r["load"]) if c not in ("never", "error") and not c.startswith(("unknown:", "fn:"))}
                                                     | set(type_classes(r["type"]))) - {"other"}))
                present, val = value_for(r["type"].replace("Option<", "").rstrip(">") if cls != "none" else r["type"], cls, base["Meta"].get(r["field"]))
                if present is None:
                    continue
                if present:
                    model["meta"][r["field"]] = val
                else:
                    model["meta"].pop(r["field"], None)
                d.append({"field": r["field"], "class": cls})
            reqs.append({"id": len(meta), "json": json.dumps(model), "want_out": True})
            meta.append(("metakeys", d))
        # the optional list of the model itself: absent, present and empty, present with an item
        xitem = {"name": "W1", "bounds": "EXTERIOR", "spacetype": "CONDITIONED", "nextspace": None, "nextspacetype": None, "tilt": "SIDE", "cons": U(11), "u": 0.5, "computed_u": 0.625}
        for cls, val in (("none", None), ("empty", []), ("other", [xitem])):
            model = {"meta": copy.deepcopy(base["Meta"])}
            if val is not None:
                model["extra"] = val
            reqs.append({"id": len(meta), "json": json.dumps(model), "want_out": True})
            meta.append(("modelkeys", [{"field": "extra", "class": cls}]))
        # (2) material variants (flattened untagged enum): both variants, and every field at the values a skip rule or a
        # load default could single out (0, 1, the documented defaults 1000 / 800, another value; optional field absent)
        mats = []
        n = 0
        for cond, dens, cp, vd in itertools.product([0.0, 1.0, 0.5], [0.0, 1.0, 900.0], [0.0, 1.0, 800.0, 1000.0, 1234.5], [None, 0.0, 1.0, 12.0]):
            m = {"id": U(2000 + n), "name": "M%d" % n, "conductivity": cond, "density": dens, "specific_heat": cp}
            if vd is not None:
                m["vapour_diff"] = vd
            mats.append(m)
            n += 1
        for r, vd in itertools.product([0.0, 1.0, 0.18], [None, 0.0, 12.0]):
            m = {"id": U(2000 + n), "name": "M%d" % n, "resistance": r}
            if vd is not None:
                m["vapour_diff"] = vd
            mats.append(m)
            n += 1
        model = {"meta": copy.deepcopy(base["Meta"]), "cons": {"materials": mats},
                 "overrides": {"walls": {U(2): {"u_value": 0.5}, U(3): {}}, "windows": {U(4): {"u_value": 1.5, "f_shobst": 0.8}, U(5): {"f_shobst": 0.5}}}}
        reqs.append({"id": len(meta), "json": json.dumps(model), "want_out": True})
        meta.append(("materials", mats, model["overrides"]))
        # (2b) containers that are omitted as a whole when "empty" (ConsDb, SchedulesDb, PropsOverrides): every pattern of
        # empty / non-empty members; the key must be there exactly when some member has content, and nothing may be lost
        containers = {"cons": [("wallcons", "WallCons"), ("wincons", "WinCons"), ("materials", None), ("glasses", "Glass"), ("frames", "Frame")],
                      "schedules": [("year", "Schedule"), ("week", "ScheduleWeek"), ("day", "ScheduleDay")],
                      "overrides": [("walls", None), ("windows", None)]}
        for cname, members in containers.items():
            for pattern in itertools.product([False, True], repeat=len(members)):
                model = {"meta": copy.deepcopy(base["Meta"])}
                cont = {}
                for (mname, struct), on in zip(members, pattern):
                    if not on:
                        continue
                    if cname == "overrides":
                        cont[mname] = {U(7): {"u_value": 0.5}} if mname == "walls" else {U(8): {"f_shobst": 0.8}, U(9): {"u_value": 1.25}}
                    elif struct is None:
                        cont[mname] = [{"id": U(2100), "name": "M", "resistance": 0.18}]
                    else:
                        cont[mname] = [copy.deepcopy(base[struct])]
                if cont or rng.random() < 0.5:
                    model[cname] = cont
                reqs.append({"id": len(meta), "json": json.dumps(model), "want_out": True})
                meta.append(("container", cname, any(pattern), cont))
        # (3) shipped model files
        ddir = os.path.join(REPO, "bemodel/tests/data")
        for p in sorted(os.listdir(ddir)):
            if p.endswith(".json"):
                reqs.append({"id": len(meta), "path": os.path.join(ddir, p)})
                meta.append(("shipped", p))
        # (3b) models produced by the converter: every shipped project as converted (thorough: all 68; quick: the 12 .ctehexml),
        # and the project directories with the overrides / extra data of HULC's result files
        from convert_checks import corpus_project_files
        for f, ext in corpus_project_files():
            if quick and ext != "ctehexml":
                continue
            reqs.append({"id": len(meta), "convert": f, "fmt": ext})
            meta.append(("converted", os.path.relpath(f, REPO)))
        for d in sorted({os.path.dirname(f) for f, ext in corpus_project_files() if ext == "ctehexml"}):
            reqs.append({"id": len(meta), "collect": d})
            meta.append(("collected", os.path.relpath(d, REPO)))
        # (4) random full models with random floats (incl. subnormals, -0.0, 1e30)
        specials = [0.0, 1.0, 1e30, 1e-40, 0.1, 123456.79, 3.4028235e38, 1e-7]
        for n in range(20 if quick else 4000):
            model = {"meta": copy.deepcopy(base["Meta"])}
            for struct, where in WHERE.items():
                inst = copy.deepcopy(base[struct])
                for k, v in list(inst.items()):
                    if isinstance(v, float) and rng.random() < 0.5:
                        inst[k] = rng.choice(specials) if rng.random() < 0.5 else rng.uniform(-1e3, 1e3)
                put(model, where, [inst])
            reqs.append({"id": len(meta), "json": json.dumps(model)})
            meta.append(("random", n))
        # (4b) every number of every struct at the 32-bit neighbours of the values a skip rule or a default could single out
        # (a predicate written "close to 1" or "close to 0" omits a value that is not the default)
        for near in (0.99999994, 1.0000001, 1e-45, -1e-45, 1.1754944e-38):
            model = {"meta": copy.deepcopy(base["Meta"])}
            for k, v in list(model["meta"].items()):
                if isinstance(v, float):
                    model["meta"][k] = near
            for struct, where in WHERE.items():
                inst = copy.deepcopy(base[struct])
                for k, v in list(inst.items()):
                    if isinstance(v, float):
                        inst[k] = near
                put(model, where, [inst])
            reqs.append({"id": len(meta), "json": json.dumps(model)})
            meta.append(("random", "near %r" % near))
        write_ndjson(reqf, reqs)
        vh(["jsonfmt", "--reqs", reqf, "--out", trace + ".raw"], timeout=3600)
        events = []
        for ans in read_ndjson(trace + ".raw"):
            mt = meta[ans["id"]]
            if ans.get("skip"):
                continue            # a project the converter rejects is not a model
            rt = {"ev": "Roundtrip", "src": mt[0] + (":" + str(mt[1]) if mt[0] in ("keys", "shipped", "random", "converted", "collected", "modelkeys") else ""), "loads": ans["loads"],
                  "debug_equal": ans["debug_equal"], "text_equal": ans["text_equal"], "value_equal": ans["value_equal"], "shipped": mt[0] == "shipped",
                  "err": ans.get("err", "")}
            events.append(rt)
            out = ans.get("out")
            if mt[0] == "keys" and isinstance(out, dict):
                items = get(out, mt[2]) or []
                for inst, d in zip(items, mt[3]):
                    events.append({"ev": "Keys", "struct": mt[1], "fields": [{"field": x["field"], "class": x["class"], "present": x["field"] in inst} for x in d]})
            if mt[0] == "modelkeys" and isinstance(out, dict):
                events.append({"ev": "Keys", "struct": "Model", "fields": [{"field": x["field"], "class": x["class"], "present": x["field"] in out} for x in mt[1]]})
            if mt[0] == "metakeys" and isinstance(out, dict):
                events.append({"ev": "Keys", "struct": "Meta", "fields": [{"field": x["field"], "class": x["class"], "present": x["field"] in out.get("meta", {})} for x in mt[1]]})
            if mt[0] == "container" and isinstance(out, dict):
                events.append({"ev": "Keys", "struct": "Model", "fields": [{"field": mt[1], "class": "other" if mt[2] else "empty", "present": mt[1] in out}]})
                oc = out.get(mt[1]) or {}
                # a member that is empty may be written as an empty collection or left out
                same = all((oc.get(k) or None) == (mt[3].get(k) or None) for k in set(oc) | set(mt[3]))
                events.append({"ev": "Roundtrip", "src": "container " + mt[1], "loads": ans["loads"], "debug_equal": ans["debug_equal"] and same,
                               "text_equal": ans["text_equal"], "value_equal": same, "shipped": True, "err": ""})
            if mt[0] == "materials" and isinstance(out, dict):
                got = (out.get("cons") or {}).get("materials") or []
                same = got == mt[1] and out.get("overrides") == mt[2]
                events.append({"ev": "Roundtrip", "src": "material variants + overrides", "loads": ans["loads"], "debug_equal": ans["debug_equal"] and same,
                               "text_equal": ans["text_equal"], "value_equal": same, "shipped": True, "err": ""})
        write_ndjson(trace, events)
        return trace, {"requests": len(reqs), "traces": len(events)}

    def ctl_key(ev):
        for e in ev:
            if e["ev"] == "Keys":
                for f in e["fields"]:
                    if not f["present"]:
                        f["present"] = True
                        return [e], "a default-valued field written although its rule says skip", "KeyWrittenIffNotInSkipClass"

    def ctl_round(ev):
        for e in ev:
            if e["ev"] == "Roundtrip" and e["loads"]:
                e["debug_equal"] = False
                return [e], "reloaded model differs in one field", "LoadedBackEqualInEveryField"

    return generic_trace_check(
        "C04", tier, replay,
        mc=[("MC_JsonFormat", "MC_JsonFormat.cfg", "MC_JsonFormat.cfg", 2, None)], mc_soft=True,
        record=record, trace_module="Trace_JsonFormat",
        controls=[ctl_key, ctl_round],
        nontrivial=lambda events: set(json.dumps(e, sort_keys=True)[:300] for e in events),
        rule="Keys: instances of every collection struct with every (quick: 40 sampled) class vector of its skippable/optional fields, serialised by the real code; Roundtrip: those models, material variants and overrides, the 7 shipped files, random models with special floats; distinct by event content",
        samples_of=lambda events: [e for e in events if e["ev"] == "Keys"][:2] + [e for e in events if e["ev"] == "Roundtrip"][:3],
        key_of=lambda e, name: "%s:%s" % (name, e.get("struct") or e.get("src")),
        checker_cmd="SCHEMA=work/C04_schema.ndjson tlc MC_JsonFormat.cfg; tlc Trace_JsonFormat.cfg (TRACE=work/C04/trace.ndjson)",
        trusted=["TLC 1.8.0", "serde attribute extractor (lib/serde_schema.py) and its mapping of rule names to value classes", "instance generator (lib/json_checks.py)", "harness jsonfmt.rs (Debug text equality, serde_json::Value equality)"],
        assumptions=["equality of models is equality of their derived Debug text (Model has no PartialEq)", "the fidelity of serde_json's float printer is exercised, not decided", "-0.0 is not generated: a field omitted because it equals its default 0.0 loads back as +0.0, which is equal as a number but prints differently"])
