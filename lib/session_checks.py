"""C08 C09 C10 C11 C14 C15 C16: Session / ModelGraph / Indicators specifications bound to the real library by
(B1) replay of TLC-generated models and (B2) trace validation of recorded executions."""
import copy
import json
import shutil
import os

from common import *

MC_FOR = {
    "C08": ["walls"], "C09": ["walls"], "C10": ["wins"], "C11": ["walls"],
    "C14": ["walls", "wins"], "C15": ["walls", "wins"], "C16": ["walls", "wins", "use"],
}
INVARIANTS_FOR = {
    "C08": "InvPurgeKeepsIndicators InvOrderIndependent (K area and A.U sums are independent of element order and of purge)",
    "C09": "InvPurgeKeepsIndicators InvOrderIndependent (Ao, Ah, Ch.Ah)",
    "C10": "InvPurgeKeepsIndicators InvOrderIndependent (solar gains, window area)",
    "C11": "InvTenvNeedsSpace InvPurgeKeepsIndicators (A_ref, volumes, exposed area)",
    "C14": "NeverPoisoned TypeOK (Compute is a stuttering step: total and pure)",
    "C15": "InvClosedNoWarnings InvPurgeKeepsWarnings",
    "C16": "InvPurgeImplIsSpec InvPurgeIdempotent InvPurgeKeepsClosure InvPurgeKeepsWarnings InvRemovedUnused InvPurgeKeepsIndicators",
}


def corrupt(prop, events):
    """Negative control: falsify one recorded field that the property constrains. Returns (events, description)."""
    ev = copy.deepcopy(events)
    for i, e in enumerate(ev):
        if prop in ("C08", "C09", "C10", "C11") and e["ev"] == "Compute" and e.get("outcome") == "ok" and e.get("numeric"):
            x = e["model"]
            if len(set(w["id"] for w in x["walls"])) != len(x["walls"]):
                continue
            if prop == "C08" and e["k"]["sum"]["a"] > 100:
                e["k"]["K"] += 60
                return ev, "line %d: K + 0.006" % (i + 1)
            if prop == "C09" and e["n50"]["vol"] > 0 and e["n50"]["wa"] > 100:
                e["n50"]["n50ref"] += 60
                return ev, "line %d: n50_ref + 0.006" % (i + 1)
            if prop == "C10" and e["q"]["awp"] > 10 and e["glob"]["aref"] > 0:
                e["q"]["Q"] = int(e["q"]["Q"] * 1.01) + 3
                return ev, "line %d: Q_soljul * 1.01" % (i + 1)
            if prop == "C11" and e["glob"]["aref"] > 100:
                e["glob"]["aref"] += 3
                return ev, "line %d: A_ref + 0.03 m2" % (i + 1)
        if prop == "C15" and e["ev"] == "Check" and e.get("outcome") == "ok":
            e["warn"].append([12345, "space"])
            return ev, "line %d: one extra warning" % (i + 1)
        if prop == "C16" and e["ev"] == "Purge" and e.get("outcome") == "ok" and e["after"]["spaces"]:
            e["after"]["spaces"] = e["after"]["spaces"][1:]
            return ev, "line %d: one more space removed than PurgeSpec allows" % (i + 1)
        if prop == "C14" and e["ev"] == "Compute" and e.get("outcome") == "ok":
            e["outcome"] = "panic"
            e["site"] = "negative-control"
            return ev, "line %d: outcome ok -> panic" % (i + 1)
    return None, "no event to corrupt"


UUID_RE = __import__("re").compile(r"^[0-9a-f]{8}-[0-9a-f]{4}-[0-9a-f]{4}-[0-9a-f]{4}-[0-9a-f]{12}$")


def tree_nodes(v, path=()):
    """all (path, node) pairs of a JSON tree"""
    yield path, v
    if isinstance(v, dict):
        for k in v:
            yield from tree_nodes(v[k], path + (k,))
    elif isinstance(v, list):
        for i, x in enumerate(v):
            yield from tree_nodes(x, path + (i,))


def possible_edits(doc):
    """single structural edits: (kind, path)"""
    ids = sorted({n for _, n in tree_nodes(doc) if isinstance(n, str) and UUID_RE.match(n)})
    out = []
    for path, node in tree_nodes(doc):
        if not path:
            continue
        if isinstance(path[-1], str):
            out.append(("delete_key", path))
        else:
            out.append(("delete_item", path))
        if isinstance(node, list):
            out += [("empty_array", path), ("duplicate_array", path), ("truncate_array", path)]
        elif isinstance(node, str) and UUID_RE.match(node):
            out += [("redirect_nil", path), ("redirect_absent", path), ("redirect_other", path)]
        elif isinstance(node, (int, float)) and not isinstance(node, bool):
            out += [("zero", path), ("negate", path)]
    return out, ids


def apply_edit(doc, kind, path, ids, rng):
    cur = doc
    for p in path[:-1]:
        cur = cur[p]
    k = path[-1]
    try:
        if kind in ("delete_key", "delete_item"):
            del cur[k]
        elif kind == "empty_array":
            cur[k] = []
        elif kind == "duplicate_array":
            cur[k] = cur[k] + copy.deepcopy(cur[k])
        elif kind == "truncate_array":
            cur[k] = cur[k][:len(cur[k]) // 2]
        elif kind == "redirect_nil":
            cur[k] = "00000000-0000-0000-0000-000000000000"
        elif kind == "redirect_absent":
            cur[k] = "deadbeef-dead-beef-dead-beefdeadbeef"
        elif kind == "redirect_other":
            cur[k] = rng.choice(ids)
        elif kind == "zero":
            cur[k] = 0 if isinstance(cur[k], int) else 0.0
        elif kind == "negate":
            cur[k] = -cur[k]
    except (KeyError, IndexError, TypeError):
        return False
    return True


def json_tree_edits(quick):
    import random
    rng = random.Random(seed())
    ddir = os.path.join(REPO, "bemodel/tests/data")
    files = sorted(f for f in os.listdir(ddir) if f.endswith(".json"))
    probe = open(os.path.join(ddir, "cubo.json")).read()
    reqs = []
    for fn in files:
        base = json.load(open(os.path.join(ddir, fn)))
        edits, ids = possible_edits(base)
        if quick:
            singles = rng.sample(edits, min(len(edits), 70))
            multi = 25
        else:
            # every single edit of the structural part (schedule day values are thousands of plain numbers: sampled)
            singles = [e for e in edits if not (len(e[1]) >= 3 and e[1][0] == "schedules" and e[1][1] == "day" and "values" in e[1])]
            singles += rng.sample([e for e in edits if e not in singles], 200) if len(edits) > len(singles) else []
            if len(singles) > 6000:
                singles = rng.sample(singles, 6000)
            multi = 600
        for kind, path in singles:
            doc = copy.deepcopy(base)
            if apply_edit(doc, kind, path, ids, rng):
                reqs.append({"json": json.dumps(doc), "ops": ["compute_lite"], "lite": True, "probe_json": probe,
                             "name": fn, "edit": "%s %s" % (kind, "/".join(str(p) for p in path))})
        for _ in range(multi):
            doc = copy.deepcopy(base)
            desc = []
            for _ in range(rng.choice([2, 3])):
                ed, ids2 = possible_edits(doc)
                kind, path = rng.choice(ed)
                if apply_edit(doc, kind, path, ids2 or ids, rng):
                    desc.append("%s %s" % (kind, "/".join(str(p) for p in path)))
            reqs.append({"json": json.dumps(doc), "ops": ["compute_lite"], "lite": True, "probe_json": probe, "name": fn, "edit": " ; ".join(desc)})
        # edits that belong together: every space (or every space but one outside the envelope) is uninhabited and no building-wide
        # ventilation flow is given: a building with windows and a reference area of 0
        if base.get("spaces"):
            for how in ("all", "habitable one outside", "all, flow kept"):
                doc = copy.deepcopy(base)
                for sp in doc["spaces"]:
                    sp["kind"] = "UNINHABITED"
                if how == "habitable one outside":
                    doc["spaces"][-1]["kind"] = "CONDITIONED"
                    doc["spaces"][-1]["inside_tenv"] = False
                if how == "all, flow kept":
                    doc.setdefault("meta", {})["global_ventilation_l_s"] = 50.0
                else:
                    doc.get("meta", {}).pop("global_ventilation_l_s", None)
                reqs.append({"json": json.dumps(doc), "ops": ["compute_lite"], "lite": True, "probe_json": probe, "name": fn,
                             "edit": "spaces uninhabited (%s) ; building-wide ventilation flow %s" % (how, "kept" if how == "all, flow kept" else "removed")})
        # two edits that belong together: a space takes another load profile, and a daily schedule gets one value more or
        # fewer than 24 (profiles of different lengths meeting on the same day)
        loads = [l.get("id") for l in base.get("loads", [])]
        days = base.get("schedules", {}).get("day", [])
        if len(loads) >= 2 and days and base.get("spaces"):
            combos = [(si, di, how) for si in range(len(base["spaces"])) for di in range(len(days)) for how in ("longer", "shorter")]
            if len(combos) > (400 if quick else 4000):
                combos = rng.sample(combos, 400 if quick else 4000)
            for si, di, how in combos:
                doc = copy.deepcopy(base)
                sp = doc["spaces"][si]
                others = [x for x in loads if x != sp.get("loads")]
                sp["loads"] = others[(si + di) % len(others)]
                d = doc["schedules"]["day"][di]
                if not d.get("values"):
                    continue
                d["values"] = d["values"] + [d["values"][-1]] if how == "longer" else d["values"][:23]
                reqs.append({"json": json.dumps(doc), "ops": ["compute_lite"], "lite": True, "probe_json": probe, "name": fn,
                             "edit": "loads of %s redirected ; day schedule %s has %d values" % (sp.get("name"), d.get("name"), len(d.get("values", [])))})
    return reqs


def model_name(events, line):
    for i in range(line - 1, -1, -1):
        if events[i]["ev"] == "Load":
            return events[i].get("name", "?"), i
    return "?", 0


def fail_key(events, line, name):
    e = events[line - 1]
    if e["ev"] == "ComputeLite":
        if e.get("outcome") != "ok":
            return "%s:%s" % (name, (e.get("site") or "").split("|")[0])
        return "%s:%s" % (name, ",".join(sorted(set(n.split("[")[0] for n in e.get("nonfinite", [])))) or e.get("name"))
    mname, _ = model_name(events, line)
    detail = ""
    if e["ev"] == "Compute":
        if e.get("outcome") != "ok":
            detail = (e.get("site") or "").split("|")[0]
            # a panic site identifies the defect whatever the input
            return "%s:%s" % (name, detail)
        if name in ("FiniteOnSaneModels", "ResultRoundtripsOnSaneModels", "FiniteWithoutWindows"):
            detail = ",".join(sorted(set(n.split(".detail.")[0] for n in e.get("nonfinite", []))))
            return "%s:%s" % (name, detail)
        if name == "VentilationRateReportedIsTheOneUsed":
            return "%s:%s" % (name, "reported=" + ("inf" if e["glob"]["gvr_raw"] == "inf" else "other"))
    return "%s:%s" % (name, mname)


def run_session_check(prop, tier, replay=None):
    R = Result(prop, tier)
    build_harness()
    wd = workdir(prop)
    quick = tier == "quick"
    cases_file = os.path.join(wd, "cases.ndjson")
    ncases = 0
    if replay is None:
        # (i) the design: exhaustive small instances
        for inst in MC_FOR[prop]:
            cfg = "MC_Session_%s%s.cfg" % (inst, "_q" if quick else "")
            res = mc_ok(tlc("MC_Session_" + inst, cfg, prop + "_" + inst, workers=8, timeout=3000), cfg)
            if res["violated"]:
                raise ToolError("design-level invariant violated in %s: %s (a counterexample in the model is not a "
                                "violation of the code; fix the specification)" % (cfg, res["violated"]))
            R.add_mc(cfg, res)
        # (ii) B1: completed models of the full instance, generated by TLC simulation, become implementation tests
        num = 40 if quick else 600
        res = mc_ok(tlc("MC_Session_full", "MC_Session_full_q.cfg" if quick else "MC_Session_full.cfg", prop + "_full",
                        workers=4, simulate="num=%d" % num, extra=["-depth", "80", "-seed", str(seed())], timeout=3000),
                    "MC_Session_full simulate")
        if res["violated"]:
            raise ToolError("design-level invariant violated in simulation: %s" % res["violated"])
        R.add_mc("MC_Session_full(simulate)", res)
        seen, cases = set(), []
        for c in res["cases"]:
            k = json.dumps(c, sort_keys=True)
            if k not in seen:
                seen.add(k)
                cases.append(c)
        write_ndjson(cases_file, cases)
        ncases = len(cases)
    # C14: models reached by 1..3 structural edits of the JSON tree of the shipped models
    edits_file = os.path.join(wd, "edits.reqs")
    if prop == "C14" and replay is None:
        write_ndjson(edits_file, json_tree_edits(quick))
    # (iii) record executions of the real library
    trace = os.path.join(wd, "trace.ndjson")
    if replay is not None:
        payload = json.load(open(replay))
        reqf = os.path.join(wd, "replay.reqs")
        write_ndjson(reqf, payload["requests"])
        stats = vh(["session", "--reqs", reqf, "--random", "0", "--broken", "0", "--out", trace])
    else:
        nr, nb = (60, 60) if quick else (1500, 1500)
        extra = ["--reqs", edits_file] if prop == "C14" else []
        if prop == "C14":
            # geometric models (buildings with windows that see the sun, shades, set-back windows, elements without position,
            # brise-soleils of equal slats): the obstruction computation is part of the indicators and must terminate on them
            geo = os.path.join(wd, "geo")
            shutil.rmtree(geo, ignore_errors=True)
            vh(["shading", "--generated", "27" if quick else "360", "--dump-only", geo, "--out", os.path.join(wd, "unused.ndjson")], timeout=600)
            extra += ["--models-dir", geo, "--variants"]
        stats = vh(["session", "--corpus", "--cases", cases_file, "--random", str(nr), "--broken", str(nb),
                    "--size", "4" if quick else "6", "--out", trace] + extra, timeout=7200)
    events = read_ndjson(trace)
    reqs = {(r.get("name") if not r.get("lite") else "%s|%s" % (r.get("name"), r.get("edit"))): r for r in read_ndjson(trace + ".reqs")}
    # (iv) validate against the specification
    fails, consumed, res = validate_trace("Trace_Session", trace, prop, prop + "_trace", timeout=7200)
    if not consumed:
        raise ToolError("trace not consumed: %s\n%s" % (res["unmatched"], res["out"][-1500:]))
    ncompute = sum(1 for e in events if e["ev"] == "Compute")
    nmodels = sum(1 for e in events if e["ev"] == "Load")
    R.cov["traces_validated_against_impl"] = nmodels
    R.cov["evaluations"] = len(events)
    for line, p, name in fails:
        if p != prop:
            continue
        key = fail_key(events, line, name)
        mname, li = model_name(events, line)
        e = events[line - 1]
        if e["ev"] == "ComputeLite":
            mname = "%s after [%s]" % (e.get("name"), e.get("edit"))
        what = "%s fails on %s (trace line %d): %s" % (name, mname, line, json.dumps(
            {k: e.get(k) for k in ("outcome", "site", "nonfinite", "bad", "warn") if k in e})[:300])
        rq = [reqs[mname]] if mname in reqs else []
        if e["ev"] == "ComputeLite":
            rq = [r for r in reqs.values() if r.get("edit") == e.get("edit") and r.get("name") == e.get("name")][:1]
        R.violation(key, what, {"requests": rq, "event": e if len(json.dumps(e)) < 20000 else {"ev": e["ev"]},
                                "obligation": name, "cmd": "./bin/check %s --replay {path}" % prop})
    # (v) negative control: the binding must be able to reject
    if replay is None and not R.violations:
        bad, desc = corrupt(prop, events)
        if bad is None:
            raise ToolError("negative control: " + desc)
        # keep the control cheap: the corrupted event and what precedes it back to its Load, plus the tables
        line = int(desc.split()[1].rstrip(":"))
        _, li = model_name(events, line)
        small = [bad[0]] + bad[li:line]
        ctrace = os.path.join(wd, "control.ndjson")
        write_ndjson(ctrace, small)
        cf, _, cres = validate_trace("Trace_Session", ctrace, prop, prop + "_control")
        fired = any(p == prop for _, p, _ in cf)
        R.cov["negative_controls"].append({"corruption": desc, "rejected": fired})
        if not fired:
            raise ToolError("negative control did not fire (%s): the binding cannot reject, nothing it says is believed" % desc)
    # C11, second part: the tilt / orientation classifiers on 32-bit floats against the interval tables
    if prop == "C11" and replay is None:
        res = mc_ok(tlc("MC_Classifiers", "MC_Classifiers.cfg", "C11_cls_mc", workers=2), "MC_Classifiers")
        if res["violated"]:
            raise ToolError("Classifiers.tla violated: %s" % res["violated"])
        R.add_mc("MC_Classifiers", res)
        ctrace = os.path.join(wd, "classify.ndjson")
        cst = vh(["classify", "--out", ctrace] + ([] if quick else ["--full"]), timeout=3600)
        cev = read_ndjson(ctrace)
        cfails, ccons, cres = validate_trace("Trace_Classifiers", ctrace, "C11", "C11_cls_trace")
        if not ccons:
            raise ToolError("classifier trace not consumed")
        R.cov["classifier_floats_evaluated"] = cst.get("evaluated")
        R.cov["classifier_runs"] = len(cev)
        R.cov["classifier_exhaustive"] = not quick
        for line, p, name in cfails:
            e = cev[line - 1]
            R.violation("%s:%s" % (name, e.get("class", "")), "%s fails: %s" % (name, json.dumps(e)[:300]), {"events": [e], "part": "classifiers"})
        if not R.violations:
            bad = copy.deepcopy(cev)
            for e in bad:
                if e["ev"] == "ClassRun" and e["kind"] == "tilt" and e["class"] == "SIDE":
                    e["class"] = "TOP"
                    write_ndjson(os.path.join(wd, "classify_control.ndjson"), [e])
                    break
            cf2, _, _ = validate_trace("Trace_Classifiers", os.path.join(wd, "classify_control.ndjson"), "C11", "C11_cls_control")
            R.cov["negative_controls"].append({"corruption": "a run of vertical tilts reported as roof", "rejected": bool(cf2)})
            if not cf2:
                raise ToolError("negative control did not fire for Trace_Classifiers")
    # evidence
    nontrivial = set()
    for e in events:
        if e["ev"] == "Compute" and e.get("outcome") == "ok":
            x = e["model"]
            sig = None
            if prop in ("C08", "C11") and e["k"]["sum"]["a"] > 0:
                sig = (len(x["walls"]), len(x["windows"]), e["k"]["K"], e["glob"]["aref"])
            elif prop == "C09" and e["n50"]["wa"] > 0:
                sig = (len(x["walls"]), e["n50"]["n50ref"], e["n50"]["n50"])
            elif prop == "C10" and e["q"]["awp"] > 0:
                sig = (len(x["windows"]), e["q"]["Q"], x["meta"]["zone"])
            elif prop == "C14":
                sig = (len(x["walls"]), len(x["windows"]), len(x["spaces"]), e["k"]["K"], e["q"]["Q"])
            if sig:
                nontrivial.add(sig)
        if prop == "C15" and e["ev"] == "Check" and e.get("warn"):
            nontrivial.add(json.dumps(e["warn"]))
        if prop == "C16" and e["ev"] == "Purge" and e.get("outcome") == "ok" and any(e["counts"]):
            nontrivial.add(json.dumps(e["counts"]) + json.dumps(e["after"]["spaces"])[:80])
    R.cov["distinct_nontrivial"] = len(nontrivial)
    R.cov["rule"] = {
        "C08": "models = 7 shipped + TLC-generated (simulation of MC_Session_full) + seeded random sane/broken models; non-trivial = envelope area > 0; distinct by (walls, windows, K, A_ref)",
        "C09": "same models; non-trivial = opaque area in contact with outside air > 0; distinct by (walls, n50_ref, n50)",
        "C10": "same models; non-trivial = at least one window in scope; distinct by (windows, Q_sol;jul, zone)",
        "C11": "same models; non-trivial = envelope area > 0; distinct by (walls, windows, K, A_ref)",
        "C14": "same models incl. broken links; every Compute; distinct by (walls, windows, spaces, K, Q)",
        "C15": "Check events with at least one warning; distinct by the bag of warnings",
        "C16": "Purge events that removed something; distinct by removal counts and kept spaces",
    }[prop]
    R.cov["tlc_cases_replayed"] = ncases
    R.cov["compute_events"] = ncompute
    R.cov["samples"] = [{"name": e.get("name"), "model": e["model"]} for e in events if e["ev"] == "Load"][3:6] or \
                       [{"name": e.get("name")} for e in events if e["ev"] == "Load"][:3]
    for smp in R.cov["samples"]:
        if len(json.dumps(smp)) > 4000:
            smp["model"] = {k: (v if k == "meta" else len(v)) for k, v in smp["model"].items()}
    R.cov["checker_cmd"] = "tlc -config Trace_Session.cfg Trace_Session.tla (TRACE=work/%s/trace.ndjson FOCUS=%s); tlc MC_Session_*.cfg" % (prop, prop)
    R.cov["trusted_base"] = ["TLC 1.8.0", "harness projection bemodel::Model -> abstract model (absmodel.rs)",
                             "harness concretiser (absmodel.rs)", "serde_json"]
    R.cov["obligations_checked"] = INVARIANTS_FOR[prop]
    R.assumptions = ["numeric obligations are evaluated on models with unique ids and representable values (others: structural obligations only)",
                     "tolerances: |K|,|n50| 0.002, areas 0.02 m2, relative 2e-4 for 32-bit float accumulation"]
    return R.finish()
