"""Second part of C13: RayGeom.tla cases (ray through a chosen target of a posed polygon), bounding boxes and
reveal surfaces, replayed into WallGeom::intersects / aabb / Model::collect_occluders."""
import copy
import json
import os

from common import *


def raygeom_part(R, tier, wd, payload=None):
    quick = tier == "quick"
    res = mc_ok(tlc("MC_RayGeom", "MC_RayGeom.cfg", "C13_rg_mc", workers=4, timeout=1800), "MC_RayGeom")
    if res["violated"]:
        raise ToolError("RayGeom enumeration failed: %s" % res["violated"])
    R.add_mc("MC_RayGeom", res)
    cases_file = os.path.join(wd, "rg_cases.ndjson")
    write_ndjson(cases_file, res["cases"])
    trace = os.path.join(wd, "rg_trace.ndjson")
    st = vh(["raygeom", "--cases", cases_file, "--stride", "12" if quick else "1", "--reveals", "150" if quick else "3000", "--out", trace], timeout=3600)
    events = read_ndjson(trace)
    fails, consumed, tres = validate_trace("Trace_RayGeom", trace, "C13", "C13_rg_trace", timeout=7200)
    if not consumed:
        raise ToolError("raygeom trace not consumed: %s" % tres["out"][-800:])
    R.cov["traces_validated_against_impl"] += len(events)
    R.cov["evaluations"] += len(events)
    R.cov["raygeom_cases"] = sum(1 for e in events if e["ev"] == "RayCase")
    R.cov["raygeom_hits"] = sum(1 for e in events if e["ev"] == "RayCase" and e["got"])
    R.cov["reveal_windows"] = sum(1 for e in events if e["ev"] in ("Reveal", "NoReveal"))
    for line, p, name in fails:
        e = events[line - 1]
        key = "%s:%s" % (name, json.dumps({k: e.get(k) for k in ("tilt", "az") if k in e}))
        R.violation(key, "%s fails: %s" % (name, json.dumps(e)[:400]), {"events": [e], "part": "raygeom", "requests": []})
    if not R.violations:
        ctl = []
        for e in copy.deepcopy(events):
            if e["ev"] == "RayCase" and e["got"]:
                e["got"] = False
                ctl.append((e, "a real hit reported as a miss", "HitIffCrossesPlaneInFrontInsidePolygon"))
                break
        for e in copy.deepcopy(events):
            if e["ev"] == "Reveal":
                e["quads"][0][2][2] = -e["quads"][0][2][2]
                ctl.append((e, "one reveal corner on the wrong side of the wall plane", "RevealsSpanTheGapAlongTheFourEdges"))
                break
        for e, desc, expect in ctl:
            p = os.path.join(wd, "rg_control.ndjson")
            write_ndjson(p, [e])
            cf, _, _ = validate_trace("Trace_RayGeom", p, "C13", "C13_rg_control")
            fired = any(n == expect for _, _, n in cf)
            R.cov["negative_controls"].append({"corruption": desc, "rejected": fired})
            if not fired:
                raise ToolError("negative control did not fire: " + desc)
    distinct = set(json.dumps({k: e[k] for k in ("poly", "q", "D", "k", "tilt", "az")}) for e in events if e["ev"] == "RayCase")
    samples = [e for e in events if e["ev"] == "RayCase" and e["got"]][:2] + [e for e in events if e["ev"] == "Reveal"][:1]
    return len(distinct), samples
