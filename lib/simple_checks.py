"""Checks of the form: TLC model check(s) + TLC-generated cases + harness recording + trace validation +
negative controls, for properties whose events are self-contained (no session state)."""
import copy
import json
import shutil
import os

from common import *


def generic_trace_check(prop, tier, replay, *, mc, record, trace_module, controls, nontrivial, rule, samples_of,
                        checker_cmd, trusted, assumptions, key_of=None, level="model_checking", mc_cases_to=None, mc_soft=False):
    """mc: list of (module, cfg_quick, cfg_thorough, workers, simulate or None)
    record(wd, tier, cases_file, replay_payload) -> (trace_path, stats dict)
    controls: list of functions events -> (events, description) or None
    nontrivial(events) -> set ; samples_of(events) -> list"""
    R = Result(prop, tier, level)
    build_harness()
    wd = workdir(prop)
    quick = tier == "quick"
    cases_file = os.path.join(wd, "cases.ndjson")
    payload = json.load(open(replay)) if replay else None
    allcases = []
    soft = []
    if payload is None:
        for module, cq, ct, workers, sim in mc:
            cfg = cq if quick else ct
            res = tlc(module, cfg, prop + "_" + module, workers=workers, simulate=sim, timeout=3000,
                      extra=["-seed", str(seed())] if sim else None)
            if mc_soft and (res.get("error") or res["violated"]):
                # the model is extracted from the source tree: a violated invariant predicts a violation of the
                # code, which the conformance step below has to exhibit on the real implementation
                soft.append("%s: %s %s" % (cfg, res["violated"], res.get("error") or ""))
                res.setdefault("generated", 1)
                res.setdefault("distinct", 1)
            else:
                mc_ok(res, cfg)
                if res["violated"]:
                    raise ToolError("design-level invariant violated in %s: %s" % (cfg, res["violated"]))
            R.add_mc(cfg, res)
            allcases += res["cases"]
        seen, uniq = set(), []
        for c in allcases:
            k = json.dumps(c, sort_keys=True)
            if k not in seen:
                seen.add(k)
                uniq.append(c)
        write_ndjson(cases_file, uniq)
        R.cov["tlc_cases_replayed"] = len(uniq)
    trace, stats = record(wd, tier, cases_file, payload)
    events = read_ndjson(trace)
    fails, consumed, res = validate_trace(trace_module, trace, prop, prop + "_trace", timeout=7200)
    if not consumed:
        raise ToolError("trace not consumed at %s:\n%s" % (res["unmatched"], res["out"][-1500:]))
    R.cov["traces_validated_against_impl"] = stats.get("traces", len(events))
    R.cov["evaluations"] = len(events)
    R.cov["recorder_stats"] = stats
    for line, p, name in fails:
        if p != prop:
            continue
        e = events[line - 1]
        key = key_of(e, name) if key_of else "%s:%s" % (name, e.get("src", e.get("ev")))
        small = e if len(json.dumps(e)) < 30000 else {"ev": e["ev"], "src": e.get("src")}
        R.violation(key, "%s fails at trace line %d: %s" % (name, line, json.dumps(small)[:400]),
                    {"events": [small], "obligation": name, "line": line})
    if payload is None and not R.violations:
        for ctl in controls:
            try:
                r = ctl(copy.deepcopy(events))
            except (KeyError, IndexError, TypeError, StopIteration) as ex:
                raise ToolError("negative control could not be constructed: %r" % ex)
            if r is None:
                raise ToolError("negative control could not be constructed")
            bad, desc, expect = r
            ctrace = os.path.join(wd, "control.ndjson")
            write_ndjson(ctrace, bad)
            cf, ccons, _ = validate_trace(trace_module, ctrace, prop, prop + "_control")
            fired = any(n == expect for _, _, n in cf) if expect else ((not ccons) or bool(cf))
            R.cov["negative_controls"].append({"corruption": desc, "rejected": fired})
            if not fired:
                raise ToolError("negative control did not fire: " + desc)
    if soft and not R.violations:
        raise ToolError("the model extracted from the source violates its invariants (%s) but no execution of the real code exhibits it" % soft)
    R.cov["distinct_nontrivial"] = len(nontrivial(events))
    R.cov["rule"] = rule
    R.cov["samples"] = samples_of(events)
    R.cov["checker_cmd"] = checker_cmd
    R.cov["trusted_base"] = trusted
    R.assumptions = assumptions
    return R.finish()


# ------------------------------------------------------------------------------------ C17

def run_c17(tier, replay=None):
    quick = tier == "quick"

    def record(wd, tier, cases_file, payload):
        trace = os.path.join(wd, "trace.ndjson")
        if payload is not None:
            write_ndjson(trace, payload["events"])
            return trace, {"replayed_events": len(payload["events"])}
        st = vh(["sched", "--corpus", "--cases", cases_file, "--random", "80" if quick else "1500", "--out", trace], timeout=3600)
        return trace, st

    def ctl_expand(ev):
        for e in ev:
            if e["ev"] == "Expand" and len(e["got"]) > 20 and e["src"] in ("random", "tlc", "converted") and len(set(e["got"])) > 1:
                i = next(k for k in range(1, len(e["got"])) if e["got"][k] != e["got"][k - 1])
                e["got"][i] = e["got"][i - 1]
                return [e], "one day of an expansion replaced by the previous day's schedule", "DayTakesWeekdaySlotOfItsPeriod"

    def ctl_year(ev):
        for e in ev:
            if e["ev"] == "ConvYear" and e.get("ok") and len(e["got"]) > 1:
                e["got"][0][1] += 1
                e["got"][1][1] -= 1
                return [e], "first converted period one day longer", "PeriodsPartitionTheYearAtTheDates"

    def ctl_doy(ev):
        for e in ev:
            if e["ev"] == "DayOfYear" and e["m"] == 3 and e["d"] == 1:
                e["got"] += 1
                return [e], "day of year of 1 March + 1", "DayOfYearAgreesWithCalendar"

    def ctl_occ(ev):
        for e in ev:
            if e["ev"] == "Occupancy" and e["wellformed"] and e["hours"] > 0:
                e["hours"] += 1
                return [e], "occupied hours + 1", "OccupiedHoursAreHoursWithSomeSpaceOccupied"

    def ctl_mean(ev):
        for e in ev:
            if e["ev"] == "Occupancy" and e["wellformed"] and e["meanok"] and e["mean"] > 1000:
                e["mean"] = int(e["mean"] * 1.01)
                return [e], "mean load * 1.01", "MeanLoadIsAreaWeightedMean"

    def nontrivial(events):
        s = set()
        for e in events:
            if e["ev"] == "Expand" and len(e.get("periods", [])) >= 1 and len(e["got"]) > 0:
                s.add(json.dumps([e["periods"], e["weeks"]]))
            elif e["ev"] in ("ConvYear", "DayOfYear", "ConvWeek", "ConvDay"):
                s.add(json.dumps({k: v for k, v in e.items() if k != "got"}))
            elif e["ev"] == "Occupancy" and e["hours"] > 0:
                s.add(json.dumps([e["spaces"], e["hours"], e["mean"]]))
        return s

    def samples_of(events):
        out = []
        for kind in ("Expand", "ConvYear", "Occupancy"):
            for e in events:
                if e["ev"] == kind and len(json.dumps(e)) < 3000:
                    out.append(e)
                    break
        return out

    return generic_trace_check(
        "C17", tier, replay,
        mc=[("MC_Schedules", "MC_Schedules.cfg", "MC_Schedules_t.cfg", 4, None)],
        record=record, trace_module="Trace_Schedules",
        controls=[ctl_expand, ctl_year, ctl_doy, ctl_occ, ctl_mean],
        nontrivial=nontrivial,
        rule="Expand: distinct (periods, weekly patterns) with a non-empty expansion (TLC-enumerated small years, random 365-day and free-length years with 1..12 periods, every yearly schedule of the 7 shipped models, converted HULC schedules); conversions: distinct date lists / all 365 single dates / weekly and daily blocks; Occupancy: distinct models with occupied hours > 0",
        samples_of=samples_of,
        checker_cmd="tlc MC_Schedules.cfg; tlc Trace_Schedules.cfg (TRACE=work/C17/trace.ndjson)",
        trusted=["TLC 1.8.0", "harness sched.rs (BDL printer for schedule blocks, projection of schedules and loads)"],
        assumptions=["hour values are quantised to 1e-4; models with negative loads or schedule values in (0, 1e-4) are recorded but not judged (wellformed = false)",
                     "occupied-hours obligation needs every expanded people schedule to have 365 days"])


# ------------------------------------------------------------------------------------ C01

def run_c01(tier, replay=None):
    quick = tier == "quick"

    def record(wd, tier, cases_file, payload):
        trace = os.path.join(wd, "trace.ndjson")
        bins = build_bins()
        args = ["cli", "--out", trace, "--bins", bins, "--scratch", os.path.join(wd, "scratch")]
        synth = os.path.join(wd, "synthetic")
        try:
            from bdl_projects import write_synthetic_projects
            write_synthetic_projects(synth, 6 if quick else 120, seed())
            args += ["--synthetic", synth]
        except ImportError:
            pass
        st = vh(args, timeout=3600)
        return trace, st

    def run_of(ev, pred):
        """events of the first run whose Start satisfies pred"""
        i = 0
        while i < len(ev):
            if ev[i]["ev"] == "Start":
                j = i + 1
                while j < len(ev) and ev[j]["ev"] != "Start":
                    j += 1
                if pred(ev[i], ev[i:j]):
                    return ev[i:j]
                i = j
            else:
                i += 1
        return None

    def ctl_other(ev):
        r = run_of(ev, lambda s, run: s["tool"] == "hulc2model" and s["input"] == "project")
        if r:
            r.insert(1, {"ev": "Stdout", "kind": "other", "equal": False, "bytes": 20, "head": "Sistemas  GT:"})
            return r, "a debug line printed to stdout before the JSON", "OnlyTheModelJsonOnStdout"

    def ctl_equal(ev):
        r = run_of(ev, lambda s, run: s["tool"] == "hulc2model" and s["input"] == "project")
        if r:
            for e in r:
                if e["ev"] == "Stdout":
                    e["equal"] = False
            return r, "stdout JSON differs from the library's model", "StdoutJsonEqualsLibraryModel"

    def ctl_exit(ev):
        r = run_of(ev, lambda s, run: s["input"] == "noproject")
        if r:
            r[-1]["code"] = 0
            return r, "exit status 0 for a directory without project", "NoProjectExitsNonZero"

    def ctl_thor(ev):
        r = run_of(ev, lambda s, run: s["tool"] == "thor" and s["input"] == "project")
        if r:
            r = [e for e in r if e["ev"] != "OutFile"]
            return r, "thor did not write the -o file", "ThorWritesTheModelFile"

    def nontrivial(events):
        return set(json.dumps([e["tool"], e["extra"], e["target"]]) for e in events if e["ev"] == "Start" and e["input"] == "project")

    def samples_of(events):
        return events[:4] + [e for e in events if e["ev"] == "Start" and e["input"] != "project"][:2]

    def key_of(e, name):
        head = (e.get("head") or "")[:40].split("\n")[0]
        return "%s:%s" % (name, head if e["ev"] == "Stdout" else e.get("ev"))

    return generic_trace_check(
        "C01", tier, replay,
        mc=[("MC_Cli", "MC_Cli.cfg", "MC_Cli.cfg", 2, None)],
        record=record, trace_module="Trace_Cli",
        controls=[ctl_other, ctl_equal, ctl_exit, ctl_thor],
        nontrivial=nontrivial,
        rule="real process runs: every shipped project directory (and synthetic projects written by the BDL printer) x {default, --use-extra} for hulc2model and thor -o, plus empty / missing / unparsable directories; non-trivial = runs on a convertible project; distinct by (tool, option, directory)",
        samples_of=samples_of, key_of=key_of,
        checker_cmd="tlc MC_Cli.cfg; tlc Trace_Cli.cfg (TRACE=work/C01/trace.ndjson)",
        trusted=["TLC 1.8.0", "harness clicheck.rs (stdout tokeniser: maximal JSON objects vs other text; equality of models through Model::from_json + as_json)"],
        assumptions=["'convertible' is decided by calling the library (hulc2model::collect_hulc_data / Model::try_from) on the same input in a worker process"])


# ------------------------------------------------------------------------------------ C05

def run_c05(tier, replay=None):
    quick = tier == "quick"

    def record(wd, tier, cases_file, payload):
        trace = os.path.join(wd, "trace.ndjson")
        # project directories written by the verifier's printer: every element kind the converter derives ids and shades
        # from (window overhangs and fins, both kinds of shades, doors, several spaces), next to the shipped projects
        synth = os.path.join(wd, "synth")
        shutil.rmtree(synth, ignore_errors=True)
        from bdl_projects import write_synthetic_projects
        write_synthetic_projects(synth, 8 if quick else 60, seed())
        # buildings whose walls carry two windows, the second with devices and the first without (for the stability of ids
        # when an unrelated window is added elsewhere)
        geo = os.path.join(wd, "geo")
        shutil.rmtree(geo, ignore_errors=True)
        import geometry_checks
        import bdl_projects as BPJ
        box = {"ag": [1, 0, 1], "sp": {"x": 0, "y": 0, "z": 0, "h": 30, "as": [1, 0, 1], "outline": [[0, 0], [60, 0], [60, 40], [0, 40]]}, "pw": [], "rs": [], "vs": []}
        for k in range(4 if quick else 16):
            pj, _, _, _ = geometry_checks.project_of(box, k)
            d = os.path.join(geo, "geo%02d" % k)
            os.makedirs(d)
            with open(os.path.join(d, "geo%02d.ctehexml" % k), "w", encoding="utf-8") as f:
                f.write(BPJ.wrap_ctehexml(BPJ.print_bdl(pj, {"seed": k}), name="Geo %d" % k))
        st = vh(["locks", "--out", trace, "--rounds", "1" if quick else "6", "--threads", "16", "--extra-dirs", synth, "--idmap-dirs", geo,
                 "--max-projects", "6" if quick else "12", "--generated", "6" if quick else "30", "--scratch", wd], timeout=7200)
        return trace, st

    def ctl_digest(ev):
        seen = {}
        for e in ev:
            if e["ev"] == "Result" and e["ok"]:
                k = (e["kind"], e["input"])
                if k in seen:
                    e["digest"] = "0" * 32
                    return [seen[k], e], "second digest of the same input differs", "SameResultWhateverTheHistoryOrSchedule"
                seen[k] = dict(e)

    def ctl_ids(ev):
        base = None
        for e in ev:
            if e["ev"] == "IdMap" and e["variant"] == "base":
                base = e
            elif e["ev"] == "IdMap" and base is not None and e["ids"]:
                e["ids"][0][1] = "00000000-0000-0000-0000-000000000001"
                return [base, e], "one id changed after adding an unrelated definition", "UnrelatedDefinitionChangesNoId"

    def ctl_lock(ev):
        locks = [e for e in ev if e["ev"] in ("Request", "Done", "Acquire", "Release")]
        if len(locks) > 20:
            t = locks[0]["thread"]
            mine = [e for e in locks if e["thread"] == t][:9]
            # swap Acquire and Release of JULY
            ia = next(i for i, e in enumerate(mine) if e["ev"] == "Acquire")
            ir = next(i for i, e in enumerate(mine) if e["ev"] == "Release")
            mine[ia], mine[ir] = mine[ir], mine[ia]
            return mine, "JULY released before it is acquired", "LockProtocolOrder"

    def ctl_excl(ev):
        locks = [e for e in ev if e["ev"] in ("Request", "Done", "Acquire", "Release")]
        t = locks[0]["thread"]
        mine = [dict(e) for e in locks if e["thread"] == t][:9]
        other = [dict(e, thread="ThreadId(999)") for e in mine]
        ia = next(i for i, e in enumerate(mine) if e["ev"] == "Acquire")
        # the other thread's whole program up to and including its Acquire is placed inside our critical section
        oa = next(i for i, e in enumerate(other) if e["ev"] == "Acquire")
        merged = mine[:ia + 1] + other[:oa + 1] + mine[ia + 1:] + other[oa + 1:]
        return merged, "two threads inside the JULY section at once", "MutualExclusion"

    def nontrivial(events):
        return set(json.dumps([e["kind"], e["input"], e["mode"]]) for e in events if e["ev"] == "Result" and e["ok"])

    def samples_of(events):
        out = [e for e in events if e["ev"] == "Result"][:3]
        out += [e for e in events if e["ev"] in ("Request", "Acquire")][:3]
        out += [{k: (v if k != "ids" else v[:3]) for k, v in e.items()} for e in events if e["ev"] == "IdMap"][:2]
        out += [e for e in events if e["ev"] == "Reference"][:2]
        return out

    def key_of(e, name):
        return "%s:%s" % (name, e.get("input") or e.get("pair") or e.get("lock"))

    return generic_trace_check(
        "C05", tier, replay,
        mc=[("MC_Locks", "MC_Locks_q.cfg", "MC_Locks.cfg", 8, None)],
        record=record, trace_module="Trace_Locks",
        controls=[ctl_digest, ctl_ids, ctl_lock, ctl_excl],
        nontrivial=nontrivial,
        rule="Result events: conversions of the shipped projects (first, repeat, fresh process, 16 threads) and indicators of shipped + generated models (fresh process, after every other model, 16 threads); distinct by (kind, input, mode); plus lock events of every computation, id maps with three unrelated definitions added, 6 reference pairs",
        samples_of=samples_of, key_of=key_of,
        checker_cmd="tlc MC_Locks.cfg; tlc Trace_Locks.cfg (TRACE=work/C05/trace.ndjson)",
        trusted=["TLC 1.8.0", "hooks H2 (add-only events; JULY events are emitted while the mutex is held, sequence numbers from one atomic counter)", "md5 digests of as_json text / canonical serde_json::Value"],
        assumptions=["MONTHLY and META guards are temporaries: their acquisition is internal between Request and Done; mutual exclusion of those is Rust's guarantee",
                     "reference pairs are compared as JSON values (two shipped references differ from today's text only in the float formatter: 1e30 vs 1e+30)"])


# ------------------------------------------------------------------------------------ C20

def run_c20(tier, replay=None):
    quick = tier == "quick"

    def record(wd, tier, cases_file, payload):
        trace = os.path.join(wd, "trace.ndjson")
        st = vh(["solar", "--out", trace] + ([] if quick else ["--full"]), timeout=3600)
        return trace, st

    def first(ev, kind, pred=lambda e: True):
        for e in ev:
            if e["ev"] == kind and pred(e):
                return e

    def ctl_day(ev):
        e = first(ev, "Nday", lambda e: e["m"] == 3 and e["d"] == 1)
        e["md"] += 1
        return [e], "day of year of 1 March + 1", "DayOfYearAgreesWithCalendar"

    def ctl_sun(ev):
        e = first(ev, "SunVec", lambda e: e["got"][2] > 3000 and abs(e["got"][0]) > 2000)
        e["got"][0] = -e["got"][0]
        return [e], "east and west swapped in the sun direction", "SunDirectionAgreesWithSphericalAstronomy"

    def ctl_inc(ev):
        e = first(ev, "Incidence", lambda e: abs(e["gotcos"]) > 2000)
        e["gotcos"] = e["gotcos"] - 300
        return [e], "cosine of incidence off by 0.03", "IncidenceIsAngleBetweenSunAndOutwardNormal"

    def ctl_rad(ev):
        e = first(ev, "RadDay", lambda e: max(e["hin"]) > 5000)
        i = e["hin"].index(max(e["hin"]))
        e["hout"][i] = int(e["hout"][i] * 0.97)
        return [e], "horizontal surface loses 3% at noon", "HorizontalSurfaceReceivesHorizontalInput"

    def ctl_zone(ev):
        e = first(ev, "Zone")
        e["monthly"] = e["monthly"][1:]
        return [e], "one orientation missing from a zone's monthly table", "NineMonthlyEntries"

    def ctl_table(ev):
        e = first(ev, "TableVsModel", lambda e: e["table"] > 3000)
        e["table"] = int(e["table"] * 1.02)
        return [e], "a monthly table value 2% off the radiation model", "MonthlyTableEqualsRadiationModel"

    return generic_trace_check(
        "C20", tier, replay,
        mc=[("MC_Solar", "MC_Solar.cfg", "MC_Solar.cfg", 2, None)],
        record=record, trace_module="Trace_Solar",
        controls=[ctl_day, ctl_sun, ctl_inc, ctl_rad, ctl_zone, ctl_table],
        nontrivial=lambda events: set(json.dumps({k: v for k, v in e.items() if k in ("ev", "m", "d", "decl", "hour", "lat", "tilt", "az", "month", "day", "zone", "orient", "what")}, sort_keys=True) for e in events),
        rule="365 dates; 32 zones (metadata, July-day series, 9 monthly entries); sun direction for 3 declinations x 5 latitudes x 17 hour angles of the rational-angle family; incidence for those x 7 tilts x 9 azimuths; the 8,760 hours of zonaD3.met on horizontal, downward and the 9 class orientations; 9 x 12 x 2 monthly table entries and the July-day rows of zone D3; distinct by parameters",
        samples_of=lambda events: [first(events, k) for k in ("Nday", "SunVec", "Incidence", "Zone", "TableVsModel", "JulyVsMet")],
        key_of=lambda e, name: "%s:%s" % (name, json.dumps({k: e.get(k) for k in ("m", "d", "decl", "hour", "lat", "zone", "orient", "month") if k in e})),
        checker_cmd="tlc MC_Solar.cfg; tlc Trace_Solar.cfg (TRACE=work/C20/trace.ndjson)",
        trusted=["TLC 1.8.0", "harness solar.rs (atan2 to turn rational angles into degrees; quantisation 1e-4)", "the public statics MONTHLYRADDATA / JULYRADDATA / CLIMATEMETADATA as the access path to the tables"],
        assumptions=["angles are exact only on the rational family (hypotenuse <= 13); the 0.5 degree grid of the quantifier is replaced by it (DESIGN section 10)",
                     "Perez coefficients and the declination series are exercised, not decided",
                     "table = model uses the (beta, gamma) stored in the table entry itself"])
