"""Checks of the form: TLC model check(s) + TLC-generated cases + harness recording + trace validation +
negative controls, for properties whose events are self-contained (no session state)."""
import copy
import json
import os

from common import *


def generic_trace_check(prop, tier, replay, *, mc, record, trace_module, controls, nontrivial, rule, samples_of,
                        checker_cmd, trusted, assumptions, key_of=None, level="model_checking", mc_cases_to=None):
    """mc: list of (module, cfg_quick, cfg_thorough, workers, simulate or None)
    record(wd, tier, cases_file, replay_payload) -> (trace_path, stats dict)
    controls: list of functions events -> (events, description) or None
    nontrivial(events) -> set ; samples_of(events) -> list"""
    R = Result(prop, tier, level)
    build_harness()
    wd = workdir(prop)
    quick = tier == "quick"
    cases_file = os.path.join(wd, "cases.ndjson")
    payload = json.load(open(replay)) if replay else None
    allcases = []
    if payload is None:
        for module, cq, ct, workers, sim in mc:
            cfg = cq if quick else ct
            res = mc_ok(tlc(module, cfg, prop + "_" + module, workers=workers, simulate=sim, timeout=3000,
                            extra=["-seed", str(seed())] if sim else None), cfg)
            if res["violated"]:
                raise ToolError("design-level invariant violated in %s: %s" % (cfg, res["violated"]))
            R.add_mc(cfg, res)
            allcases += res["cases"]
        seen, uniq = set(), []
        for c in allcases:
            k = json.dumps(c, sort_keys=True)
            if k not in seen:
                seen.add(k)
                uniq.append(c)
        write_ndjson(cases_file, uniq)
        R.cov["tlc_cases_replayed"] = len(uniq)
    trace, stats = record(wd, tier, cases_file, payload)
    events = read_ndjson(trace)
    fails, consumed, res = validate_trace(trace_module, trace, prop, prop + "_trace", timeout=7200)
    if not consumed:
        raise ToolError("trace not consumed at %s:\n%s" % (res["unmatched"], res["out"][-1500:]))
    R.cov["traces_validated_against_impl"] = stats.get("traces", len(events))
    R.cov["evaluations"] = len(events)
    R.cov["recorder_stats"] = stats
    for line, p, name in fails:
        if p != prop:
            continue
        e = events[line - 1]
        key = key_of(e, name) if key_of else "%s:%s" % (name, e.get("src", e.get("ev")))
        small = e if len(json.dumps(e)) < 30000 else {"ev": e["ev"], "src": e.get("src")}
        R.violation(key, "%s fails at trace line %d: %s" % (name, line, json.dumps(small)[:400]),
                    {"events": [small], "obligation": name, "line": line})
    if payload is None:
        for ctl in controls:
            r = ctl(copy.deepcopy(events))
            if r is None:
                raise ToolError("negative control could not be constructed")
            bad, desc, expect = r
            ctrace = os.path.join(wd, "control.ndjson")
            write_ndjson(ctrace, bad)
            cf, ccons, _ = validate_trace(trace_module, ctrace, prop, prop + "_control")
            fired = any(n == expect for _, _, n in cf) if expect else ((not ccons) or bool(cf))
            R.cov["negative_controls"].append({"corruption": desc, "rejected": fired})
            if not fired:
                raise ToolError("negative control did not fire: " + desc)
    R.cov["distinct_nontrivial"] = len(nontrivial(events))
    R.cov["rule"] = rule
    R.cov["samples"] = samples_of(events)
    R.cov["checker_cmd"] = checker_cmd
    R.cov["trusted_base"] = trusted
    R.assumptions = assumptions
    return R.finish()


# ------------------------------------------------------------------------------------ C17

def run_c17(tier, replay=None):
    quick = tier == "quick"

    def record(wd, tier, cases_file, payload):
        trace = os.path.join(wd, "trace.ndjson")
        if payload is not None:
            write_ndjson(trace, payload["events"])
            return trace, {"replayed_events": len(payload["events"])}
        st = vh(["sched", "--corpus", "--cases", cases_file, "--random", "80" if quick else "1500", "--out", trace], timeout=3600)
        return trace, st

    def ctl_expand(ev):
        for e in ev:
            if e["ev"] == "Expand" and len(e["got"]) > 20 and e["src"] in ("random", "tlc", "converted") and len(set(e["got"])) > 1:
                i = next(k for k in range(1, len(e["got"])) if e["got"][k] != e["got"][k - 1])
                e["got"][i] = e["got"][i - 1]
                return [e], "one day of an expansion replaced by the previous day's schedule", "DayTakesWeekdaySlotOfItsPeriod"

    def ctl_year(ev):
        for e in ev:
            if e["ev"] == "ConvYear" and e.get("ok") and len(e["got"]) > 1:
                e["got"][0][1] += 1
                e["got"][1][1] -= 1
                return [e], "first converted period one day longer", "PeriodsPartitionTheYearAtTheDates"

    def ctl_doy(ev):
        for e in ev:
            if e["ev"] == "DayOfYear" and e["m"] == 3 and e["d"] == 1:
                e["got"] += 1
                return [e], "day of year of 1 March + 1", "DayOfYearAgreesWithCalendar"

    def ctl_occ(ev):
        for e in ev:
            if e["ev"] == "Occupancy" and e["wellformed"] and e["hours"] > 0:
                e["hours"] += 1
                return [e], "occupied hours + 1", "OccupiedHoursAreHoursWithSomeSpaceOccupied"

    def ctl_mean(ev):
        for e in ev:
            if e["ev"] == "Occupancy" and e["wellformed"] and e["meanok"] and e["mean"] > 1000:
                e["mean"] = int(e["mean"] * 1.01)
                return [e], "mean load * 1.01", "MeanLoadIsAreaWeightedMean"

    def nontrivial(events):
        s = set()
        for e in events:
            if e["ev"] == "Expand" and len(e.get("periods", [])) >= 1 and len(e["got"]) > 0:
                s.add(json.dumps([e["periods"], e["weeks"]]))
            elif e["ev"] in ("ConvYear", "DayOfYear", "ConvWeek", "ConvDay"):
                s.add(json.dumps({k: v for k, v in e.items() if k != "got"}))
            elif e["ev"] == "Occupancy" and e["hours"] > 0:
                s.add(json.dumps([e["spaces"], e["hours"], e["mean"]]))
        return s

    def samples_of(events):
        out = []
        for kind in ("Expand", "ConvYear", "Occupancy"):
            for e in events:
                if e["ev"] == kind and len(json.dumps(e)) < 3000:
                    out.append(e)
                    break
        return out

    return generic_trace_check(
        "C17", tier, replay,
        mc=[("MC_Schedules", "MC_Schedules.cfg", "MC_Schedules_t.cfg", 4, None)],
        record=record, trace_module="Trace_Schedules",
        controls=[ctl_expand, ctl_year, ctl_doy, ctl_occ, ctl_mean],
        nontrivial=nontrivial,
        rule="Expand: distinct (periods, weekly patterns) with a non-empty expansion (TLC-enumerated small years, random 365-day and free-length years with 1..12 periods, every yearly schedule of the 7 shipped models, converted HULC schedules); conversions: distinct date lists / all 365 single dates / weekly and daily blocks; Occupancy: distinct models with occupied hours > 0",
        samples_of=samples_of,
        checker_cmd="tlc MC_Schedules.cfg; tlc Trace_Schedules.cfg (TRACE=work/C17/trace.ndjson)",
        trusted=["TLC 1.8.0", "harness sched.rs (BDL printer for schedule blocks, projection of schedules and loads)"],
        assumptions=["hour values are quantised to 1e-4; models with negative loads or schedule values in (0, 1e-4) are recorded but not judged (wellformed = false)",
                     "occupied-hours obligation needs every expanded people schedule to have 365 days"])
