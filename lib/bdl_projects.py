"""Abstract HULC projects -> BDL text -> .ctehexml files (the verifier's BDL printer), and generators of
abstract projects. Used by C01 (synthetic project directories), C02 (broken references), C03 (geometry),
C18 (layout independence) and C19 (fault plans on synthetic files).

An abstract project is a dict:
  azimuth, perim: [D, Rn]
  materials: [{name, r} | {name, lam, dens, thick?}]
  layers:    [{name, mats: [names], ths: [m]}]
  glasses:   [{name, u, sc}]      frames: [{name, u, abs, width}]
  gaps:      [{name, glass, frame, pct, inf, du?, tj?}]
  days: [{name, vals}]  weeks: [{name, days}]  years: [{name, dates: [[d, m]], weeks}]
  spaceconds: [{name, people, equip, light}]   sysconds: [{name, cool, heat}]
  polygons: [{name, verts: [[x, y]]}]
  floors: [{name, z, height, mult, spaces: [
      {name, polygon, type, x, y, z, azimuth, inside, spacecond, syscond, mult, height?,
       walls: [{name, kind, layers, loc | (x, y, z, azimuth, tilt, polygon), intwalltype?, nextto?, abs?,
                windows: [{name, gap, x, y, w, h, setback}]}]}]}]
  shades: [{name, x, y, z, h, w, azimuth, tilt} | {name, verts: [[x, y, z]]}]
  tbs: [{name, ttl, frsi, long?, type?, amin, amax, partition, defn?, ln, ll, lmuro, lmarco?}]
"""
import json
import os
import random


def fnum(v, layout=None):
    """print a number; the layout may ask for alternative but equivalent formats"""
    if isinstance(v, str):
        return v
    if isinstance(v, int) or float(v).is_integer():
        iv = int(v)
        style = (layout or {}).get("intstyle", 0)
        return [str(iv), "%d.0" % iv, "%13d" % iv, "%.6f" % iv][style % 4]
    s = repr(float(v))
    if (layout or {}).get("floatpad"):
        s = "%14s" % s
    return s


def q(s):
    return '"%s"' % s


class Printer:
    def __init__(self, layout=None):
        self.layout = layout or {}
        self.out = []
        self.doc = []      # the abstract document: [name, type, [(key, value)]]
        self.rng = random.Random(self.layout.get("seed", 0))

    def block(self, name, btype, attrs):
        lay = self.layout
        ind = " " * lay.get("indent", 4)
        if lay.get("comments") and self.rng.random() < 0.3:
            self.out.append("$ comentario %d" % len(self.out))
        if lay.get("blanklines") and self.rng.random() < 0.3:
            self.out.append("")
        eq = " = " if not lay.get("tighteq") else "="
        self.out.append("%s%s%s%s" % (" " * lay.get("nameindent", 0), q(name), eq, btype))
        items = list(attrs)
        self.doc.append([name, btype, list(attrs)])
        if lay.get("shuffle"):
            self.rng.shuffle(items)
        for k, v in items:
            if isinstance(v, (list, tuple)):
                # DAY / MONTH are integer lists: always written as integers
                vs = [x if isinstance(x, str) else (str(int(x)) if k in ("DAY", "MONTH") else fnum(x, lay)) for x in v]
                if lay.get("multiline") and len(vs) > 2:
                    body = (",\n" + ind * 3).join(vs)
                    if lay.get("closeown"):
                        self.out.append("%s%s%s( %s\n%s)" % (ind, k, eq, body, ind * 2))
                    else:
                        self.out.append("%s%s%s( %s)" % (ind, k, eq, body))
                else:
                    self.out.append("%s%s%s( %s )" % (ind, k, eq, ", ".join(vs)))
            else:
                pad = " " * self.rng.randint(0, 8) if lay.get("padvalues") else ""
                trail = "   " if lay.get("trailing") else ""
                txt = v if isinstance(v, str) else fnum(v, lay)
                # number formats: an explicit plus sign, an exponent, no leading digit
                if not isinstance(v, str) and lay.get("numforms") and self.rng.random() < 0.4:
                    fv = float(v)
                    form = self.rng.randrange(3)
                    if form == 0 and fv > 0:
                        txt = "+" + txt.strip()
                    elif form == 1 and fv != 0:
                        txt = ("%e" % fv)
                    elif form == 2 and 0 < abs(fv) < 1 and float(("%r" % fv)) == fv:
                        txt = ("%r" % fv).replace("0.", ".", 1)
                self.out.append("%s%s%s%s%s%s" % (ind, k, eq, pad, txt, trail))
        self.out.append("%s.." % ind)

    def text(self):
        nl = "\r\n" if self.layout.get("crlf") else "\n"
        return nl.join(self.out) + nl


def name_or_bare(s, layout, bare_ok=False):
    """strings are quoted; identifiers may be written bare when the layout asks for it"""
    if bare_ok and layout and layout.get("barestrings") and s.replace("-", "").replace("_", "").isalnum() and not s[0].isdigit():
        return s
    return q(s)


def print_bdl(p, layout=None, want_doc=False):
    lay = layout or {}
    P = Printer(lay)
    if lay.get("preamble"):
        P.out += ["$ +----------------------------------------------------+", "$ |         FICHERO GENERADO POR EL VERIFICADOR        |",
                  "$ +----------------------------------------------------+", "$", "$ PROGRAM = LIDER", "$",
                  "CAMBIO = SI", "CAMBIO-CALENER = NO", '     EEGeneradaAutoconsumida        = "0"',
                  ' "DATOS GENERALES" = GENERAL-DATA', '     TYPE-HOUSING        = "Unifamiliar"', '     ZONE                = "D3"', "     .."]
    bp = [("AZIMUTH", p.get("azimuth", 0))]
    if p.get("perim"):
        bp += [("D-AISLAMIENTO-PERIMETRAL", p["perim"][0]), ("RA-AISLAMIENTO-PERIMETRAL", p["perim"][1])]
    P.block("Edificio", "BUILD-PARAMETERS", bp)
    for m in p.get("materials", []):
        if "r" in m:
            P.block(m["name"], "MATERIAL", [("TYPE", "RESISTANCE"), ("RESISTANCE", m["r"])] + ([("GROUP", q(m["group"]))] if "group" in m else []))
        else:
            a = [("TYPE", "PROPERTIES")]
            if "thick" in m:
                a.append(("THICKNESS", m["thick"]))
            a += [("CONDUCTIVITY", m["lam"]), ("DENSITY", m.get("dens", 1000))]
            if "cp" in m:
                a.append(("SPECIFIC-HEAT", m["cp"]))
            if "mu" in m:
                a.append(("VAPOUR-DIFFUSIVITY-FACTOR", m["mu"]))
            if "group" in m:
                a.append(("GROUP", q(m["group"])))
            P.block(m["name"], "MATERIAL", a)
    for l in p.get("layers", []):
        P.block(l["name"], "LAYERS", ([("GROUP", q(l["group"]))] if "group" in l else []) + [("MATERIAL", [q(x) for x in l["mats"]]), ("THICKNESS", list(l["ths"]))])
    for g in p.get("glasses", []):
        P.block(g["name"], "GLASS-TYPE", ([("GROUP", q(g["group"]))] if "group" in g else []) + [("TYPE", "SHADING-COEF"), ("GLASS-CONDUCTANCE", g["u"]), ("SHADING-COEF", g["sc"])])
    for f in p.get("frames", []):
        P.block(f["name"], "NAME-FRAME", [("GROUP", q(f.get("group", "Marcos"))), ("FRAME-CONDUCT", f["u"]), ("FRAME-ABS", f.get("abs", 0.7)), ("FRAME-WIDTH", f.get("width", 0.1))])
    for g in p.get("gaps", []):
        a = ([("GROUP", q(g["group"]))] if "group" in g else []) + [("GLASS-TYPE", q(g["glass"])), ("GROUP-GLASS", q(g.get("gglass", "Vidrios"))), ("NAME-FRAME", q(g["frame"])), ("GROUP-FRAME", q(g.get("gframe", "Marcos"))),
             ("PORCENTAGE", g["pct"]), ("INF-COEF", g["inf"])]
        if "du" in g:
            a.append(("porcentajeIncrementoU", g["du"]))
        if "tj" in g:
            a.append(("TransmisividadJulio", g["tj"]))
        P.block(g["name"], "GAP", a)
    for d in p.get("days", []):
        P.block(d["name"], "DAY-SCHEDULE-PD", [("TYPE", "FRACTION"), ("VALUES", list(d["vals"]))])
    for w in p.get("weeks", []):
        P.block(w["name"], "WEEK-SCHEDULE-PD", [("TYPE", "FRACTION"), ("DAY-SCHEDULES", [q(x) for x in w["days"]])])
    for y in p.get("years", []):
        P.block(y["name"], "SCHEDULE-PD", [("TYPE", "FRACTION"), ("MONTH", [d[1] for d in y["dates"]]), ("DAY", [d[0] for d in y["dates"]]),
                                           ("WEEK-SCHEDULES", [q(x) for x in y["weeks"]])])
    for c in p.get("spaceconds", []):
        P.block(c["name"], "SPACE-CONDITIONS", [("AREA/PERSON", c.get("aperson", 10)), ("PEOPLE-HG-SENS", c.get("psens", 40)), ("PEOPLE-HG-LAT", c.get("plat", 20)),
                                                ("PEOPLE-SCHEDULE", q(c["people"])), ("EQUIPMENT-W/AREA", c.get("eq", 4.4)), ("EQUIP-SCHEDULE", q(c["equip"])),
                                                ("LIGHTING-W/AREA", c.get("li", 4.4)), ("LIGHTING-SCHEDULE", q(c["light"]))])
    for c in p.get("sysconds", []):
        P.block(c["name"], "SYSTEM-CONDITIONS", [("TYPE", "CONDITIONED"), ("COOL-TEMP-SCH", q(c["cool"])), ("HEAT-TEMP-SCH", q(c["heat"]))])
    for pg in p.get("polygons", []):
        P.block(pg["name"], "POLYGON", [("V%d" % (i + 1), [v[0], v[1]]) for i, v in enumerate(pg["verts"])])
    for fl in p.get("floors", []):
        a = []
        if "z" in fl:
            a.append(("Z", fl["z"]))
        if "floor_height" in fl:
            a.append(("FLOOR-HEIGHT", fl["floor_height"]))      # storey height incl. plenum: not the height of the spaces
        a += [("SPACE-HEIGHT", fl.get("height", 3)), ("PREVIOUS", q(fl.get("previous", "")))]
        if "mult" in fl:
            a.append(("MULTIPLIER", fl["mult"]))
        P.block(fl["name"], "FLOOR", a)
        for sp in fl.get("spaces", []):
            a = [("SHAPE", "POLYGON"), ("POLYGON", q(sp["polygon"])), ("TYPE", sp.get("type", "CONDITIONED")),
                 ("SPACE-TYPE", q(sp.get("spacetype", "Residencial"))), ("MULTIPLIER", sp.get("mult", 1)), ("MULTIPLIED", 0),
                 ("POWER", sp.get("power", 4.4)), ("VEEI-OBJ", sp.get("veei_obj", 7.0)), ("VEEI-REF", sp.get("veei_ref", 10.0))]
            for k, kk in (("height", "HEIGHT"), ("x", "X"), ("y", "Y"), ("z", "Z"), ("azimuth", "AZIMUTH"), ("nv", "AIR-CHANGES/HR")):
                if k in sp:
                    a.append((kk, sp[k]))
            if "inside" in sp:
                a.append(("perteneceALaEnvolventeTermica", q("SI" if sp["inside"] else "NO")))
            if sp.get("spacecond"):
                a.append(("SPACE-CONDITIONS", q(sp["spacecond"])))
            if sp.get("syscond"):
                a.append(("SYSTEM-CONDITIONS", q(sp["syscond"])))
            P.block(sp["name"], "SPACE", a)
            for w in sp.get("walls", []):
                consname = w.get("consname", "%s_%s" % (w["layers"], w["name"]))
                a = [("CONSTRUCTION", q(consname))]
                if w.get("loc"):
                    a.append(("LOCATION", w["loc"]))
                    if "z" in w:
                        a.append(("Z", w["z"]))                    # an offset in height on an element placed on an edge
                    if "tilt_written" in w:
                        a.append(("TILT", w["tilt_written"]))     # old LIDER writes the tilt next to the location
                else:
                    a += [("X", w.get("x", 0)), ("Y", w.get("y", 0)), ("Z", w.get("z", 0)), ("AZIMUTH", w.get("azimuth", 0)), ("TILT", w.get("tilt", 90)),
                          ("POLYGON", q(w["polygon"]))]
                if w["kind"] == "INTERIOR-WALL":
                    a.append(("INT-WALL-TYPE", w.get("intwalltype", "STANDARD")))
                    if w.get("nextto"):
                        a.append(("NEXT-TO", q(w["nextto"])))
                P.block(w["name"], w["kind"], a)
                if not w.get("noconsblock"):
                    P.block(consname, "CONSTRUCTION", [("TYPE", "LAYERS"), ("LAYERS", q(w["layers"]))] + ([] if w.get("noabs") else [("ABSORPTANCE", w.get("abs", 0.6))]))
                for v in w.get("windows", []):
                    a = [("X", v["x"]), ("Y", v["y"]), ("SETBACK", v.get("setback", 0)), ("HEIGHT", v["h"]), ("WIDTH", v["w"]), ("GAP", q(v["gap"]))]
                    if "coefs" in v:
                        a.append(("COEFF", list(v["coefs"])))
                    if "overhang" in v:
                        o = v["overhang"]
                        a += [("OVERHANG-A", o["a"]), ("OVERHANG-B", o["b"]), ("OVERHANG-W", o["w"]), ("OVERHANG-D", o["d"]), ("OVERHANG-ANGLE", o["angle"])]
                    for side, key in (("LEFT", "lfin"), ("RIGHT", "rfin")):
                        if key in v:
                            f = v[key]
                            a += [("%s-FIN-A" % side, f["a"]), ("%s-FIN-B" % side, f["b"]), ("%s-FIN-H" % side, f["h"]), ("%s-FIN-D" % side, f["d"])]
                    if "louvres" in v:
                        lv = v["louvres"]
                        a += [("POSITION-LAMAS", q("Horizontal" if lv["horizontal"] else "Vertical")), ("LAMAS-WIDTH", lv["w"]), ("LAMAS-DISTANCE", lv["dist"]),
                              ("LAMAS-ANGLE", lv["angle"]), ("LAMAS-TRANSMISIVITY", lv["tran"]), ("LAMAS-REFLECTIVITY", lv["refl"])]
                    P.block(v["name"], "WINDOW", a)
    for s in p.get("shades", []):
        a = [("TRAN", 0), ("REFL", 0.7)]
        if "verts" in s:
            a += [("V%d" % (i + 1), [v[0], v[1], v[2]]) for i, v in enumerate(s["verts"])]
        else:
            a += [("X", s["x"]), ("Y", s["y"]), ("Z", s["z"]), ("HEIGHT", s["h"]), ("WIDTH", s["w"]), ("AZIMUTH", s["azimuth"]), ("TILT", s["tilt"])]
        P.block(s["name"], "BUILDING-SHADE", a)
    for t in p.get("tbs", []):
        a = [("TTL", t.get("ttl", 0.5)), ("FRSI", t.get("frsi", 0.6))]
        if "long" in t:
            a.append(("LONG-TOTAL", t["long"]))
        if "defn" in t:
            a.append(("DEFINICION", t["defn"]))
        if t.get("defn") == 3:
            a += [("LISTA-N", [q(n) for n in t["ln"]]), ("LISTA-L", list(t["ll"])), ("LISTA-MURO", list(t["lmuro"]))]
            if "lmarco" in t:
                a.append(("LISTA-MARCO", list(t["lmarco"])))
        if "type" in t:
            a.append(("TYPE", t["type"]))
            if t["type"] not in ("WINDOW-FRAME", "PILLAR"):
                a += [("ANGLE-MIN", t["amin"]), ("ANGLE-MAX", t["amax"]), ("PARTITION", t["partition"])]
        P.block(t["name"], "THERMAL-BRIDGE", a)
    if want_doc:
        return P.text(), P.doc
    return P.text()


def wrap_ctehexml(bdl, name="Proyecto sintetico", zone="D3", vivienda="Unifamiliar", nuevo=True, nviv=1, vent=50.0, n50=None):
    dg = ["<nomPro>%s</nomPro>" % name, "<tipoVivienda>%s</tipoVivienda>" % vivienda,
          "<tipoDefinicion>%s</tipoDefinicion>" % ("Nuevo" if nuevo else "Existente"),
          "<numViviendasBloque>%d</numViviendasBloque>" % nviv, "<valorImpulsionAire>%s</valorImpulsionAire>" % vent,
          "<zonaClimatica>%s</zonaClimatica>" % zone[:2],
          "<pathArchivoMeteorologicoSeleccionado>C:\\ProgramasCTEyCEE\\DatosClimaticos\\GENERICOS\\zona%s.bin</pathArchivoMeteorologicoSeleccionado>" % zone,
          "<ensayoPermeabilidad>%s</ensayoPermeabilidad>" % ("SI" if n50 is not None else "NO")]
    if n50 is not None:
        dg.append("<ValorN50Medido>%s</ValorN50Medido>" % n50)
    return ('<?xml version="1.0" encoding="utf-8"?>\n<ProyectoCTEHE>\n<DatosGenerales>\n%s\n</DatosGenerales>\n'
            '<EntradaGraficaLIDER><![CDATA[%s]]></EntradaGraficaLIDER>\n</ProyectoCTEHE>\n') % ("\n".join(dg), bdl)


# ------------------------------------------------------------------------------------------- generators

def base_library():
    """construction / schedule / condition definitions shared by the generated projects"""
    return {
        "materials": [{"name": "Ladrillo", "lam": 0.5, "dens": 1200, "thick": 0.2}, {"name": "Aislante", "lam": 0.04, "dens": 30},
                      {"name": "Camara", "r": 0.18}, {"name": "Hormigon", "lam": 2.0, "dens": 2400}],
        "layers": [{"name": "Fachada", "mats": ["Ladrillo", "Aislante", "Camara"], "ths": [0.2, 0.05, 0.02]},
                   {"name": "Forjado", "mats": ["Hormigon", "Aislante"], "ths": [0.25, 0.04]},
                   {"name": "Tabique", "mats": ["Ladrillo"], "ths": [0.1]}],
        # a glazed window, and an opaque door (100 % frame) with a glazing and a frame of its own
        "glasses": [{"name": "Doble", "u": 2.8, "sc": 0.8}, {"name": "VidrioPuerta", "u": 5.7, "sc": 0.9}],
        "frames": [{"name": "MarcoPVC", "u": 2.2, "abs": 0.7, "width": 0.1}, {"name": "MarcoPuerta", "u": 2.0, "abs": 0.6, "width": 0.08}],
        "gaps": [{"name": "HuecoDoble", "glass": "Doble", "frame": "MarcoPVC", "pct": 25, "inf": 27},
                 {"name": "PuertaOpaca", "glass": "VidrioPuerta", "frame": "MarcoPuerta", "pct": 100, "inf": 60}],
        "days": [{"name": "DiaOcupado", "vals": [0, 0, 0, 0, 0, 0, 0, 0.5, 1, 1, 1, 1, 1, 0.5, 1, 1, 1, 1, 0.5, 0, 0, 0, 0, 0]},
                 {"name": "DiaLibre", "vals": [0]}, {"name": "DiaTemp", "vals": [21]}],
        "weeks": [{"name": "SemanaLab", "days": ["DiaOcupado"] * 5 + ["DiaLibre"] * 2}, {"name": "SemanaTemp", "days": ["DiaTemp"]}],
        "years": [{"name": "AnualOcup", "dates": [[31, 7], [31, 8], [31, 12]], "weeks": ["SemanaLab", "SemanaTemp", "SemanaLab"]},
                  {"name": "AnualTemp", "dates": [[31, 12]], "weeks": ["SemanaTemp"]}],
        "spaceconds": [{"name": "Residencial", "people": "AnualOcup", "equip": "AnualOcup", "light": "AnualOcup"}],
        "sysconds": [{"name": "Residencial", "cool": "AnualTemp", "heat": "AnualTemp"}],
    }


OUTLINES = {
    "box": lambda a, b: [[0, 0], [a, 0], [a, b], [0, b]],
    "L": lambda a, b: [[0, 0], [a, 0], [a, b / 2.0], [a / 2.0, b / 2.0], [a / 2.0, b], [0, b]],
    "T": lambda a, b: [[0, 0], [a, 0], [a, b / 2.0], [2 * a / 3.0, b / 2.0], [2 * a / 3.0, b], [a / 3.0, b], [a / 3.0, b / 2.0], [0, b / 2.0]],
}


def random_project(rng, nspaces=None, with_geometry_walls=False, space_offsets=False, azimuths=None, force_devices=False):
    """a closed, convertible project: 1-3 spaces on one or two floors, walls on every edge, floor and roof
    from the outline, windows, shades, bridges, schedules and conditions"""
    p = base_library()
    # library figures drawn per project (distinct values per attribute)
    r3 = lambda lo, hi: round(rng.uniform(lo, hi), 3)
    for m in p["materials"]:
        if "lam" in m:
            m["lam"], m["dens"] = r3(0.03, 2.5), float(rng.randint(20, 2500))
            if rng.random() < 0.5:
                m["cp"] = float(rng.randint(700, 1800))
            if rng.random() < 0.5:
                m["mu"] = float(rng.randint(1, 200))
            if rng.random() < 0.5:
                m["thick"] = r3(0.01, 0.4)
        else:
            m["r"] = r3(0.05, 0.5)
    # the ends of the ranges as well (a written 0 or 1 is a value like any other, not "undefined")
    rb = lambda lo, hi, ends: rng.choice(ends) if rng.random() < 0.25 else r3(lo, hi)
    for g in p["glasses"]:
        g["u"], g["sc"] = r3(0.8, 5.7), rb(0.2, 0.95, [0.0, 1.0])
    for f in p["frames"]:
        f["u"], f["abs"], f["width"] = r3(1.0, 5.9), rb(0.2, 0.95, [0.0, 1.0]), rb(0.03, 0.19, [0.0])
    for g in p["gaps"]:
        g["pct"], g["inf"] = (100.0 if g["name"] == "PuertaOpaca" else float(rng.choice([0, 5, 25, 60]))), float(rng.choice([3, 9, 27, 50, 100]))
        if rng.random() < 0.6:
            g["du"] = float(rng.randint(1, 30))
        if rng.random() < 0.6:
            g["tj"] = rb(0.05, 0.9, [0.0, 1.0])
    # groups of the library elements: written or left out (documented defaults), a different word in every place
    gr = random.Random(rng.random())
    words = ["Grupo = %s" % w if w in ("dos", "siete", "trece") else "Grupo %s" % w for w in ("uno", "dos", "tres", "cuatro", "cinco", "seis", "siete", "ocho", "nueve", "diez", "once", "doce", "trece", "catorce",
                                      "quince", "dieciseis", "diecisiete", "dieciocho", "diecinueve", "veinte", "veintiuno", "veintidos")]
    gr.shuffle(words)
    for kind in ("materials", "layers", "glasses", "gaps"):
        for x in p[kind]:
            if gr.random() < 0.6:
                x["group"] = words.pop()
    for f in p["frames"]:
        f["group"] = words.pop()
    for g in p["gaps"]:
        g["gglass"], g["gframe"] = words.pop(), words.pop()
    for c in p["spaceconds"]:
        # AREA/PERSON = 0 means nobody: the per-person gains written next to it are not divided by it
        c["aperson"], c["psens"], c["plat"] = gr.choice([0, 0, 10, 12.5]), gr.choice([0, 40, 81.2]), gr.choice([0, 20, 45.42])
    p["azimuth"] = rng.choice(azimuths) if azimuths else rng.choice([0, 0, 30, 90, 143.5, 200, 315])
    p["perim"] = rng.choice([None, [1.0, 1.5]])
    if p["perim"] is None:
        del p["perim"]
    nspaces = nspaces or rng.randint(1, 3)
    p["polygons"], p["floors"] = [], []
    forced = []
    sid = 0
    for fi in range(rng.choice([1, 1, 2])):
        h = rng.choice([2.5, 3.0, 3.5])
        fl = {"name": "P%02d" % (fi + 1), "z": fi * 3.0 - (1.5 if rng.random() < 0.2 else 0), "height": h, "mult": rng.choice([1, 1, 2]), "spaces": []}
        for si in range(nspaces):
            sid += 1
            shape = rng.choice(["box", "box", "L", "T"])
            a, b = rng.choice([4, 6, 8, 12]), rng.choice([3, 6, 9])
            verts = OUTLINES[shape](float(a), float(b))
            pname = "%s_E%02d_Pol" % (fl["name"], si + 1)
            p["polygons"].append({"name": pname, "verts": verts})
            sp = {"name": "%s_E%02d" % (fl["name"], si + 1), "polygon": pname, "type": rng.choice(["CONDITIONED", "CONDITIONED", "UNHABITED", "NOACONDICIONADO"]),
                  "mult": 1, "inside": rng.random() < 0.85, "spacecond": "Residencial", "syscond": "Residencial", "walls": []}
            if space_offsets:
                sp["x"], sp["y"] = float(rng.choice([0, 5, 20])) + si * 15.0, float(rng.choice([0, 10]))
            else:
                sp["x"], sp["y"] = si * 15.0, 0.0
            wid = 0
            for vi in range(len(verts)):
                wid += 1
                kind = rng.choice(["EXTERIOR-WALL", "EXTERIOR-WALL", "EXTERIOR-WALL", "UNDERGROUND-WALL", "INTERIOR-WALL"])
                w = {"name": "%s_W%02d" % (sp["name"], wid), "kind": kind, "layers": "Fachada" if kind != "INTERIOR-WALL" else "Tabique",
                     "loc": "SPACE-V%d" % (vi + 1), "windows": []}
                if kind == "INTERIOR-WALL":
                    w["intwalltype"] = rng.choice(["STANDARD", "ADIABATIC"])
                if rng.random() < 0.5:
                    w["abs"] = rng.choice([0.0, 1.0]) if rng.random() < 0.3 else round(rng.uniform(0.2, 0.9), 2)
                elif rng.random() < 0.4:
                    w["noabs"] = True       # ABSORPTANCE not written: documented default 0.6
                edge = ((verts[(vi + 1) % len(verts)][0] - verts[vi][0]) ** 2 + (verts[(vi + 1) % len(verts)][1] - verts[vi][1]) ** 2) ** 0.5
                if kind == "EXTERIOR-WALL" and edge >= 3 and rng.random() < 0.6:
                    v = {"name": w["name"] + "_V1", "gap": rng.choice(["HuecoDoble", "HuecoDoble", "PuertaOpaca"]), "x": 0.5, "y": 1.0, "w": rng.choice([1.0, 1.5, 2.0]), "h": rng.choice([1.0, 1.25]),
                         "setback": rng.choice([0, 0.2])}
                    # shading devices of the window: every figure different, so that a value read from the wrong attribute shows
                    r2 = lambda lo, hi: round(rng.uniform(lo, hi), 2)
                    if rng.random() < 0.5:
                        v["overhang"] = {"a": r2(0.05, 0.4), "b": r2(0.45, 0.8), "w": rng.choice([0, r2(1.0, 2.5)]), "d": r2(0.3, 0.95), "angle": rng.choice([0, 15, 30])}
                    if rng.random() < 0.5:
                        v["lfin"] = {"a": r2(0.05, 0.3), "b": r2(0.31, 0.6), "h": r2(1.0, 2.0), "d": rng.choice([0, r2(0.2, 0.9)])}
                    if rng.random() < 0.5:
                        v["rfin"] = {"a": r2(0.05, 0.3), "b": r2(0.31, 0.6), "h": rng.choice([0, r2(1.0, 2.0), r2(1.0, 2.0)]), "d": r2(0.2, 0.9)}
                    if "lfin" in v and v["lfin"]["d"] > 0 and rng.random() < 0.4:
                        v["rfin"] = dict(v["lfin"])          # a symmetric pair of side fins
                    if force_devices and not forced:
                        # at least one window of the project with an overhang and a symmetric pair of side fins
                        v["overhang"] = {"a": 0.1, "b": 0.5, "w": 2.0, "d": 0.6, "angle": 0}
                        v["lfin"] = {"a": 0.15, "b": 0.35, "h": 1.5, "d": 0.4}
                        v["rfin"] = dict(v["lfin"])
                        forced.append(v["name"])
                    if rng.random() < 0.3:
                        v["coefs"] = [r2(0.1, 1.0), r2(0.1, 1.0), r2(0.1, 1.0), r2(0.1, 1.0)]
                    if rng.random() < 0.3:
                        v["louvres"] = {"horizontal": rng.random() < 0.5, "w": rng.choice([0, r2(0.05, 0.3)]), "dist": r2(0.31, 0.5), "angle": rng.choice([0, 30, 45]),
                                        "tran": r2(0.01, 0.2), "refl": r2(0.3, 0.8)}
                    w["windows"].append(v)
                sp["walls"].append(w)
            sp["walls"].append({"name": sp["name"] + "_Suelo", "kind": rng.choice(["UNDERGROUND-WALL", "EXTERIOR-WALL"]), "layers": "Forjado", "loc": "BOTTOM", "windows": []})
            sp["walls"].append({"name": sp["name"] + "_Techo", "kind": "ROOF", "layers": "Forjado", "loc": "TOP", "windows": []})
            fl["spaces"].append(sp)
        p["floors"].append(fl)
    # interior walls with a neighbour: NEXT-TO another space of the project
    names = [sp["name"] for fl in p["floors"] for sp in fl["spaces"]]
    for fl in p["floors"]:
        for sp in fl["spaces"]:
            for w in sp["walls"]:
                if w["kind"] == "INTERIOR-WALL" and w.get("intwalltype") == "STANDARD":
                    others = [n for n in names if n != sp["name"]]
                    if others:
                        w["nextto"] = rng.choice(others)
                    else:
                        w["intwalltype"] = "ADIABATIC"
    p["shades"] = []
    for i in range(rng.randint(0, 2)):
        if rng.random() < 0.5:
            p["shades"].append({"name": "Sombra%02d" % i, "x": rng.choice([-5.0, 20.0]), "y": -6.0, "z": 0.0, "h": 6.0, "w": 8.0, "azimuth": rng.choice([0, 90, 180]), "tilt": 90})
        else:
            x0 = rng.choice([-8.0, 25.0])
            p["shades"].append({"name": "Sombra%02d" % i, "verts": [[x0, -4, 0], [x0 + 6, -4, 0], [x0 + 6, -4, 5], [x0, -4, 5]]})
    p["tbs"] = [{"name": "PT_frente_forjado", "ttl": round(rng.uniform(0.05, 1.2), 2), "frsi": round(rng.uniform(0.4, 0.9), 2), "long": rng.choice([0, 12.5, 40])},
                {"name": "PT_hueco", "ttl": round(rng.uniform(0.05, 1.2), 2), "frsi": round(rng.uniform(0.4, 0.9), 2), "long": 8.0},
                {"name": "PT_sin_longitud", "ttl": 0.11, "frsi": 0.71}]
    # type, geometry and definition (by default 1, by the user 2, from the catalogue 3 with its lists) of the first two bridges; the third
    # stays as old LIDER files write it. A catalogue bridge of a type without geometry (window frame, pillar) keeps its lists all the same.
    for t in p["tbs"][:2]:
        ty = rng.choice(["SLAB", "MASONRY", "UNDER-EXT", "WINDOW-FRAME", "PILLAR", None])
        if ty:
            t["type"] = ty
            if ty not in ("WINDOW-FRAME", "PILLAR"):
                t.update({"amin": rng.choice([0, 135]), "amax": rng.choice([180, 225, 360]), "partition": rng.choice(["YES", "NO", "BOTH"])})
        d = rng.choice([None, 1, 2, 3, 3])
        if d:
            t["defn"] = d
        if d == 3:
            n = rng.randint(1, 2)
            t.update({"ln": ["Clase de encuentro %d - del catalogo" % i for i in range(n)], "ll": [100] if n == 1 else [60, 40],
                      "lmuro": [round(rng.uniform(0.15, 0.9), 2) for _ in range(n)]})
            if rng.random() < 0.7:
                t["lmarco"] = [round(rng.uniform(1.1, 3.5), 2) for _ in range(n)]
    return p


def write_synthetic_projects(outdir, n, seed):
    rng = random.Random(seed)
    os.makedirs(outdir, exist_ok=True)
    for i in range(n):
        p = random_project(rng, nspaces=2) if i % 5 == 3 else random_project(rng)
        if i % 5 == 3:
            # two occupied spaces whose occupancy calendars have different lengths (one ends on 30 November): the library
            # converts such a project (and reports the mismatch at error level while computing), so the tools must export it
            p["years"].append({"name": "AnualCorto", "dates": [[31, 7], [30, 11]], "weeks": ["SemanaLab", "SemanaLab"]})
            p["spaceconds"].append({"name": "Temporada", "people": "AnualCorto", "equip": "AnualOcup", "light": "AnualOcup", "aperson": 10, "psens": 40, "plat": 20})
            sps = [sp for fl in p["floors"] for sp in fl["spaces"]]
            for k, sp in enumerate(sps):
                sp["type"], sp["inside"] = "CONDITIONED", True
                sp["spacecond"] = "Temporada" if k == 0 else "Residencial"
        d = os.path.join(outdir, "synth%03d" % i)
        os.makedirs(d, exist_ok=True)
        zone = rng.choice(["D3", "A3", "B4", "C2", "E1", "A3c"])
        txt = wrap_ctehexml(print_bdl(p, {"preamble": i % 2 == 0, "seed": i}), name=("" if i % 4 == 1 else "Sintetico %d" % i), zone=zone,   # (a project without a name is a project)
                            vivienda=rng.choice(["Unifamiliar", "Bloque", "Terciario"]), nuevo=rng.random() < 0.5,
                            n50=rng.choice([None, None, 4.5]))
        with open(os.path.join(d, "synth%03d.ctehexml" % i), "w", encoding="utf-8") as f:
            f.write(txt)
    return n


if __name__ == "__main__":
    import sys
    rng = random.Random(int(sys.argv[1]) if len(sys.argv) > 1 else 1)
    print(print_bdl(random_project(rng), {"preamble": True}))
