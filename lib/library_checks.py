"""X01 (coverage beyond the listed properties): convertdb, the conversion of a HULC catalogue into a bemodel Library.
Library.tla gives the library of a catalogue; MC_Library checks closure / grouping on every small catalogue and emits
them; each is printed as a BDCatalogo file (gzip) with figures of its own and converted by the real code, as are random
larger catalogues and the catalogue shipped with the repository (read here by an independent reader)."""
import gzip
import json
import os
import random
import re
import struct

from common import *
from simple_checks import generic_trace_check


def f32(x):
    return struct.unpack("f", struct.pack("f", x))[0]


def n4(x):
    if abs(x) > 1e12:
        return "b:%d" % struct.unpack("I", struct.pack("f", x))[0]      # huge figures: the float itself
    return "n:%d" % int(round(f32(x) * 1e4))


def o4(x):
    return "-" if x is None else n4(x)


def air_chamber(name, t):
    """documented deviation: the thickness of an air chamber layer is given by the name of the material"""
    if name.startswith("Cámara de aire "):
        return {" 1 cm": 0.01, " 2 cm": 0.02, " 5 cm": 0.05, "10 cm": 0.10}.get(name[-5:], t)
    return t


def print_catalogue(c, rng):
    """abstract catalogue with figures -> BDCatalogo text"""
    out = ["$", "$ catalogo generado por el verificador", "$", "TEMPLARY = STANDARD", "$"]
    def block(name, typ, attrs):
        out.append('"%s" = %s' % (name, typ))
        items = list(attrs)
        if rng.random() < 0.5:
            rng.shuffle(items)
        for k, v in items:
            out.append("     %-14s= %s" % (k, v))
        out.append("..")
    num = lambda v: rng.choice(["%s", "%12s", " %s"]) % repr(float(v)) if not float(v).is_integer() or rng.random() < 0.5 else "%d" % int(v)
    for m in c["mats"]:
        a = [("GROUP", '"%s"' % m["group"]), ("NAME", '"%s"' % m["name"]), ("LIBRARY", "YES"), ("IMAGE", '"x.bmp"')]
        if m["kind"] == "P":
            a += [("TYPE", "PROPERTIES"), ("CONDUCTIVITY", num(m["lam"])), ("DENSITY", num(m["dens"]))]
            if m.get("thick") is not None:
                a.append(("THICKNESS", num(m["thick"])))
            if m.get("cp") is not None:
                a.append(("SPECIFIC-HEAT", num(m["cp"])))
            if m.get("mu") is not None:
                a.append(("VAPOUR-DIFFUSIVITY-FACTOR", num(m["mu"])))
        else:
            a += [("TYPE", "RESISTANCE"), ("RESISTANCE", num(m["r"]))]
        block(m["name"], "MATERIAL", a)
    for l in c["lays"]:
        block(l["name"], "LAYERS", [("GROUP", '"%s"' % l["group"]), ("NAME", '"%s"' % l["name"]),
                                    ("MATERIAL", "(%s)" % ",".join('"%s"' % x for x in l["mats"])),
                                    ("THICKNESS", "(%s)" % ", ".join(num(t) for t in l["thsf"])), ("LIBRARY", "YES")])
    for g in c["glas"]:
        block(g["name"], "GLASS-TYPE", [("GROUP", '"%s"' % g["group"]), ("TYPE", "SHADING-COEF"), ("SHADING-COEF", num(g["sc"])),
                                        ("GLASS-CONDUCTANCE", num(g["u"])), ("NAME_CALENER", '""')])
    for f in c["fras"]:
        block(f["name"], "NAME-FRAME", [("GROUP", '"%s"' % f["group"]), ("FRAME-WIDTH", num(f["width"])), ("FRAME-CONDUCT", num(f["u"])),
                                        ("FRAME-ABS", num(f["abs"]))])
    for g in c["gaps"]:
        a = [("NAME", '"%s"' % g["name"]), ("TYPE", "1"), ("GROUP", '"%s"' % g["group"]), ("GROUP-GLASS", '"Vidrios"'), ("GLASS-TYPE", '"%s"' % g["glass"]),
             ("GROUP-FRAME", '"Marcos"'), ("NAME-FRAME", '"%s"' % g["frame"]), ("PORCENTAGE", num(g["pct"])), ("INF-COEF", num(g["inf"]))]
        if g.get("du") is not None:
            a.append(("porcentajeIncrementoU", num(g["du"])))
        if g.get("tj") is not None:
            a.append(("TransmisividadJulio", num(g["tj"])))
        block(g["name"], "GAP", a)
    return "\n".join(out) + "\n"


def with_figures(c, rng):
    """give every definition of an abstract catalogue (names, groups, references) figures of its own; returns the
    catalogue to print and the catalogue as Library.tla sees it (figures in the normal form of the harness)"""
    r3 = lambda lo, hi: round(rng.uniform(lo, hi), 3)
    full = {"mats": [], "lays": [], "glas": [], "fras": [], "gaps": []}
    spec = {"mats": [], "lays": [], "glas": [], "fras": [], "gaps": []}
    for m in c["mats"]:
        if m["kind"] == "P":
            d = dict(m, lam=r3(0.03, 3.5), dens=float(rng.randint(20, 2800)), cp=rng.choice([None, float(rng.randint(700, 2000))]),
                     mu=rng.choice([None, float(rng.randint(1, 10000))]), thick=rng.choice([None, r3(0.01, 0.3)]))
            vals = [n4(d["lam"]), n4(d["dens"]), n4(800.0 if d["cp"] is None else d["cp"]), o4(d["mu"])]
        else:
            d = dict(m, r=r3(0.05, 0.6))
            vals = [n4(d["r"]), "-"]
        full["mats"].append(d)
        spec["mats"].append({"name": m["name"], "group": m["group"], "kind": m["kind"], "vals": vals})
    for l in c["lays"]:
        ths = [r3(0.005, 0.4) for _ in l["mats"]]
        full["lays"].append(dict(l, thsf=ths))
        spec["lays"].append({"name": l["name"], "group": l["group"], "mats": list(l["mats"]), "ths": [n4(air_chamber(x, t)) for x, t in zip(l["mats"], ths)]})
    for g in c["glas"]:
        d = dict(g, u=r3(0.6, 5.7), sc=r3(0.1, 1.0))
        full["glas"].append(d)
        spec["glas"].append({"name": g["name"], "group": g["group"], "vals": [n4(d["u"]), n4(f32(d["sc"]) * f32(0.86))]})
    for f in c["fras"]:
        d = dict(f, u=r3(0.8, 6.0), abs=r3(0.1, 0.95), width=r3(0.02, 0.2))
        full["fras"].append(d)
        spec["fras"].append({"name": f["name"], "group": f["group"], "vals": [n4(d["u"]), n4(d["abs"])]})
    for g in c["gaps"]:
        d = dict(g, pct=float(rng.choice([0, 5, 10, 25, 40, 100])), inf=float(rng.choice([3, 9, 27, 50, 100])), du=rng.choice([None, float(rng.randint(1, 40))]),
                 tj=rng.choice([None, r3(0.05, 1.0)]))
        full["gaps"].append(d)
        spec["gaps"].append({"name": g["name"], "group": g["group"], "glass": g["glass"], "frame": g["frame"],
                             "vals": [n4(d["pct"] / 100.0), n4(0.0 if d["du"] is None else d["du"]), o4(d["tj"]), n4(d["inf"])]})
    return full, spec


def random_catalogue(rng):
    gs = ["Grupo %d" % i for i in range(1, rng.randint(2, 5))]
    mats = [{"name": n, "group": rng.choice(gs), "kind": rng.choice("PPR")} for n in rng.sample(
        ["Ladrillo", "Aislante MW", "Hormigon armado", "Camara", "Yeso", "Cámara de aire sin ventilar vertical 2 cm", "Cámara de aire ligeramente ventilada horizontal 10 cm",
         "Madera [d < 400]", "EPS [0.037 W/[mK]]"], rng.randint(1, 8))]
    mn = [m["name"] for m in mats] + ["No existe"]
    lays = [{"name": "Capas %d" % i, "group": rng.choice(gs), "mats": [rng.choice(mn) if rng.random() < 0.9 else "No existe" for _ in range(rng.randint(1, 5))]}
            for i in range(rng.randint(0, 5))]
    glas = [{"name": "Vidrio %d" % i, "group": rng.choice(gs)} for i in range(rng.randint(0, 3))]
    fras = [{"name": "Marco %d" % i, "group": rng.choice(gs)} for i in range(rng.randint(0, 3))]
    gaps = [{"name": "Hueco %d" % i, "group": rng.choice(gs), "glass": rng.choice([g["name"] for g in glas] + ["Vidrio ausente"]),
             "frame": rng.choice([f["name"] for f in fras] + ["Marco ausente"])} for i in range(rng.randint(0, 4))]
    return {"mats": mats, "lays": lays, "glas": glas, "fras": fras, "gaps": gaps}


# ---------------------------------------------------------------- independent reader of a shipped catalogue

def read_catalogue(text):
    """BDCatalogo text -> the catalogue as Library.tla sees it (one definition per name: the last one)"""
    blocks, cur, pending = [], None, None
    for raw in text.splitlines():
        line = raw.strip()
        if not line or line.startswith("$"):
            continue
        if pending is not None:
            pending[1] += " " + line
            if ")" in line:
                cur[2][pending[0]] = pending[1]
                pending = None
            continue
        m = re.match(r'^"(.*)"\s*=\s*([A-Z][A-Z-]*)\s*$', line)
        if m and cur is None:
            cur = [m.group(1).strip(), m.group(2), {}]
            continue
        if line == "..":
            if cur is not None:
                blocks.append(cur)
            cur = None
            continue
        if cur is None:
            continue
        k, _, v = line.partition("=")
        k, v = k.strip(), v.strip()
        if v.startswith("(") and ")" not in v:
            pending = [k, v]
        else:
            cur[2][k] = v
    unq = lambda s: s.strip().strip('"').strip()
    names = lambda v: [x for x in (t.strip() for t in v.strip().strip("()").split('"')) if x and x != ","]
    nums = lambda v: [float(x) for x in v.strip().strip("()").split(",") if x.strip()]
    c = {"mats": {}, "lays": {}, "glas": {}, "fras": {}, "gaps": {}}
    for name, typ, a in blocks:
        if typ == "MATERIAL":
            name = name.replace("  ", " ")
            g = unq(a.get("GROUP", '"Materiales"'))
            if a.get("TYPE", "").strip() == "PROPERTIES":
                c["mats"][name] = {"name": name, "group": g, "kind": "P", "vals": [n4(float(a["CONDUCTIVITY"])), n4(float(a["DENSITY"])),
                                   n4(float(a.get("SPECIFIC-HEAT", 800))), o4(float(a["VAPOUR-DIFFUSIVITY-FACTOR"]) if "VAPOUR-DIFFUSIVITY-FACTOR" in a else None)]}
            else:
                c["mats"][name] = {"name": name, "group": g, "kind": "R", "vals": [n4(float(a["RESISTANCE"])), "-"]}
        elif typ == "LAYERS":
            ms, ts = names(a["MATERIAL"]), nums(a["THICKNESS"])
            c["lays"][name] = {"name": name, "group": unq(a.get("GROUP", '"Capas"')), "mats": ms, "ths": [n4(air_chamber(x, t)) for x, t in zip(ms, ts)]}
        elif typ == "GLASS-TYPE":
            c["glas"][name] = {"name": name, "group": unq(a.get("GROUP", '"Vidrios"')), "vals": [n4(float(a["GLASS-CONDUCTANCE"])), n4(f32(float(a["SHADING-COEF"])) * f32(0.86))]}
        elif typ == "NAME-FRAME":
            c["fras"][name] = {"name": name, "group": unq(a["GROUP"]), "vals": [n4(float(a["FRAME-CONDUCT"])), n4(float(a["FRAME-ABS"]))]}
        elif typ == "GAP":
            c["gaps"][name] = {"name": name, "group": unq(a.get("GROUP", '"Ventanas"')), "glass": unq(a["GLASS-TYPE"]), "frame": unq(a["NAME-FRAME"]),
                               "vals": [n4(float(a["PORCENTAGE"]) / 100.0), n4(float(a.get("porcentajeIncrementoU", 0))),
                                        o4(float(a["TransmisividadJulio"]) if "TransmisividadJulio" in a else None), n4(float(a["INF-COEF"]))]}
    return {k: [v[n] for n in sorted(v)] for k, v in c.items()}


def run_x01(tier, replay=None):
    quick = tier == "quick"
    rng = random.Random(seed() * 7 + 1)

    def record(wd, tier, cases_file, payload):
        trace = os.path.join(wd, "trace.ndjson")
        if payload is not None:
            write_ndjson(trace, payload["events"])
            return trace, {"replayed_events": len(payload["events"])}
        cdir = os.path.join(wd, "catalogues")
        shutil.rmtree(cdir, ignore_errors=True)
        os.makedirs(cdir)
        reqs = []
        def add(src, text, spec):
            p = os.path.join(cdir, "c%05d.bdc.utf8.gz" % len(reqs))
            with gzip.open(p, "wb") as f:
                f.write(text.encode("utf-8"))
            reqs.append({"path": p, "src": src, "cat": spec})
        cases = read_ndjson(cases_file)
        if quick and len(cases) > 600:
            cases = rng.sample(cases, 600)
        for i, c in enumerate(cases):
            full, spec = with_figures(c, rng)
            add("tlc%d" % i, print_catalogue(full, rng), spec)
        for i in range(40 if quick else 1500):
            full, spec = with_figures(random_catalogue(rng), rng)
            add("random%d" % i, print_catalogue(full, rng), spec)
        shipped = os.path.join(REPO, "hulc/src/ctehexml/BDCatalogo.bdc.utf8.gz")
        text = gzip.open(shipped, "rb").read().decode("utf-8")
        reqs.append({"path": shipped, "src": "BDCatalogo.bdc.utf8.gz", "cat": read_catalogue(text)})
        reqf = os.path.join(wd, "reqs.ndjson")
        write_ndjson(reqf, reqs)
        st = vh(["library", "--reqs", reqf, "--out", trace], timeout=7200)
        shutil.rmtree(cdir, ignore_errors=True)
        return trace, st

    def ctl_ref(ev):
        for e in ev:
            if e.get("ok") and e["got"]["wallcons"] and any(w["layers"] for w in e["got"]["wallcons"]):
                w = next(w for w in e["got"]["wallcons"] if w["layers"])
                w["layers"][0][0] = "dangling"
                return [e], "a layer refers to an id that no material carries", "LayersReferToTheirMaterials"

    def ctl_group(ev):
        for e in ev:
            if e.get("ok") and len(e["got"]["groups"]["materials"]) >= 2:
                g = e["got"]["groups"]["materials"]
                g[0][1].append(g[1][1][0])
                return [e], "a material listed under two groups", "GroupsListEveryItemOnce"

    def ctl_value(ev):
        for e in ev:
            if e.get("ok") and e["got"]["glasses"]:
                e["got"]["glasses"][0]["vals"][1] = "n:1"
                return [e], "solar factor of a glass differs from the written one", "GlassesAsWritten"

    def nontrivial(events):
        return set(json.dumps(e["cat"], sort_keys=True)[:3000] for e in events if e.get("ok"))

    def samples_of(events):
        out = []
        for e in events[:1] + events[-2:-1]:
            out.append({k: (v if len(json.dumps(v)) < 500 else json.dumps(v)[:500] + "...") for k, v in e.items()})
        return out

    def key_of(e, name):
        src = str(e.get("src", ""))
        return "%s:%s" % (name, re.sub(r"\d+$", "", src))

    return generic_trace_check(
        "X01", tier, replay,
        mc=[("MC_Library", "MC_Library.cfg", "MC_Library_t.cfg", 4, None)],
        record=record, trace_module="Trace_Library",
        controls=[ctl_ref, ctl_group, ctl_value],
        nontrivial=nontrivial,
        rule="catalogues: every catalogue of up to 2 (quick: a sample of 600) / 3 (thorough) definitions enumerated by TLC, random catalogues with undefined references, "
             "air chambers, optional attributes present/absent, and the catalogue shipped with the repository; distinct by abstract catalogue",
        samples_of=samples_of, key_of=key_of,
        checker_cmd="tlc MC_Library.cfg; tlc Trace_Library.cfg (TRACE=work/X01/trace.ndjson)",
        trusted=["TLC 1.8.0", "the verifier's catalogue printer and reader (lib/library_checks.py)", "harness library.rs (ids mapped back to names)"],
        assumptions=["names are unique per kind (the catalogue reader keeps one definition per name)"])
