"""C06 / C07: the case analysis of UValue.tla enumerated by TLC; each case is built as a concrete model (the
reference building described in UValue.tla), evaluated by the real code, and compared with the value of the
specification's term (evaluated here, exactly where possible). Real models: every wall recomputed by TLC."""
import copy
import json
import math
import os
import random
import uuid
from fractions import Fraction

from common import *
from simple_checks import generic_trace_check


# ------------------------------------------------------------------------------ term evaluator (B3)
def ev(t):
    """value of a term: Fraction while exact, float after ln / pi"""
    op = t["op"]
    if op == "q":
        return Fraction(t["n"], t["d"])
    if op == "pi":
        return math.pi
    if op == "ln":
        return math.log(float(ev(t["a"])))
    if op == "iflt":
        x, y = ev(t["a"][0]), ev(t["a"][1])
        return ev(t["b"][0]) if float(x) < float(y) else ev(t["b"][1])
    a, b = ev(t["a"]), ev(t["b"])
    if isinstance(a, float) or isinstance(b, float):
        a, b = float(a), float(b)
    if op == "add":
        return a + b
    if op == "sub":
        return a - b
    if op == "mul":
        return a * b
    if op == "div":
        return a / b
    if op == "min":
        return min(a, b)
    if op == "max":
        return max(a, b)
    raise ValueError("unknown term op %r" % op)


def margin(t):
    """smallest |x - y| over the iflt splits of a term: cases too close to a branch boundary are discarded"""
    if not isinstance(t, dict) or "op" not in t:
        return 1e9
    m = 1e9
    if t["op"] == "iflt":
        m = abs(float(ev(t["a"][0])) - float(ev(t["a"][1])))
        for x in list(t["a"]) + list(t["b"]):
            m = min(m, margin(x))
        return m
    for k in ("a", "b"):
        if k in t and isinstance(t[k], dict):
            m = min(m, margin(t[k]))
    return m


def micro(v):
    return int(round(float(v) * 1e6))


# ------------------------------------------------------------------------------ reference building
STACKS = [
    [],
    [("D", 0.2, 0.5)],
    [("D", 0.2, 0.5), ("D", 0.05, 0.04)],
    [("R", 0.02, 0.18)],
    [("D", 0.1, 2.0), ("R", 0.05, 1.5), ("D", 0.02, 0.25)],
    [("D", 0.2, 0.5), ("D", 0.1, 0.04)],
    [("D", 0.2, 0.5), ("missing",)],
    [("zero", 0.1)],
    # layers entered with thickness 0: a resistance-only material still counts with its R, a missing material still has no U
    [("D", 0.12, 0.5), ("R", 0.0, 0.18), ("D", 0.05, 0.04)],
    [("D", 0.2, 0.5), ("missing0",)],
]


def uid(s):
    return str(uuid.uuid5(uuid.NAMESPACE_DNS, "verif-" + s))


def rect(w, h):
    return [[0.0, 0.0], [w, 0.0], [w, h], [0.0, h]]


def cons_from_stack(name, stack, materials):
    layers = []
    for i, l in enumerate(stack):
        mid = uid("%s-m%d" % (name, i))
        if l[0] == "D":
            materials.append({"id": mid, "name": "%s_m%d" % (name, i), "conductivity": l[2], "density": 1000.0, "specific_heat": 1000.0})
            layers.append({"material": mid, "e": l[1]})
        elif l[0] == "R":
            materials.append({"id": mid, "name": "%s_m%d" % (name, i), "resistance": l[2]})
            layers.append({"material": mid, "e": l[1]})
        elif l[0] == "zero":
            materials.append({"id": mid, "name": "%s_m%d" % (name, i), "conductivity": 0.0, "density": 1000.0, "specific_heat": 1000.0})
            layers.append({"material": mid, "e": l[1]})
        elif l[0] == "missing0":
            layers.append({"material": uid("no-such-material"), "e": 0.0})
        else:  # missing material
            layers.append({"material": uid("no-such-material"), "e": 0.1})
    return {"id": uid("cons-" + name), "name": name, "layers": layers, "absorptance": 0.6}


KIND = {"C": "CONDITIONED", "U": "UNCONDITIONED", "N": "UNINHABITED"}


def wall(name, bounds, cons, space, tilt, pos, poly, az=0.0, nxt=None):
    w = {"id": uid("wall-" + name), "name": name, "bounds": bounds, "cons": uid("cons-" + cons), "space": space,
         "geometry": {"tilt": tilt, "azimuth": az, "position": pos, "polygon": poly}}
    if nxt is not None:
        w["next_to"] = nxt
    return w


def build_wall_case(c):
    """model JSON of the reference building for a wall case; the element under test is named TEST"""
    mats = []
    cons = [cons_from_stack("REF", STACKS[1], mats), cons_from_stack("T", STACKS[c["stack"] - 1], mats)]
    tilt = {"TOP": 0.0, "SIDE": 90.0, "BOTTOM": 180.0}[c["tilt"]]
    s1, s2 = uid("space-1"), uid("space-2")
    meta = {"name": "uvalue case", "is_new_building": True, "is_dwelling": True, "num_dwellings": 1, "climate": "D3"}
    if c["vent"] == "global":
        meta["global_ventilation_l_s"] = 40.0
    if c["perim"]:
        meta["d_perim_insulation"] = 1.0
        meta["rn_perim_insulation"] = 1.5
    spaces = [{"id": s1, "name": "S1", "height": 2.5, "kind": KIND[c["this"]], "loads": None, "thermostat": None}]
    if KIND[c["this"]] == "CONDITIONED":
        del spaces[0]["kind"]
    walls = []
    if c["bounds"] == "GROUND":
        spaces[0]["z"] = -c["depth"] / 100.0
        z = spaces[0]["z"]
        side = lambda nm, b, cn, w, az, pos: wall(nm, b, cn, s1, 90.0, pos, rect(w, 2.5), az)
        sides = [side("South", "GROUND", "REF", 4.0, 0.0, [0.0, 0.0, z]), side("North", "GROUND", "REF", 4.0, 180.0, [4.0, 3.0, z]),
                 side("East", "EXTERIOR", "REF", 3.0, 90.0, [4.0, 0.0, z]), side("West", "ADIABATIC", "REF", 3.0, -90.0, [0.0, 3.0, z])]
        slab = wall("Slab", "GROUND", "REF", s1, 180.0, [0.0, 0.0, z], [[0.0, 0.0], [4.0, 0.0], [4.0, -3.0], [0.0, -3.0]])
        roof = wall("Roof", "EXTERIOR", "REF", s1, 0.0, [0.0, 0.0, z + 2.5], rect(4.0, 3.0))
        if c["tilt"] == "BOTTOM":
            slab["name"], slab["cons"] = "TEST", uid("cons-T")
        elif c["tilt"] == "SIDE":
            sides[0]["name"], sides[0]["cons"] = "TEST", uid("cons-T")
        else:
            roof["name"], roof["cons"], roof["bounds"] = "TEST", uid("cons-T"), "GROUND"
        if c["next"] != "none":
            # the west side borders another space (conditioned or not): part of the exposed perimeter only when this space
            # is conditioned and the other is not
            sides[3]["bounds"], sides[3]["next_to"] = "INTERIOR", s2
            sp2 = {"id": s2, "name": "S2", "height": 2.5, "kind": KIND[c["next"]], "loads": None, "thermostat": None, "n_v": 0.5}
            if c["next"] == "C":
                del sp2["kind"]
            spaces.append(sp2)
        walls = sides + [slab, roof]
        if c.get("over"):
            # a floor over outside air owned by the same space, beside the slab (a cantilevered part of the room)
            walls.insert(4, wall("Overhang", "EXTERIOR", "REF", s1, 180.0, [4.0, 0.0, z], [[0.0, 0.0], [2.0, 0.0], [2.0, -3.0], [0.0, -3.0]]))
        # keep the net height of the wall cases at storey - 0.2 (roof REF): the buried roof case has its own stack
    else:
        # the exterior wall and exterior floor of S1
        walls.append(wall("E1", "EXTERIOR", "REF", s1, 90.0, [0.0, 0.0, 0.0], rect(3.0, 3.0)))
        if c["tilt"] != "BOTTOM" or c["bounds"] != "INTERIOR" or True:
            pass
        has_floor_1 = not (c["tilt"] == "BOTTOM")
        if has_floor_1:
            walls.append(wall("F1", "EXTERIOR", "REF", s1, 180.0, [0.0, 0.0, 0.0], [[0.0, 0.0], [4.0, 0.0], [4.0, -3.0], [0.0, -3.0]]))
        nxt = None
        if c["bounds"] == "INTERIOR" and c["next"] != "none":
            if c["next"] == "dangling":
                nxt = uid("space-missing")
            else:
                nxt = s2
                sp2 = {"id": s2, "name": "S2", "height": 2.5, "kind": KIND[c["next"]], "loads": None, "thermostat": None}
                if c["next"] == "C":
                    del sp2["kind"]
                if c["vent"] == "own":
                    sp2["n_v"] = 0.5
                spaces.append(sp2)
                walls.append(wall("E2", "EXTERIOR", "REF", s2, 90.0, [10.0, 0.0, 0.0], rect(3.5, 3.0)))
                walls.append(wall("F2", "EXTERIOR", "REF", s2, 180.0, [10.0, 0.0, 0.0], [[0.0, 0.0], [4.0, 0.0], [4.0, -3.0], [0.0, -3.0]]))
        if c["vent"] == "own":
            spaces[0]["n_v"] = 0.5
        poly = rect(4.0, 3.0) if c["tilt"] != "BOTTOM" else [[0.0, 0.0], [4.0, 0.0], [4.0, -3.0], [0.0, -3.0]]
        test = wall("TEST", c["bounds"], "T", s1, tilt, [0.0, 5.0, 0.0], poly, 0.0, nxt)
        walls.append(test)
        if c.get("glazed"):
            # the exterior wall of each space carries a window of 2 m2 with U = 3 (all glass, no increment)
            wins = [{"id": uid("win-" + w["name"]), "name": "V" + w["name"], "cons": uid("wincons-ref"), "wall": w["id"],
                     "geometry": {"position": [0.5, 0.5], "height": 1.0, "width": 2.0 if w["name"] == "E1" else 1.5, "setback": 0.0}} for w in walls if w["name"] in ("E1", "E2")]
            dbw = {"wallcons": cons, "materials": mats, "wincons": [{"id": uid("wincons-ref"), "name": "VREF", "glass": uid("glass-ref"), "frame": uid("frame-ref"),
                                                                      "f_f": 0.0, "delta_u": 0.0, "c_100": 27.0}],
                   "glasses": [{"id": uid("glass-ref"), "name": "GREF", "u_value": 3.0, "g_gln": 0.7}],
                   "frames": [{"id": uid("frame-ref"), "name": "FREF", "u_value": 2.0, "absorptivity": 0.6}]}
            return {"meta": meta, "spaces": spaces, "walls": walls, "windows": wins, "cons": dbw}
    return {"meta": meta, "spaces": spaces, "walls": walls, "cons": {"wallcons": cons, "materials": mats}}


def build_win_cases(ws):
    """one model holding many window constructions"""
    glasses, frames, wincons = [], [], []
    for i, w in enumerate(ws):
        gid, fid = uid("glass-%d" % i), uid("frame-%d" % i)
        glasses.append({"id": gid, "name": "g%d" % i, "u_value": w["ug"] / 100.0, "g_gln": w["g"] / 100.0})
        frames.append({"id": fid, "name": "f%d" % i, "u_value": w["uf"] / 100.0, "absorptivity": 0.6})
        ref = lambda kind, good: good if kind == "ok" else ("00000000-0000-0000-0000-000000000000" if kind == "nil" else uid("dangling-%d" % i))
        wc = {"id": uid("wincons-%d" % i), "name": "wc%d" % i, "glass": ref(w["glass"], gid), "frame": ref(w["frame"], fid),
              "f_f": w["ff"] / 100.0, "delta_u": float(w["du"]), "c_100": 27.0}
        if w["gsh"] >= 0:
            wc["g_glshwi"] = w["gsh"] / 100.0
        wincons.append(wc)
    return {"meta": {"name": "win cases", "is_new_building": True, "is_dwelling": True, "num_dwellings": 1, "climate": "D3"},
            "cons": {"wincons": wincons, "glasses": glasses, "frames": frames}}


def verdict_event(v, tol6):
    """evaluate the verdict's terms"""
    k = v["k"]
    out = {"k": k, "exp": 0, "lo": 0, "hi": 0, "tol": tol6}
    if k == "exact":
        out["exp"] = micro(ev(v["t"]))
    elif k == "between":
        out["lo"], out["hi"] = micro(ev(v["lo"])), micro(ev(v["hi"]))
    return out


def real_wall_events(path):
    """UReal events for every wall of a model file: layer resistances in 1e-8, tilt class, bounds, neighbours"""
    m = json.load(open(path))
    mats = {x["id"]: x for x in m.get("cons", {}).get("materials", [])}
    cons = {x["id"]: x for x in m.get("cons", {}).get("wallcons", [])}
    spaces = {x["id"]: x for x in m.get("spaces", [])}
    evs = []
    for w in m.get("walls", []):
        c = cons.get(w["cons"])
        resolves = c is not None
        r8 = []
        if c:
            for l in c.get("layers", []):
                mt = mats.get(l["material"])
                if mt is None:
                    resolves = False
                    break
                if "conductivity" in mt:
                    if mt["conductivity"] <= 0:
                        resolves = False
                        break
                    r8.append(int(round(l["e"] / mt["conductivity"] * 1e8)))
                else:
                    r8.append(int(round(mt["resistance"] * 1e8)))
        t = w["geometry"]["tilt"] % 360.0
        tilt = "TOP" if t <= 60 or t >= 300 else ("SIDE" if t < 120 or 240 <= t < 300 else "BOTTOM")
        judged = w["bounds"] in ("EXTERIOR", "ADIABATIC")
        if w["bounds"] == "INTERIOR" and w["space"] in spaces:
            this_c = spaces[w["space"]].get("kind", "CONDITIONED") == "CONDITIONED"
            nx = w.get("next_to")
            if nx is None:
                judged = True
            elif nx in spaces:
                judged = (spaces[nx].get("kind", "CONDITIONED") == "CONDITIONED") == this_c
        if any(r > 2_000_000_000 for r in r8):
            judged = False
        evs.append({"ev": "UReal", "src": os.path.basename(path), "wall": w.get("name", ""), "bounds": w["bounds"], "tilt": tilt,
                    "resolves": resolves, "judged": judged, "r8": r8 if resolves else []})
    return evs


def run_uvalue(prop, tier, replay=None):
    quick = tier == "quick"

    def record(wd, tier, cases_file, payload):
        trace = os.path.join(wd, "trace.ndjson")
        reqf = os.path.join(wd, "reqs.ndjson")
        rng = random.Random(seed())
        if payload is not None and "cases" not in payload:
            # a replay file names the failing case; the whole (small) enumeration is re-executed and re-judged
            res = mc_ok(tlc("MC_UValue", "MC_UValue.cfg", prop + "_replay_mc", workers=4), "MC_UValue")
            payload = {"cases": res["cases"]}
        cases = read_ndjson(cases_file) if payload is None else payload["cases"]
        wallc = [c for c in cases if c["kind"] == "wall"]
        winc = [c for c in cases if c["kind"] == "win"]
        if quick and payload is None:
            # quick: every corner case (frame fraction 0 or 1, unresolved glazing or frame) and 1 in 12 of the rest
            # quick: every corner case (frame fraction 0 or 1 with unresolved glazing or frame), every case that differs from a
            # typical construction in at most two parameters (so that every value of every parameter, extremes included, and
            # every pair of values is exercised), and 1 in 12 of the rest
            typical = {"ff": 20, "du": 10, "ug": 110, "uf": 320, "g": 60, "gsh": -1, "glass": "ok", "frame": "ok"}
            ndiff = lambda c: sum(1 for k, v in typical.items() if c["w"][k] != v)
            corner = lambda c: (c["w"]["ff"] in (0, 100) and (c["w"]["glass"] != "ok" or c["w"]["frame"] != "ok")) or ndiff(c) <= 2
            winc = [c for i, c in enumerate(winc) if corner(c) or (i * 7 + seed()) % 12 == 0]
        reqs, meta = [], []
        discarded = 0
        extra_models = []
        if not quick and payload is None:
            from convert_checks import converted_corpus_models
            extra_models = converted_corpus_models(os.path.join(wd, "models"))
        if prop == "C06":
            for i, c in enumerate(wallc):
                v = c["v"]
                if v["k"] == "exact" and margin(v["t"]) < 0.02:
                    discarded += 1          # too close to a branch of the ground formulas for 32-bit floats
                    continue
                reqs.append({"id": len(meta), "json": json.dumps(build_wall_case(c["c"]))})
                meta.append(("wall", c))
            for p in sorted(os.listdir(os.path.join(REPO, "bemodel/tests/data"))):
                if p.endswith(".json"):
                    path = os.path.join(REPO, "bemodel/tests/data", p)
                    reqs.append({"id": len(meta), "path": path})
                    meta.append(("real", path))
            for path in extra_models:
                reqs.append({"id": len(meta), "path": path})
                meta.append(("real", path))
        else:
            for k in range(0, len(winc), 200):
                chunk = winc[k:k + 200]
                reqs.append({"id": len(meta), "json": json.dumps(build_win_cases([c["w"] for c in chunk]))})
                meta.append(("win", chunk))
            for p in sorted(os.listdir(os.path.join(REPO, "bemodel/tests/data"))):
                if p.endswith(".json"):
                    path = os.path.join(REPO, "bemodel/tests/data", p)
                    reqs.append({"id": len(meta), "path": path})
                    meta.append(("realwin", path))
            for path in extra_models:
                reqs.append({"id": len(meta), "path": path})
                meta.append(("realwin", path))
        write_ndjson(reqf, reqs)
        vh(["uvalue", "--reqs", reqf, "--out", trace + ".raw"], timeout=3600)
        raw = read_ndjson(trace + ".raw")
        events = []
        by_case = {}
        for ans in raw:
            kind, c = meta[ans["id"]]
            if kind == "wall":
                # tolerance: one rounding to 0.01 for air contact and equal-conditioning partitions, two where
                # the code rounds an intermediate (U_e of the neighbour's envelope, B', U_bw, psi)
                cc = c["c"]
                two = cc["bounds"] == "GROUND" or (cc["bounds"] == "INTERIOR" and cc["next"] in ("C", "U", "N") and (cc["this"] == "C") != (cc["next"] == "C"))
                e = {"ev": "UWall", "c": cc, "ok": bool(ans.get("ok"))}
                e.update(verdict_event(c["v"], 10100 if two else 5100))
                got = [w for w in ans.get("walls", []) if w["name"] == "TEST"]
                e["got"] = got[0]["u"] if got else -1
                e["got_props"] = got[0]["u_props"] if got else -1
                e["err"] = ans.get("err", "")
                events.append(e)
                by_case[json.dumps(cc, sort_keys=True)] = e
            elif kind == "win":
                gotmap = {w["name"]: w for w in ans.get("wincons", [])}
                for i, c in enumerate(c):
                    g = gotmap.get("wc%d" % i, {})
                    events.append({"ev": "UWin", "w": c["w"], "ok": bool(ans.get("ok")), "u": verdict_event(c["u"], 5100),
                                   "gwi": verdict_event(c["gwi"], 5100), "gsh": verdict_event(c["gsh"], 5100),
                                   "got_u": g.get("u", -1), "got_u_props": g.get("u_props", -1), "got_gwi": g.get("gwi", -1), "got_gsh": g.get("gsh", -1),
                                   "got_gwi_props": g.get("gwi_props", -1), "got_gsh_props": g.get("gsh_props", -1)})
            elif kind == "real":
                gotmap = {w["name"]: w for w in ans.get("walls", [])}
                for e in real_wall_events(c):
                    e["got"] = gotmap.get(e["wall"], {}).get("u", -1)
                    events.append(e)
            elif kind == "realwin":
                m = json.load(open(c))
                gl = {x["id"]: x for x in m.get("cons", {}).get("glasses", [])}
                fr = {x["id"]: x for x in m.get("cons", {}).get("frames", [])}
                gotmap = {w["name"]: w for w in ans.get("wincons", [])}
                for wc in m.get("cons", {}).get("wincons", []):
                    g, f = gl.get(wc["glass"]), fr.get(wc["frame"])
                    ok = g is not None and f is not None
                    w = {"ff": 0, "du": 0, "ug": 0, "uf": 0, "g": 0, "gsh": -1, "glass": "ok" if g else "dangling", "frame": "ok" if f else "dangling"}
                    uv = {"k": "none", "exp": 0, "lo": 0, "hi": 0, "tol": 5100}
                    gv = dict(uv)
                    sv = dict(uv)
                    if ok:
                        u = (1 + Fraction(str(wc["delta_u"])) / 100) * (Fraction(str(wc["f_f"])) * Fraction(str(f["u_value"])) + (1 - Fraction(str(wc["f_f"]))) * Fraction(str(g["u_value"])))
                        uv = {"k": "exact", "exp": micro(u), "lo": 0, "hi": 0, "tol": 5100}
                        w.update({"ug": int(round(g["u_value"] * 100)), "uf": int(round(f["u_value"] * 100)), "du": int(round(wc["delta_u"]))})
                        if abs(wc["delta_u"] - round(wc["delta_u"])) > 1e-6 or abs(g["u_value"] * 100 - round(g["u_value"] * 100)) > 1e-4 or abs(f["u_value"] * 100 - round(f["u_value"] * 100)) > 1e-4:
                            w["ug"], w["uf"] = 0, 100000      # off-grid inputs: the min/max corollary is not evaluated
                    if g is not None:
                        gv = {"k": "exact", "exp": micro(Fraction(9, 10) * Fraction(str(g["g_gln"]))), "lo": 0, "hi": 0, "tol": 5100}
                    sv = gv if wc.get("g_glshwi") is None else {"k": "exact", "exp": micro(Fraction(str(wc["g_glshwi"]))), "lo": 0, "hi": 0, "tol": 5100}
                    gg = gotmap.get(wc.get("name", ""), {})
                    events.append({"ev": "UWin", "w": w, "ok": bool(ans.get("ok")), "u": uv, "gwi": gv, "gsh": sv, "src": os.path.basename(c),
                                   "got_u": gg.get("u", -1), "got_u_props": gg.get("u_props", -1), "got_gwi": gg.get("gwi", -1), "got_gsh": gg.get("gsh", -1),
                                   "got_gwi_props": gg.get("gwi_props", -1), "got_gsh_props": gg.get("gsh_props", -1)})
        # monotonicity: stack 3 -> 6 thickens the insulation, 2 -> 3 adds a layer
        if prop == "C06":
            for key, e in list(by_case.items()):
                cc = json.loads(key)
                for thin, thick in ((2, 3), (3, 6), (1, 2)):
                    if cc["stack"] == thin and cc["bounds"] != "GROUND":
                        c2 = dict(cc, stack=thick)
                        e2 = by_case.get(json.dumps(c2, sort_keys=True))
                        if e2 and e["ok"] and e2["ok"]:
                            events.append({"ev": "UMono", "c": cc, "thin": e["got"], "thick": e2["got"], "stacks": [thin, thick]})
        write_ndjson(trace, events)
        record.cases = cases
        return trace, {"requests": len(reqs), "traces": len(events), "discarded_near_branch": discarded}

    def ctl_u(ev_):
        for e in ev_:
            if e["ev"] == "UWall" and e["ok"] and e["k"] == "exact" and e["got"] > 0 and e["c"]["stack"] == 1:
                e["got"] += 120
                e["got_props"] += 120
                return [e], "U of an uninsulated element + 0.012", "EqualsDefinition"
            if e["ev"] == "UWin" and e["ok"] and e["u"]["k"] == "exact" and e["got_u"] > 0:
                e["got_u"] += 120
                return [e], "window U + 0.012", "EqualsDefinitionU"

    def ctl_none(ev_):
        for e in ev_:
            if e["ev"] == "UWall" and e["ok"] and e["k"] == "none":
                e["got"] = 0
                return [e], "Some(0.0) instead of no U-value for a missing material", "NoUValueWhenUnresolved"
            if e["ev"] == "UWin" and e["ok"] and e["u"]["k"] == "none":
                e["got_u"] = 57000
                return [e], "a U-value for a construction without glazing", "NoUValueWhenUnresolvedU"

    def nontrivial(events):
        return set(json.dumps(e.get("c") or e.get("w") or [e.get("src"), e.get("wall")], sort_keys=True) + e["ev"] for e in events)

    def samples_of(events):
        out = []
        for kind in ("UWall", "UMono", "UWin", "UReal"):
            out += [e for e in events if e["ev"] == kind][:2]
        return out

    def key_of(e, name):
        if e["ev"] == "UWall":
            c = e["c"]
            return "%s:%s:%s:%s>%s" % (name, c["bounds"], c["tilt"], c["this"], c["next"])
        if e["ev"] == "UReal":
            return "%s:%s:%s" % (name, e["src"], e["wall"])
        return "%s:%s" % (name, e["ev"])

    return generic_trace_check(
        prop, tier, replay,
        mc=[("MC_UValue", "MC_UValue.cfg", "MC_UValue.cfg", 4, None)],
        record=record, trace_module="Trace_UValue",
        controls=[ctl_u, ctl_none],
        nontrivial=nontrivial,
        rule={"C06": "every case of the enumerated case analysis (4 boundary kinds x 3 tilts x 8 layer stacks incl. unresolved ones x conditioning of both sides x neighbour present/none/dangling x ventilation own/global/none x 5 burial depths x perimeter insulation), except ground cases within 0.02 m of the well/poorly insulated branch; plus monotonicity pairs and every wall of the 7 shipped models; distinct by case",
              "C07": "every enumerated window construction (frame fraction x dU x Ug x Uf x g x shading factor x glass/frame reference present, nil or dangling; quick: 1 in 12) and every window construction of the shipped models; distinct by case"}[prop],
        samples_of=samples_of, key_of=key_of,
        checker_cmd="tlc MC_UValue.cfg; tlc Trace_UValue.cfg (TRACE=work/%s/trace.ndjson)" % prop,
        trusted=["TLC 1.8.0", "term evaluator (lib/uvalue_checks.py: ev, ~30 lines; Fractions, math.log, math.pi)", "reference-building builder (build_wall_case / build_win_cases)", "harness uvalue.rs"],
        assumptions=["tolerance 0.0051 where the code rounds once, 0.0101 where it rounds an intermediate first (U_e of the neighbour's envelope, B', U_bw, psi)",
                     "horizontal partitions between equally conditioned spaces and partitions without neighbour: the statement fixes no flow direction, any surface resistance pair is accepted"])
