"""C12: obstruction factors (Shading.tla, MC_Shading, Trace_Shading, harness `shading`)."""
import json

from common import *  # noqa: F401,F403
from simple_checks import generic_trace_check


def run_c12(tier, replay=None):
    quick = tier == "quick"

    def record(wd, tier, cases_file, payload):
        trace = os.path.join(wd, "trace.ndjson")
        if payload is not None:
            write_ndjson(trace, payload["events"])
            return trace, {"replayed_events": len(payload["events"])}
        a = ["shading", "--cases", cases_file, "--out", trace]
        if quick:
            a += ["--generated", "96", "--obstacles", "2"]
        else:
            a += ["--generated", "1600", "--obstacles", "10", "--zones-real", "4", "--convert-corpus"]
        st = vh(a, timeout=7200)
        return trace, st

    def first(ev, pred):
        for e in ev:
            if pred(e):
                return e
        raise StopIteration

    def ctl_scene(ev):
        e = first(ev, lambda e: e["ev"] == "Scene" and 0 < e["got25"] < 25)
        e["got25"] += 1
        return [e], "one more sample point reported sunlit in an exact scene", "SunlitFractionIsShareOfUnblockedSamplePoints"

    def ctl_mean(ev):
        e = first(ev, lambda e: e["ev"] == "Fsh" and e["n"] > 0 and 5 < e["value"] < 95)
        e["value"] += 2
        e["props"] = -2
        return [e], "factor 0.02 above the mean over the July hours", "FactorIsMeanOverJulyHours"

    def ctl_nodiffuse(ev):
        # what dropping the diffuse term from the numerator would report
        e = first(ev, lambda e: e["ev"] == "Fsh" and e["n"] > 0 and e["expect"] == "hidden")
        e["value"] = 0
        return [e], "hidden window reported with factor 0 (diffuse share dropped)", "HiddenAtEveryHourMeansDiffuseShare"

    def ctl_behind(ev):
        e = first(ev, lambda e: e["ev"] == "Fsh" and e["positioned"] and any(x < -1000 for x in e["nd"]))
        i = next(k for k, x in enumerate(e["nd"]) if x < -1000)
        e["sl"][i] = 1000
        return [e], "an hour with the sun behind the window counted as sunlit", "SunBehindMeansNoBeam"

    def ctl_free(ev):
        e = first(ev, lambda e: e["ev"] == "Fsh" and e["expect"] == "free")
        e["value"] = 96
        return [e], "unobstructed window with factor 0.96", "NothingCanHideMeansAtLeast097"

    def ctl_nopos(ev):
        e = first(ev, lambda e: e["ev"] == "Fsh" and e["expect"] == "nopos" and e["n"] > 0)
        e["value"] = 93
        return [e], "window without position with factor 0.93", "NoPositionMeansFullySunlit"

    def ctl_range(ev):
        e = first(ev, lambda e: e["ev"] == "Fsh" and e["n"] > 0)
        e["value"] = 101
        return [e], "factor 1.01", "FactorWithinZeroOne"

    def ctl_mono(ev):
        e = first(ev, lambda e: e["ev"] == "Mono" and e["ok"] and e["n"] > 0 and any(a < b for a, b in zip(e["after"], e["before"])))
        e["before"], e["after"] = e["after"], e["before"]
        return [e], "factors before and after adding the obstacle swapped", "AddingAnObstacleNeverIncreasesAnyFactor"

    def ctl_props(ev):
        e = first(ev, lambda e: e["ev"] == "Fsh" and e["props"] >= 0)
        e["props"] = e["props"] - 1 if e["props"] > 0 else 1
        return [e], "indicator properties report another factor than the computed one", "PropsReportTheComputedFactor"

    def nontrivial(events):
        s = set()
        for e in events:
            if e["ev"] == "Scene" and e["ok"]:
                s.add(json.dumps([e["sc"], e["rot"], e["roof"], e["nfar"], e["ghost"], e["kinds"]], sort_keys=True))
            elif e["ev"] == "Fsh" and e["n"] > 0:
                s.add(json.dumps([e["model"], e["zone"], e["win"], e["sl"]]))
            elif e["ev"] == "Mono" and e["ok"] and e["before"] != e["after"]:
                s.add(json.dumps([e["model"], e["zone"], e["after"]]))
        return s

    def samples_of(events):
        out = []
        for pred in (lambda e: e["ev"] == "Scene" and 0 < e["got25"] < 25, lambda e: e["ev"] == "Fsh" and any(0 < x < 1000 for x in e["sl"]),
                     lambda e: e["ev"] == "Mono" and e["ok"] and e["before"] != e["after"]):
            try:
                e = dict(first(events, pred))
                e.pop("added", None)
                out.append(e)
            except StopIteration:
                pass
        return out

    def key_of(e, name):
        if e["ev"] == "Scene":
            return "%s:scene:%s" % (name, json.dumps(e["sc"], sort_keys=True))
        if e["ev"] == "Fsh":
            return "%s:%s:%s:%s" % (name, e["model"], e["zone"], e["name"])
        return "%s:%s:%s" % (name, e["model"], e.get("what"))

    return generic_trace_check(
        "C12", tier, replay,
        mc=[("MC_Shading", "MC_Shading.cfg", "MC_Shading_t.cfg", 8, None)],
        record=record, trace_module="Trace_Shading",
        controls=[ctl_scene, ctl_mean, ctl_nodiffuse, ctl_behind, ctl_free, ctl_nopos, ctl_range, ctl_mono, ctl_props],
        nontrivial=nontrivial,
        rule="exact scenes enumerated by TLC (window x sun direction x up to two blockers; each replayed in one of 8 horizontal rotations, as a wall or as a roof, "
             "with 0..45 far-away dummies around the leaf size of 30, blockers as shades / exterior / adiabatic walls facing either way, with and without non-blocking "
             "interior / ground walls and foreign reveals); every window of every shipped model (thorough: + every convertible shipped project, 4 zones) and of generated "
             "models (single wall, box, box + shades + set-back windows, L and U footprints, enclosure, no position, tilted) x climate zones; one Mono event per model and "
             "added obstacle; non-trivial = scene executed / window with hourly data / Mono event where some factor changed; distinct by content",
        samples_of=samples_of, key_of=key_of,
        checker_cmd="tlc MC_Shading.cfg; vh shading --cases ...; tlc Trace_Shading.cfg (TRACE=work/C12/trace.ndjson)",
        trusted=["TLC 1.8.0", "harness shading.rs: construction of tilt/azimuth/polygon from corner points in f64, quantisation (sunlit 1e-3, irradiance 0.01 W/m2, n.d 1e-4)",
                 "the hourly inputs are obtained through the public functions the indicator itself uses (JULYRADDATA, ray_dir_to_sun, radiation_for_surface, "
                 "ray_origins_for_window, collect_occluders, sunlit_fraction); the exact scenes ground sunlit_fraction, C20 grounds radiation_for_surface"],
        assumptions=["sample points are the code's 5 x 5 cell centres (the property does not fix the sampling; exact scenes use windows whose sides are multiples of 0.5 m)",
                     "scenes in which a sample ray grazes an edge of a blocker or of the recess are excluded by the specification (Grazes)",
                     "hours with 0.0095 <= n.d <= 0.0105 are left undecided for the back-face rule"])
