"""C13: Bvh.tla (transcription of bvh.rs) model-checked; every construction of the exhaustive small instance
and seeded families up to 200 elements are executed by the real BVH::build with hooks H1 and validated by
Trace_Bvh; accelerated queries vs exhaustive scan vs the specification's TreeHit. RayGeom part: see raygeom."""
import copy
import json
import os

from common import *

RAYS = [{"o": [x, y, z], "a": a, "d": d} for x in (-5, 1, 9, 19) for y in (-5, 1, 9) for z in (1, 13)
        for a in (1, 2, 3) for d in (1, -1)]


def bvh_part(R, tier, wd, replay=None):
    quick = tier == "quick"
    cases_file = os.path.join(wd, "bvh_cases.ndjson")
    ncases = 0
    if replay is None:
        res = mc_ok(tlc("MC_Bvh", "MC_Bvh_fixed%s.cfg" % ("_q" if quick else ""), "C13_mc", workers=8, timeout=3000), "MC_Bvh fixed")
        if res["violated"]:
            raise ToolError("Bvh.tla (fixed variant) violates %s: specification error" % res["violated"])
        R.add_mc("MC_Bvh_fixed", res)
        # sensitivity of the specification: the algorithm as shipped must violate the three invariants
        orig = {}
        for inv in ("NoPanic", "Bounded", "AccEqLin"):
            cfg = os.path.join(wd, "orig_%s.cfg" % inv)
            txt = open(os.path.join(SPEC, "MC_Bvh_orig.cfg")).read()
            txt = "\n".join(("INVARIANTS " + inv) if l.startswith("INVARIANTS") else l for l in txt.splitlines()
                            if not l.startswith("PROPERTIES")).replace("MaxLen = 4", "MaxLen = 3")
            open(cfg, "w").write(txt + "\n")
            r = tlc("MC_Bvh", cfg, "C13_orig", workers=4, timeout=600)
            orig[inv] = inv in r["violated"]
        R.cov["spec_detects_shipped_defects"] = orig
        if not all(orig.values()):
            raise ToolError("vacuity: Bvh.tla variant 'orig' does not violate %s" % [k for k, v in orig.items() if not v])
        res = mc_ok(tlc("MC_Bvh", "MC_Bvh_emit%s.cfg" % ("_q" if quick else ""), "C13_emit", workers=4, timeout=3000), "MC_Bvh emit")
        cases = res["cases"]
        seen, uniq = set(), []
        for c in cases:
            k = json.dumps(c, sort_keys=True)
            if k not in seen:
                seen.add(k)
                uniq.append(c)
        step = 4 if quick else 1
        sel = [c for i, c in enumerate(uniq) if (i + seed()) % step == 0]
        for i, c in enumerate(sel):
            c["rays"] = [r for j, r in enumerate(RAYS) if quick is False or (i + j) % 6 == 0]
        write_ndjson(cases_file, sel)
        ncases = len(sel)
    trace = os.path.join(wd, "bvh_trace.ndjson")
    if replay is not None:
        reqf = os.path.join(wd, "bvh_replay.reqs")
        write_ndjson(reqf, replay["requests"])
        stats = vh(["bvh", "--reqs", reqf, "--random", "0", "--out", trace])
    else:
        stats = vh(["bvh", "--cases", cases_file, "--random", "120" if quick else "2500",
                    "--maxn", "60" if quick else "200", "--out", trace], timeout=7200)
    events = read_ndjson(trace)
    reqs = read_ndjson(trace + ".reqs")
    fails, consumed, res = validate_trace("Trace_Bvh", trace, "C13", "C13_trace", timeout=7200)
    R.cov["traces_validated_against_impl"] += stats["builds"]
    R.cov["evaluations"] += len(events)
    R.cov["bvh_builds"] = stats["builds"]
    R.cov["bvh_tlc_cases_replayed"] = ncases
    R.cov["bvh_queries"] = sum(len(e.get("qs", [])) for e in events)
    if not consumed:
        line = int(res["unmatched"][0])
        e = events[line - 1] if line - 1 < len(events) else {}
        R.violation("NotABehaviourOfBvh:%s" % e.get("ev"), "trace line %d (%s) is not a step of Bvh.tla" % (line, json.dumps(e)[:200]),
                    {"requests": [reqs[e["req"]]] if "req" in e else [], "event": e, "part": "bvh"})
    seen_req = set()
    for line, p, name in fails:
        e = events[line - 1]
        if e.get("req") in seen_req:
            continue
        seen_req.add(e.get("req"))
        detail = (e.get("site") or e.get("reason") or "").split("|")[0] if e["ev"] == "BvhAbort" else ""
        key = "%s:%s" % (name, detail)
        R.violation(key, "%s fails at trace line %d: %s" % (name, line, json.dumps({k: v for k, v in e.items() if k != "boxes"})[:300]),
                    {"requests": [reqs[e["req"]]] if "req" in e else [], "obligation": name, "part": "bvh"})
    if replay is None and not R.violations:
        # negative control: flip one accelerated answer; drop one attach event
        ev = copy.deepcopy(events)
        desc = None
        for i, e in enumerate(ev):
            if e["ev"] == "BvhQuery" and e["qs"] and e["exact"]:
                e["qs"][0]["acc"] = not e["qs"][0]["acc"]
                e["qs"][0]["lin"] = e["qs"][0]["acc"]
                desc = "line %d: first query answer flipped (both accelerated and exhaustive)" % (i + 1)
                req = e["req"]
                small = [x for x in ev if x.get("req") == req]
                break
        ctrace = os.path.join(wd, "bvh_control.ndjson")
        write_ndjson(ctrace, small)
        cf, _, _ = validate_trace("Trace_Bvh", ctrace, "C13", "C13_control")
        fired = any(n == "AcceleratedEqualsSpecification" for _, _, n in cf)
        R.cov["negative_controls"].append({"corruption": desc, "rejected": fired})
        # second control: a construction event removed -> not a behaviour
        small2 = [x for x in events if x.get("req") == req]
        idx = next((i for i, x in enumerate(small2) if x["ev"] in ("BvhLeaf",)), None)
        if idx is not None:
            del small2[idx]
            write_ndjson(ctrace, small2)
            cf2, cons2, _ = validate_trace("Trace_Bvh", ctrace, "C13", "C13_control2")
            fired2 = (not cons2) or bool(cf2)
            R.cov["negative_controls"].append({"corruption": "one BvhLeaf event dropped", "rejected": fired2})
            fired = fired and fired2
        if not fired:
            raise ToolError("negative control did not fire for Trace_Bvh")
    nontrivial = set()
    for e in events:
        if e["ev"] == "BvhStart" and e["n"] > 0:
            nontrivial.add(json.dumps([e["max"], e["boxes"]])[:4000])
    return len(nontrivial), events


def run_c13(tier, replay=None):
    R = Result("C13", tier)
    build_harness()
    wd = workdir("C13")
    payload = json.load(open(replay)) if replay else None
    nt = 0
    samples = []
    if payload is None or payload.get("part") == "bvh":
        n, events = bvh_part(R, tier, wd, payload)
        nt += n
        samples.append({"bvh_events_of_one_build": [{k: v for k, v in e.items()} for e in events if e.get("req") == 7][:6]})
    try:
        from raygeom_checks import raygeom_part
    except ImportError:
        raygeom_part = None
    if raygeom_part and (payload is None or payload.get("part") == "raygeom"):
        n, smp = raygeom_part(R, tier, wd, payload)
        nt += n
        samples += smp
    # the exact scenes of Shading.tla, which go through the whole query path of the code: collect_occluders (each polygon
    # behind its own bounding-box test), the acceleration structure over them, the ray / polygon test. A ray must be blocked
    # exactly when it meets an obstacle of the scene, whatever box the obstacle sits in.
    if payload is None or payload.get("part") == "scenes":
        strace = os.path.join(wd, "scenes_trace.ndjson")
        if payload is None:
            res = mc_ok(tlc("MC_Shading", "MC_Shading.cfg", "C13_scenes_mc", workers=4, timeout=3000), "MC_Shading")
            if res["violated"]:
                raise ToolError("Shading.tla violated: %s" % res["violated"])
            R.add_mc("MC_Shading.cfg (scenes)", res)
            cf = os.path.join(wd, "scene_cases.ndjson")
            cs = res["cases"] if tier != "quick" else res["cases"][::3]
            write_ndjson(cf, cs)
            vh(["shading", "--cases", cf, "--scenes-only", "--out", strace], timeout=3600)
        else:
            write_ndjson(strace, payload["events"])
        sev = read_ndjson(strace)
        sfails, scons, _ = validate_trace("Trace_Shading", strace, "C12", "C13_scenes_trace")
        if not scons:
            raise ToolError("scene trace not consumed")
        nt += len(sev)
        for line, p, name in sfails:
            if name not in ("SunlitFractionIsShareOfUnblockedSamplePoints", "NoPanic"):
                continue          # (the reveal / outline finding is C12's)
            e = sev[line - 1]
            R.violation("ScenesThroughOccluders:%s" % name, "a ray through the occluder set of an exact scene does not match exact geometry (%s): %s" % (name, json.dumps(e)[:300]),
                        {"events": [e], "part": "scenes"})
        if payload is None and not R.violations:
            bad = None
            for e in sev:
                if e["ev"] == "Scene" and e.get("ok") and 0 < e["got25"] < 25 and not (e.get("shift") and e["sc"]["win"]["sb"] > 0):
                    bad = dict(e, got25=e["got25"] + 1)
                    break
            if bad is None:
                raise ToolError("negative control for the scenes could not be constructed")
            cfile = os.path.join(wd, "scenes_control.ndjson")
            write_ndjson(cfile, [bad])
            cf2, _, _ = validate_trace("Trace_Shading", cfile, "C12", "C13_scenes_control")
            fired = any(n == "SunlitFractionIsShareOfUnblockedSamplePoints" for _, _, n in cf2)
            R.cov["negative_controls"].append({"corruption": "one more sample point of an exact scene reported unblocked", "rejected": fired})
            if not fired:
                raise ToolError("negative control did not fire for the scenes")
    R.cov["distinct_nontrivial"] = nt
    R.cov["rule"] = "BVH: distinct non-empty element sets built (TLC-enumerated small sets + seeded families up to 200 elements: random, duplicated, coinciding centres, collinear); geometry: distinct (polygon, pose, ray) cases with the crossing point at least 1 mm from the outline"
    R.cov["samples"] = samples
    R.cov["checker_cmd"] = "tlc MC_Bvh_fixed.cfg; tlc Trace_Bvh.cfg (TRACE=work/C13/bvh_trace.ndjson)"
    R.cov["trusted_base"] = ["TLC 1.8.0", "hooks H1 in bvh.rs (add-only)", "harness bvhcheck.rs (exact rational slab test for free rays)", "harness shading.rs (exact scenes)"]
    R.assumptions = ["exact scenes use integer boxes and axis-parallel rays with origins off the box planes; free rays are only compared accelerated vs exhaustive"]
    return R.finish()
