"""C18: parsers of HULC files. Documents printed by the verifier's printers in random layouts, the corpus as
shipped and re-printed, KyG and tbl records; validated by Trace_Bdl."""
import json
import os
import random
import re

from common import *
from simple_checks import generic_trace_check
import bdl_projects
import bdltext
from convert_checks import corpus_project_files, read_text

OPAQUE = {"EXTERIOR-WALL", "INTERIOR-WALL", "ROOF", "UNDERGROUND-WALL", "UNDERGROUND-FLOOR"}
HANGING = {"WINDOW", "DOOR", "CONSTRUCTION"}


def n4(v):
    return "n:%d" % int(round(float(v) * 1e4))


def norm_value(v):
    """the normal form the harness uses: numbers n:<1e-4 units>, strings s:<text>, lists l:item|item"""
    if isinstance(v, (list, tuple)):
        items = []
        for x in v:
            if isinstance(x, str):
                items.append(x.strip().strip('"'))
            else:
                items.append(n4(x))
        return "l:" + "|".join(items)
    if isinstance(v, str):
        t = v.strip().strip('"')
        try:
            float(t)
            return n4(t)
        except ValueError:
            return "s:" + t
    return n4(v)


def expected_doc(doc):
    st = {"floor": "Default", "space": "", "wall": ""}
    out = []
    for name, btype, attrs in doc:
        if btype == "SPACE":
            parent = st["floor"]
        elif btype in OPAQUE:
            parent = st["space"]
        elif btype in HANGING:
            parent = st["wall"]
        else:
            parent = "-"
        if btype == "FLOOR":
            st["floor"] = name
        elif btype == "SPACE":
            st["space"] = name
        elif btype in OPAQUE:
            st["wall"] = name
        amap = {}
        for k, v in attrs:
            amap[k] = norm_value(v)
        out.append([name, btype, parent, [[k, amap[k]] for k in sorted(amap)]])
    return out


def random_layout(rng, i):
    return {"seed": i, "crlf": rng.random() < 0.3, "indent": rng.choice([0, 2, 4, 9]), "nameindent": rng.choice([0, 0, 3]),
            "comments": rng.random() < 0.5, "blanklines": rng.random() < 0.5, "tighteq": rng.random() < 0.2,
            "shuffle": rng.random() < 0.5, "multiline": rng.random() < 0.5, "closeown": rng.random() < 0.3,
            "padvalues": rng.random() < 0.5, "trailing": rng.random() < 0.3, "intstyle": rng.randrange(4),
            "floatpad": rng.random() < 0.3, "preamble": rng.random() < 0.4, "numforms": rng.random() < 0.6}


def relayout_text(text, rng):
    """re-print the BDL section of a real file in another layout without touching its tokens"""
    s, e = bdltext.bdl_span(text)
    body = text[s:e]
    cdata = body.strip().startswith("<![CDATA[")
    inner = body.strip()
    if cdata:
        inner = inner[len("<![CDATA["):-len("]]>")] if inner.endswith("]]>") else inner[len("<![CDATA["):]
    lines = inner.replace("\r\n", "\n").split("\n")
    out = []
    ind = " " * rng.choice([0, 3, 7])
    for ln in lines:
        t = ln.strip()
        if not t:
            if rng.random() < 0.5:
                out.append("")
            continue
        out.append(ind + t + ("  " if rng.random() < 0.2 else ""))
        if t == "..":
            if rng.random() < 0.3:
                out.append("$ ---- comentario del verificador ----")
            if rng.random() < 0.3:
                out.append("")
    nl = "\r\n" if rng.random() < 0.5 else "\n"
    return nl.join(out) + nl


def typed_expected(p):
    """what bdl::Data must hold for a generated project (documented defaults included)"""
    mats = []
    for m in sorted(p.get("materials", []), key=lambda m: m["name"]):
        if "r" in m:
            mats.append([m["name"], -1, -1, -1, int(round(m["r"] * 1e4))])
        else:
            mats.append([m["name"], int(round(m["lam"] * 1e4)), int(round(m.get("dens", 1000) * 1e4)), int(round(m.get("cp", 800) * 1e4)), -1])
    wallcons = {}
    for l in p.get("layers", []):
        wallcons[l["name"]] = [l["name"], list(l["mats"]), [int(round(t * 1e4)) for t in l["ths"]]]
    spaces, walls, windows, wallgeo = [], [], [], []
    n4x = lambda x: int(round(x * 1e4))
    polys = {pg["name"]: pg["verts"] for pg in p.get("polygons", [])}
    for fl in p.get("floors", []):
        for sp in fl["spaces"]:
            typ = sp.get("type", "CONDITIONED")
            inside = sp["inside"] if "inside" in sp else (typ == "CONDITIONED")
            spaces.append([sp["name"], typ, fl["name"], int(round(fl.get("height", 3) * 1e4)), int(round(sp.get("x", 0) * 1e4)), int(round(sp.get("y", 0) * 1e4)),
                           int(round((sp.get("z", 0) + fl.get("z", 0)) * 1e4)), int(round(sp.get("azimuth", 0) * 1e4)), inside,
                           int(round(sp.get("mult", 1) * 1e4)), int(round(fl.get("mult", 1) * 1e4)),
                           sp.get("spacecond") or sp.get("spacetype", "Residencial"), sp.get("syscond") or sp.get("spacetype", "Residencial"),
                           [[int(round(v[0] * 1e4)), int(round(v[1] * 1e4))] for v in polys[sp["polygon"]]],
                           # air changes: fixed by the tightness level for uninhabited spaces, else the written value, else none
                           ({"NIVEL_ESTANQUEIDAD_1": 1000, "NIVEL_ESTANQUEIDAD_2": 5000, "NIVEL_ESTANQUEIDAD_3": 10000, "NIVEL_ESTANQUEIDAD_4": 30000,
                             "NIVEL_ESTANQUEIDAD_5": 100000}.get(sp.get("spacecond") or sp.get("spacetype", "Residencial")) if typ == "UNHABITED" else None)
                           or (int(round(sp["nv"] * 1e4)) if "nv" in sp else -1),
                           int(round(sp.get("power", 4.4) * 1e4)), int(round(sp.get("veei_obj", 7.0) * 1e4)), int(round(sp.get("veei_ref", 10.0) * 1e4)),
                           sp.get("spacetype", "Residencial")])
            for w in sp["walls"]:
                consname = w.get("consname", "%s_%s" % (w["layers"], w["name"]))
                wallcons[consname] = [consname, list(wallcons[w["layers"]][1]), list(wallcons[w["layers"]][2])]
                bounds = {"EXTERIOR-WALL": "EXTERIOR", "ROOF": "EXTERIOR", "UNDERGROUND-WALL": "GROUND"}.get(w["kind"])
                if w["kind"] == "INTERIOR-WALL":
                    bounds = "INTERIOR" if w.get("intwalltype", "STANDARD") == "STANDARD" else "ADIABATIC"
                loc = w.get("loc")
                locv = "-" if not loc else (loc[len("SPACE-"):] if loc.startswith("SPACE-") else loc)
                tilt = w.get("tilt") if not loc else (0 if (w["kind"] == "ROOF" or loc == "TOP") else 180 if loc == "BOTTOM" else 90)
                if loc and "tilt_written" in w:
                    tilt = w["tilt_written"]          # a written value is the value, wherever the element is located
                nextto = w.get("nextto") if bounds == "INTERIOR" and w.get("nextto") else "-"
                walls.append([w["name"], bounds, sp["name"], consname, locv, int(round(tilt * 1e4)), nextto])
                for v in w.get("windows", []):
                    n4 = lambda x: int(round(x * 1e4))
                    oh = v.get("overhang")
                    ohv = [n4(oh["a"]), n4(oh["b"]), n4(oh["d"]), n4(oh["w"]), n4(oh["angle"])] if oh and oh["d"] * oh["w"] > 0 else []
                    fins = []
                    for key in ("lfin", "rfin"):
                        f = v.get(key)
                        fins.append([n4(f["a"]), n4(f["b"]), n4(f["d"]), n4(f["h"])] if f and f["d"] * f["h"] > 0 else [])
                    lv = v.get("louvres")
                    lvv = [bool(lv["horizontal"]), n4(lv["w"]), n4(lv["dist"]), n4(lv["angle"]), n4(lv["tran"]), n4(lv["refl"])] if lv and lv["w"] > 0 else []
                    windows.append([v["name"], w["name"], v["gap"], n4(v["x"]), n4(v["y"]), n4(v["w"]), n4(v["h"]), n4(v.get("setback", 0)),
                                    [n4(c) for c in v["coefs"]] if "coefs" in v else [], ohv, fins[0], fins[1], lvv])
                # placement of elements defined by their own polygon
                if not loc:
                    wallgeo.append([w["name"], n4x(w.get("x", 0)), n4x(w.get("y", 0)), n4x(w.get("z", 0)), n4x(w.get("azimuth", 0)),
                                    [[n4x(q[0]), n4x(q[1])] for q in polys[w["polygon"]]]])
    # library and other elements
    wincons = [[g["name"], g["glass"], g["frame"], n4x(g["pct"] / 100.0), n4x(g["inf"]), n4x(g.get("du", 0)), n4x(g["tj"]) if "tj" in g else -1]
               for g in sorted(p.get("gaps", []), key=lambda g: g["name"])]
    glasses = [[g["name"], n4x(g["u"]), n4x(g["sc"] * 0.86)] for g in sorted(p.get("glasses", []), key=lambda g: g["name"])]
    frames = [[f["name"], n4x(f["u"]), n4x(f.get("abs", 0.7)), n4x(f.get("width", 0.1))] for f in sorted(p.get("frames", []), key=lambda f: f["name"])]
    shades = []
    for sh in p.get("shades", []):
        if "verts" in sh:
            shades.append([sh["name"], [], [[n4x(c) for c in v] for v in sh["verts"]]])
        else:
            shades.append([sh["name"], [n4x(sh["x"]), n4x(sh["y"]), n4x(sh["z"]), n4x(sh["h"]), n4x(sh["w"]), n4x(sh["azimuth"]), n4x(sh["tilt"])], []])
    tbs = [[t["name"], n4x(t["long"]) if "long" in t else -1, n4x(t.get("ttl", 0.5)), n4x(t.get("frsi", 0.6))] for t in p.get("tbs", [])]
    # type, geometry and catalogue lists of the thermal bridges (each position has one type of value: TLC compares the rows)
    tbx = [[t["name"], t.get("type", ""), [n4x(t["amin"]), n4x(t["amax"])] if "amin" in t else [], t.get("partition", ""), 1 if t.get("defn") == 3 else 0,
            list(t.get("ln", [])) if t.get("defn") == 3 else [], [n4x(x) for x in t.get("ll", [])], [n4x(x) for x in t.get("lmuro", [])], [n4x(x) for x in t.get("lmarco", [])]]
           for t in p.get("tbs", [])]
    floors = [[fl["name"], n4x(fl.get("z", 0)), n4x(fl.get("height", 3)), n4x(fl.get("mult", 1)), fl.get("previous", "")] for fl in p.get("floors", [])]
    absorp = {l["name"]: 6000 for l in p.get("layers", [])}       # a LAYERS block no CONSTRUCTION refers to by its own name: documented default 0.6
    for fl in p.get("floors", []):
        for sp in fl["spaces"]:
            for w in sp["walls"]:
                if not w.get("noconsblock"):
                    absorp[w.get("consname", "%s_%s" % (w["layers"], w["name"]))] = n4x(w.get("abs", 0.6))
    groups = {"materials": [[m["name"], m.get("group", "Materiales")] for m in sorted(p.get("materials", []), key=lambda m: m["name"])],
              "layers": [[l["name"], l.get("group", "Capas")] for l in sorted(p.get("layers", []), key=lambda l: l["name"])],
              "glasses": [[g["name"], g.get("group", "Vidrios")] for g in sorted(p.get("glasses", []), key=lambda g: g["name"])],
              "frames": [[f["name"], f.get("group", "Marcos")] for f in sorted(p.get("frames", []), key=lambda f: f["name"])],
              "gaps": [[g["name"], g.get("group", "Ventanas"), g.get("gglass", "Vidrios"), g.get("gframe", "Marcos")] for g in sorted(p.get("gaps", []), key=lambda g: g["name"])]}
    lgroup = {l["name"]: l.get("group", "Capas") for l in p.get("layers", [])}
    for fl in p.get("floors", []):
        for sp in fl["spaces"]:
            for w in sp["walls"]:
                # the construction of an element is the layer set under another name: same group
                lgroup[w.get("consname", "%s_%s" % (w["layers"], w["name"]))] = lgroup[w["layers"]]
    groups["layers"] = [[k, lgroup[k]] for k in sorted(lgroup)]
    matx = [[m["name"], n4x(m["thick"]) if "thick" in m else -1, n4x(m["mu"]) if "mu" in m else -1] for m in sorted(p.get("materials", []), key=lambda m: m["name"]) if "r" not in m]
    return {"materials": mats, "wallcons": [wallcons[k] for k in sorted(wallcons)], "spaces": spaces, "walls": walls, "windows": windows,
            "wallgeo": wallgeo, "wincons": wincons, "glasses": glasses, "frames": frames, "shades": shades, "tbs": tbs, "tbx": tbx, "floors": floors,
            "absorptance": [[k, absorp[k]] for k in sorted(absorp)], "matx": matx, "groups": groups}


def fmtnum(v, comma, rng):
    s = "%.2f" % v if rng.random() < 0.7 else "%.6f" % v
    return s.replace(".", ",") if comma else s


def random_kyg(rng, comma, newcols):
    walls, wins, tbs = [], [], []
    lines = ["###;Datos para Factor de Perdidas"]
    exp_w, exp_v, exp_t = {}, {}, {}
    for i in range(rng.randint(1, 6)):
        n = "P01_E01_M%03d" % i
        a, u, b = round(rng.uniform(1, 80), 2), round(rng.uniform(0.1, 3), 2), float(rng.choice([0, 1]))
        cols = ["Muro", n, fmtnum(a, comma, rng), fmtnum(u, comma, rng), fmtnum(b, comma, rng)]
        extra = ["", "", ""]
        if newcols:
            # (construction names of HULC's own library contain commas: "MED por defecto C, D, E")
            extra = ["Fachada", rng.choice(["E", "S", "N", "O", "H"]), rng.choice(["SATE", "MED por defecto C, D, E", "ladrillo, medio pie"])]
            cols += [extra[0], extra[1] + " ", extra[2]]
        lines.append(";".join(cols))
        exp_w[n] = [n, a, u, b] + extra
        for j in range(rng.randint(0, 2)):
            vn = "%s_V%d" % (n, j)
            va, vu, ff = round(rng.uniform(0.5, 6), 2), round(rng.uniform(0.8, 5.7), 2), float(rng.choice([10, 20, 25]))
            o = rng.choice(["E", "S", "N", "O", "NE", "SO"])
            cols = ["Ventana", vn, fmtnum(va, comma, rng), fmtnum(vu, comma, rng), o + " ", fmtnum(ff, comma, rng)]
            g, inf, cons = -1, -1, ""
            if newcols:
                g, inf, cons = round(rng.uniform(0.3, 0.85), 2), float(rng.choice([3, 9, 27, 50])), rng.choice(["PVC 2", "Doble Claro 4,6", "Hueco, tipo 1"])
                cols += [fmtnum(g, comma, rng), fmtnum(-1.0, comma, rng), fmtnum(1.0, comma, rng), fmtnum(inf, comma, rng), cons]
            lines.append(";".join(cols))
            az, htot = float(rng.choice([0, 90, 180, 270])), float(rng.choice([64000, 80000, 100000, 128000]))
            # radiation after remote obstacles, after facade obstacles, after louvres: three different figures
            h1 = htot * rng.choice([1.0, 0.9, 0.8])
            h2 = h1 * rng.choice([1.0, 0.75, 0.5])
            h3 = h2 * rng.choice([1.0, 0.6, 0.4])
            exp_v[vn] = [vn, va, vu, o.replace("O", "W"), ff / 100.0, g, inf, cons, az, h3 / htot]
            wins.append((vn, az, va, htot, h1, h2, h3))
    for i in range(rng.randint(0, 4)):
        n = rng.choice(["FRENTE_FORJADO", "PILAR", "HUECO", "ESQUINA%d" % i])
        l, psi = round(rng.uniform(0, 200), 2), round(rng.uniform(0.01, 1.2), 2)
        cols = ["PPTT", fmtnum(l, comma, rng), fmtnum(psi, comma, rng), n] + (["SI"] if newcols else [])
        lines.append(";".join(cols))
        exp_t[n] = [n, l, psi, "SI" if newcols else ""]
    k = round(rng.uniform(0.2, 1.5), 2)
    lines.append("Coeficiente K;%s" % fmtnum(k, comma, rng))
    lines.append("### Ganancias solares")
    hf = [round(rng.uniform(20, 200), 2) for _ in range(9)]
    for i, h in enumerate(hf):
        lines.append("%d;%s" % (i, fmtnum(h, comma, rng)))
    for vn, az, va, htot, h1, h2, h3 in wins:
        # these lines are written by HULC with decimal point and six decimals
        f = lambda x: "%.6f" % x
        lines.append('"%s"; %s; %s; %s; %s; %s; %s; %s' % (vn, f(az), f(va), f(htot), f(h1), f(h2), f(h3), f(h3 * 0.9)))
    r4 = lambda x: int(round(x * 1e4))
    exp = {"k": r4(k),
           "walls": [[w[0], r4(w[1]), r4(w[2]), r4(w[3]), w[4], w[5], w[6]] for _, w in sorted(exp_w.items())],
           "windows": [[v[0], r4(v[1]), r4(v[2]), v[3], r4(v[4]), (r4(v[5]) if v[5] != -1 else -1), (r4(v[6]) if v[6] != -1 else -1), v[7], r4(v[8]), r4(v[9])]
                       for _, v in sorted(exp_v.items())],
           "tbs": [[t[0], r4(t[1]), r4(t[2]), t[3]] for _, t in sorted(exp_t.items())],
           "hfactors": [r4(h) for h in hf]}
    nl = "\r\n" if rng.random() < 0.5 else "\n"
    return nl.join(lines) + nl, exp


def random_tbl(rng):
    els, sps = {}, {}
    n, m = rng.randint(1, 8), rng.randint(1, 3)
    lines = ["Nombre", " A U p f fv angNorte tilt tipo codigo0 codigo1", "%d %d" % (n, m)]
    for i in range(n):
        name = "P01_E%02d_ME%03d" % (rng.randint(1, 3), i)
        # every column a different figure, so that two columns read in each other's place show
        vals = [round(rng.uniform(1, 90), 3), round(rng.uniform(0.1, 4), 3), round(rng.uniform(0, 300), 3), round(rng.uniform(0.05, 0.45), 3), round(rng.uniform(0.5, 0.95), 3),
                round(rng.uniform(181, 359), 2), round(rng.uniform(0.5, 179), 2)]
        typ, c0, c1 = rng.choice([0, 1, 2, -2, -3, -4, -5]), rng.randint(1, 20), rng.randint(21, 40)
        lines.append('"%s"' % name)
        lines.append(" " + " ".join("%.6f" % v for v in vals) + " %d %d %d" % (typ, c0, c1))
        els[name] = [name] + [int(round(v * 1e4)) for v in vals] + [c0, c1, {0: "EXTWALL", 1: "WINDOW", 2: "DOOR", -2: "ADBWALL", -3: "GNDWALL", -4: "INTWALL", -5: "INTFLOOR"}[typ]]   # the type the written code stands for
    for j in range(m):
        name = "P01_E%02d" % (j + 1)
        mult, area, qint = rng.randint(2, 4), round(rng.uniform(11, 100), 3), round(rng.uniform(0.1, 10), 3)
        lines.append('"%s"' % name)
        lines.append(" %d %d %.6f %.6f" % (j, mult, area, qint))
        sps[name] = [name, j, mult, int(round(area * 1e4)), int(round(qint * 1e4))]
    exp = {"elements": [els[k] for k in sorted(els)], "spaces": [sps[k] for k in sorted(sps)]}
    return "\n".join(lines) + "\n", exp


def run_c18(tier, replay=None):
    quick = tier == "quick"

    def record(wd, tier, cases_file, payload):
        trace = os.path.join(wd, "trace.ndjson")
        reqf = os.path.join(wd, "reqs.ndjson")
        rng = random.Random(seed())
        reqs = []
        if payload is not None:
            reqs = payload.get("requests", [])
        else:
            # (1) block-type sequences enumerated by TLC, printed with one attribute each in a random layout
            cases = read_ndjson(cases_file) if os.path.exists(cases_file) else []
            if quick:
                cases = [c for i, c in enumerate(cases) if (i + seed()) % 10 == 0]
            for i, c in enumerate(cases):
                P = bdl_projects.Printer(random_layout(rng, i))
                for k, t in enumerate(c["types"]):
                    P.block("b%d" % (k + 1), t, [("X", k)])
                reqs.append({"mode": "blocks", "text": P.text(), "src": "tlc%d" % i})
            # (2) generated documents in random layouts: every name, type, parent and attribute value
            for i in range(15 if quick else 300):
                p = bdl_projects.random_project(rng)
                # attribute sets vary: optional attributes of a space are left out in every combination, so that the documented
                # legacy defaults (operating conditions named like the space type, thermal envelope by conditioning) are exercised
                for fl in p["floors"]:
                    if rng.random() < 0.6:
                        fl["floor_height"] = rng.choice([0, fl.get("height", 3), fl.get("height", 3) + 0.5])
                    for sp in fl["spaces"]:
                        sp["spacetype"] = rng.choice(["Residencial", "Terciario_8h", "NIVEL_ESTANQUEIDAD_3"])
                        for key, val in (("spacecond", rng.choice(["Residencial", "NIVEL_ESTANQUEIDAD_1"])), ("syscond", rng.choice(["Residencial", "Terciario_12h"]))):
                            if rng.random() < 0.5:
                                sp.pop(key, None)
                            else:
                                sp[key] = val
                        if rng.random() < 0.4:
                            sp.pop("inside", None)
                        if rng.random() < 0.3:
                            sp["nv"] = round(rng.uniform(0.1, 4.0), 2)
                        for w in sp["walls"]:
                            if w.get("loc") and rng.random() < 0.3:
                                w["tilt_written"] = rng.choice([25.0, 75.0, 90.0, 165.0, 0.0, 180.0])
                        sp["power"], sp["veei_obj"], sp["veei_ref"] = round(rng.uniform(1, 12), 2), round(rng.uniform(2, 8), 2), round(rng.uniform(8.5, 12), 2)
                lay = random_layout(rng, i)
                text, doc = bdl_projects.print_bdl(p, lay, want_doc=True)
                reqs.append({"mode": "doc", "text": text, "src": "gen%d" % i, "layout": lay, "exp": expected_doc(doc)})
                reqs.append({"mode": "typed", "text": text, "src": "gen%d" % i, "exp": typed_expected(p)})
            # (3) corpus: parent machine on the real block sequences; re-print in another layout
            for path, fmt in corpus_project_files():
                name = os.path.relpath(path, REPO)
                reqs.append({"mode": "blocks", "path": path, "src": name})
                if fmt == "ctehexml" or not quick or hash(name) % 5 == 0:
                    reqs.append({"mode": "reprint", "path": path, "text": relayout_text(read_text(path), rng), "src": name, "layout": "relayout"})
            # (4) KyG and tbl records
            for i in range(10 if quick else 200):
                comma, newcols = rng.random() < 0.5, rng.random() < 0.6
                text, exp = random_kyg(rng, comma, newcols)
                reqs.append({"mode": "kyg", "text": text, "src": "kyg%d:%s:%s" % (i, "comma" if comma else "point", "new" if newcols else "old"), "exp": exp})
                text, exp = random_tbl(rng)
                reqs.append({"mode": "tbl", "text": text, "src": "tbl%d" % i, "exp": exp, "scratch": wd})
        write_ndjson(reqf, reqs)
        st = vh(["bdlparse", "--reqs", reqf, "--out", trace], timeout=7200)
        record.reqs = reqs
        return trace, st

    def ctl_parent(ev):
        for e in ev:
            if e["ev"] == "Blocks" and e.get("ok") and "WINDOW" in e["types"]:
                i = e["types"].index("WINDOW")
                e["parents"][i] = "otro"
                return [e], "a window hangs from the wrong wall", "ParentsAsSpecified"

    def ctl_value(ev):
        for e in ev:
            if e["ev"] == "Doc" and e.get("ok") and e["got"]:
                for b in e["got"]:
                    if b[3]:
                        b[3][0][1] = "n:424242"
                        return [e], "one recovered attribute value differs from the written one", "EveryNameTypeAndValueRecovered"

    def ctl_typed(ev):
        for e in ev:
            if e["ev"] == "Typed" and e.get("ok") and isinstance(e["got"], dict) and e["got"].get("walls"):
                e["got"]["walls"][0][5] += 10000
                return [e], "tilt of a typed wall off by one degree", "TypedElementsCarryWrittenValues"

    def nontrivial(events):
        s = set()
        for e in events:
            s.add(json.dumps([e["ev"], e.get("src")]))
        return s

    def samples_of(events):
        out = []
        for kind in ("Blocks", "Doc", "Reprint", "Typed"):
            for e in events:
                if e["ev"] == kind and e.get("ok"):
                    out.append({k: (v if len(json.dumps(v)) < 600 else str(json.dumps(v))[:600] + "...") for k, v in e.items()})
                    break
        return out

    def key_of(e, name):
        src = str(e.get("src", ""))
        cls = re.sub(r"\d+", "", src.split(":")[0]) + (":" + ":".join(src.split(":")[1:]) if ":" in src else "")
        return "%s:%s:%s" % (name, e["ev"], cls if not src.endswith((".cte", ".ctehexml", ".CTE")) else src)

    return generic_trace_check(
        "C18", tier, replay,
        mc=[("MC_Bdl", "MC_Bdl.cfg", "MC_Bdl_t.cfg", 4, None)],
        record=record, trace_module="Trace_Bdl",
        controls=[ctl_parent, ctl_value, ctl_typed],
        nontrivial=nontrivial,
        rule="documents: block-type sequences enumerated by TLC, generated projects printed in random layouts (CRLF, indentation, comments, blank lines, attribute order, number formats, multi-line lists, closing parenthesis on its own line, legacy preamble), the 68 real files as shipped and re-printed, generated KyG (decimal point/comma, old/new columns) and tbl files; distinct by (event kind, source)",
        samples_of=samples_of, key_of=key_of,
        checker_cmd="tlc MC_Bdl.cfg; tlc Trace_Bdl.cfg (TRACE=work/C18/trace.ndjson)",
        trusted=["TLC 1.8.0", "the verifier's printers (lib/bdl_projects.py, lib/bdl_checks.py) and normal form of values (numbers in 1e-4 units)", "harness bdlparse.rs"],
        assumptions=["list values are compared item by item (the parser keeps them as raw text until a typed element extracts them)",
                     "names are identifiers that are not numeric literals"])
