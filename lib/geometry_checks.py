"""C03: conversion preserves geometry and orientation conventions (Geometry.tla, MC_Geometry, Trace_Geometry)."""
import json
import math
import random
import re

from common import *  # noqa: F401,F403
from simple_checks import generic_trace_check
import bdl_projects as BP
import bdltext
from convert_checks import corpus_project_files, read_text


def deg(a):
    return math.degrees(math.atan2(a[1], a[0])) % 360.0


def plus(a, b):
    return [a[0] * b[0] - a[1] * b[1], a[1] * b[0] + a[0] * b[1], a[2] * b[2]]


TRIPLES = [(3, 4, 5), (5, 12, 13), (8, 15, 17), (7, 24, 25), (20, 21, 29), (12, 35, 37), (9, 40, 41), (28, 45, 53), (11, 60, 61), (16, 63, 65), (33, 56, 65)]


def random_angle(rng):
    a, b, h = rng.choice(TRIPLES)
    if rng.random() < 0.5:
        a, b = b, a
    return [a * rng.choice([1, -1]), b * rng.choice([1, -1]), h]


def project_of(c, idx):
    """abstract project (bdl_projects format) of a building descriptor (lengths in dm) + the tags of its elements"""
    p = BP.base_library()
    p["azimuth"] = deg(c["ag"])
    sp = c["sp"]
    sname = "P01_E01"
    p["polygons"] = [{"name": sname + "_Pol", "verts": [[v[0] / 10.0, v[1] / 10.0] for v in sp["outline"]]}]
    space = {"name": sname, "polygon": sname + "_Pol", "type": "CONDITIONED", "mult": 1, "inside": True, "spacecond": "Residencial", "syscond": "Residencial",
             "x": sp["x"] / 10.0, "y": sp["y"] / 10.0, "azimuth": deg(sp["as"]), "walls": []}
    tags, wins = {}, []
    devs = []
    n = len(sp["outline"])
    for i in range(n):
        a, b = sp["outline"][i], sp["outline"][(i + 1) % n]
        ln = math.hypot(b[0] - a[0], b[1] - a[1])
        kind = ["EXTERIOR-WALL", "EXTERIOR-WALL", "UNDERGROUND-WALL", "INTERIOR-WALL"][(idx + i) % 4] if i > 0 else "EXTERIOR-WALL"
        w = {"name": "%s_W%02d" % (sname, i + 1), "kind": kind, "layers": "Fachada" if kind != "INTERIOR-WALL" else "Tabique", "loc": "SPACE-V%d" % (i + 1), "windows": []}
        if kind == "INTERIOR-WALL":
            w["intwalltype"] = "ADIABATIC"
        if kind == "EXTERIOR-WALL" and ln >= 25:
            nwin = 1 + (idx + i) % 2
            for k in range(nwin):
                v = {"name": "%s_V%d" % (w["name"], k + 1), "gap": "HuecoDoble", "x": 0.25 + 1.0 * k + 0.25 * ((idx + i) % 3), "y": [0.75, 1.0, 1.25][(idx + k) % 3],
                     "w": [0.75, 0.5][k % 2], "h": [1.25, 1.0][(idx + i) % 2], "setback": [0, 0.2, 0.05][(idx + i + k) % 3]}
                # shading devices (on edges of rational length): an overhang at 90, 53.13 or 36.87 degrees, side fins
                if math.isclose(ln, round(ln)) and (idx + i + k) % 2 == 0:
                    u50 = lambda m: int(round(m * 20))          # metres -> units of 50 mm
                    winmm = {"x": u50(v["x"]), "y": u50(v["y"]), "w": u50(v["w"]), "h": u50(v["h"])}
                    ang = [[0, 1, 1], [3, 4, 5], [4, 3, 5]][(idx // 2 + i) % 3]
                    # which devices a window has: overhang only, left fin only, right fin only, all three
                    pat = ((idx + i + k) // 2) % 4
                    if pat in (0, 3):
                        o = {"a": [0.0, 0.1, 0.25][(idx + k) % 3], "b": [0.0, 0.15, 0.3][(idx // 3) % 3], "w": [1.0, 1.5][idx % 2], "d": [0.5, 0.8][(idx // 2) % 2], "angle": deg(ang)}
                        v["overhang"] = o
                        devs.append({"kind": "overhang", "name": v["name"] + "_overhang", "edge": i + 1, "win": winmm, "a": u50(o["a"]), "b": u50(o["b"]),
                                     "w": u50(o["w"]), "d": u50(o["d"]), "h": 0, "ang": ang})
                    for key, kind in (("lfin", "lfin"), ("rfin", "rfin")):
                        if pat == 3 or (pat == 1 and key == "lfin") or (pat == 2 and key == "rfin"):
                            f = {"a": [0.0, 0.2][(idx + (key == "rfin")) % 2], "b": [0.0, 0.1, -0.2][(idx // 2) % 3], "h": [1.5, 1.0][(idx // 3) % 2], "d": [0.3, 0.6][(idx + i) % 2]}
                            v[key] = f
                            devs.append({"kind": kind, "name": v["name"] + ("_left_fin" if key == "lfin" else "_right_fin"), "edge": i + 1, "win": winmm,
                                         "a": u50(f["a"]), "b": u50(f["b"]), "h": u50(f["h"]), "d": u50(f["d"]), "w": 0, "ang": [0, 1, 1]})
                w["windows"].append(v)
                wins.append({"name": v["name"], "x": round(v["x"] * 1000), "y": round(v["y"] * 1000), "w": round(v["w"] * 1000), "h": round(v["h"] * 1000),
                             "sb": round(v["setback"] * 1000), "wall": w["name"]})
        tags[w["name"]] = {"kind": "edge", "i": i + 1, "dz": 0}
        if not w["windows"] and (idx + 2 * i) % 5 == 0:
            w["z"] = [1.2, 0.5, 2.7][(idx + i) % 3]          # a Z of its own, no X / Y
            tags[w["name"]]["dz"] = int(round(w["z"] * 10))
        space["walls"].append(w)
    space["walls"].append({"name": sname + "_Suelo", "kind": ["UNDERGROUND-WALL", "EXTERIOR-WALL"][idx % 2], "layers": "Forjado", "loc": "BOTTOM", "windows": []})
    tags[sname + "_Suelo"] = {"kind": "bottom", "i": 0}
    space["walls"].append({"name": sname + "_Techo", "kind": "ROOF", "layers": "Forjado", "loc": "TOP", "windows": []})
    tags[sname + "_Techo"] = {"kind": "top", "i": 0}
    for j, pw in enumerate(c.get("pw", [])):
        pname = "%s_PW%d_Pol" % (sname, j + 1)
        p["polygons"].append({"name": pname, "verts": [[v[0] / 10.0, v[1] / 10.0] for v in pw["poly"]]})
        w = {"name": "%s_PW%d" % (sname, j + 1), "kind": ["EXTERIOR-WALL", "ROOF"][(idx + j) % 2], "layers": "Fachada", "x": pw["x"] / 10.0, "y": pw["y"] / 10.0, "z": pw["z"] / 10.0,
             "azimuth": deg(pw["A"]), "tilt": deg(pw["T"]), "polygon": pname, "windows": []}
        tags[w["name"]] = {"kind": "poly", "i": j + 1}
        space["walls"].append(w)
    p["floors"] = [{"name": "P01", "z": sp["z"] / 10.0, "height": sp["h"] / 10.0, "mult": 1, "spaces": [space]}]
    p["shades"] = []
    stags = {}
    for j, s in enumerate(c.get("rs", [])):
        nm = "SR%d" % (j + 1)
        p["shades"].append({"name": nm, "x": s["x"] / 10.0, "y": s["y"] / 10.0, "z": s["z"] / 10.0, "h": s["h"] / 10.0, "w": s["w"] / 10.0, "azimuth": deg(s["A"]), "tilt": deg(s["T"])})
        stags[nm] = {"kind": "rect", "i": j + 1}
    for j, s in enumerate(c.get("vs", [])):
        nm = "SV%d" % (j + 1)
        p["shades"].append({"name": nm, "verts": [[v[0] / 10.0, v[1] / 10.0, v[2] / 10.0] for v in s["verts"]]})
        stags[nm] = {"kind": "verts", "i": j + 1}
    p["tbs"] = [{"name": "PT_frente_forjado", "ttl": 0.5, "frsi": 0.6, "long": 10.0}]
    wins_devs = devs
    for d in wins_devs:
        stags[d["name"]] = {"kind": "device", "i": 0, "dev": d}
    return p, tags, stags, wins


# ------------------------------------------------------------------------------------ shipped projects as descriptors

RIGHT = {0: [1, 0, 1], 90: [0, 1, 1], 180: [-1, 0, 1], 270: [0, -1, 1]}


def right_angle(v):
    """rational angle of a multiple of 90 degrees, else None"""
    v = v % 360.0
    for k, a in RIGHT.items():
        if abs(v - k) < 1e-6 or abs(v - k - 360) < 1e-6:
            return a
    return None


def mm(v):
    return int(round(v * 1000))


def source_descriptors(text):
    """[(descriptor, wall tags, shade tags)] for the spaces and shades of a project whose angles are multiples of 90 degrees;
    elements that cannot be represented (other angles, tilts, offsets on edge walls) are left out"""
    s0, e0 = bdltext.bdl_span(text)
    lines = text[s0:e0].split("\n")
    lines = [l.rstrip("\r") for l in lines]
    blocks = bdltext.scan_blocks(lines)

    def attrs(b):
        d = {}
        for k, a, z, _ in b["attrs"]:
            d[k] = " ".join(x.strip() for x in lines[a:z + 1]).split("=", 1)[1].strip()
        return d

    def num(d, k, dflt=0.0):
        try:
            return float(d[k].strip().strip('"'))
        except (KeyError, ValueError):
            return dflt

    def pts(d, dim):
        out = []
        i = 1
        while "V%d" % i in d:
            vals = [float(x) for x in re.findall(r"[-+]?[0-9]*\.?[0-9]+(?:[eE][-+]?[0-9]+)?", d["V%d" % i])]
            if len(vals) < dim:
                return None
            out.append(vals[:dim])
            i += 1
        return out

    ag = None
    polys = {}
    for b in blocks:
        if b["type"] == "BUILD-PARAMETERS":
            ag = right_angle(num(attrs(b), "AZIMUTH"))
        elif b["type"] == "POLYGON":
            polys[b["name"]] = pts(attrs(b), 2)
    if ag is None:
        if any(b["type"] == "BUILD-PARAMETERS" for b in blocks):
            return []
        ag = RIGHT[0]
    names = {}
    for b in blocks:
        names[b["name"]] = names.get(b["name"], 0) + 1
    out = []
    floor, cur, curwall = None, None, None
    shades_rs, shades_vs, stags = [], [], {}
    for b in blocks:
        t = b["type"]
        a = attrs(b) if t in ("FLOOR", "SPACE", "EXTERIOR-WALL", "ROOF", "INTERIOR-WALL", "UNDERGROUND-WALL", "BUILDING-SHADE", "WINDOW") else None
        if t == "FLOOR":
            floor = {"z": num(a, "Z"), "h": num(a, "SPACE-HEIGHT")}
            cur = None
        elif t == "SPACE":
            cur = None
            pg = polys.get(a.get("POLYGON", "").strip('"'))
            asp = right_angle(num(a, "AZIMUTH"))
            if floor is None or not pg or asp is None or len(pg) < 3:
                continue
            curwall = None
            cur = {"wins": [], "c": {"ag": ag, "sp": {"x": mm(num(a, "X")), "y": mm(num(a, "Y")), "z": mm(num(a, "Z") + floor["z"]), "h": mm(floor["h"]), "as": asp,
                                          "outline": [[mm(p[0]), mm(p[1])] for p in pg]}, "pw": [], "rs": [], "vs": []}, "tags": {}}
            out.append(cur)
        elif t in ("EXTERIOR-WALL", "ROOF", "INTERIOR-WALL", "UNDERGROUND-WALL"):
            curwall = b["name"] if names[b["name"]] == 1 else None
            if cur is None or names[b["name"]] != 1:
                continue
            loc = a.get("LOCATION", "").strip()
            has_poly = "POLYGON" in a
            off = (num(a, "X"), num(a, "Y"), num(a, "Z"))
            if loc.startswith("SPACE-V") and not has_poly:
                # (an offset in height alone is kept: the strip of facade above the ground of a half-buried storey)
                if off[0] == 0.0 and off[1] == 0.0 and loc[7:].isdigit() and 1 <= int(loc[7:]) <= len(cur["c"]["sp"]["outline"]):
                    cur["tags"][b["name"]] = {"kind": "edge", "i": int(loc[7:]), "dz": mm(off[2])}
            elif loc in ("TOP", "BOTTOM") and not has_poly:
                if off == (0.0, 0.0, 0.0) and "AZIMUTH" not in a:
                    cur["tags"][b["name"]] = {"kind": "top" if loc == "TOP" else "bottom", "i": 0}
            elif has_poly and loc in ("", "TOP"):
                pg = polys.get(a["POLYGON"].strip('"'))
                A = right_angle(num(a, "AZIMUTH"))
                tilt = num(a, "TILT", 0.0 if (t == "ROOF" or loc == "TOP") else 90.0)
                T = right_angle(tilt) if abs(tilt % 360.0) < 180.0001 else None
                if pg and len(pg) >= 3 and A is not None and T is not None:
                    cur["c"]["pw"].append({"x": mm(off[0]), "y": mm(off[1]), "z": mm(off[2]), "A": A, "T": T, "poly": [[mm(p[0]), mm(p[1])] for p in pg]})
                    cur["tags"][b["name"]] = {"kind": "poly", "i": len(cur["c"]["pw"])}
        elif t == "WINDOW":
            if cur is not None and curwall and names[b["name"]] == 1 and all(k in a for k in ("X", "Y", "WIDTH", "HEIGHT")):
                cur["wins"].append({"name": b["name"], "x": mm(num(a, "X")), "y": mm(num(a, "Y")), "w": mm(num(a, "WIDTH")), "h": mm(num(a, "HEIGHT")),
                                    "sb": mm(num(a, "SETBACK")), "wall": curwall})
        elif t == "BUILDING-SHADE" and names[b["name"]] == 1:
            if "X" in a:
                A, T = right_angle(num(a, "AZIMUTH")), right_angle(num(a, "TILT"))
                if A is not None and T is not None and abs(num(a, "TILT") % 360.0) < 180.0001 and (abs(num(a, "HEIGHT")) > 1e-3):
                    shades_rs.append({"x": mm(num(a, "X")), "y": mm(num(a, "Y")), "z": mm(num(a, "Z")), "A": A, "T": T, "w": mm(num(a, "WIDTH")), "h": mm(num(a, "HEIGHT"))})
                    stags[b["name"]] = {"kind": "rect", "i": len(shades_rs)}
            else:
                vs = pts(a, 3)
                if vs and len(vs) >= 3:
                    shades_vs.append({"verts": [[mm(x) for x in v] for v in vs], "a2": 0})
                    stags[b["name"]] = {"kind": "verts", "i": len(shades_vs)}
    res = [(o["c"], o["tags"], {}, o["wins"]) for o in out if o["tags"] or o["wins"]]
    if stags:
        res.append(({"ag": ag, "sp": {"x": 0, "y": 0, "z": 0, "h": 3000, "as": RIGHT[0], "outline": [[0, 0], [1000, 0], [1000, 1000], [0, 1000]]}, "pw": [],
                     "rs": shades_rs, "vs": shades_vs}, {}, stags, []))
    return res


def geom_event(kind, c, conv, tags, stags, wins, extra=None):
    ev = {"ev": kind, "c": c, "ok": conv.get("outcome") == "model", "outcome": conv.get("outcome"), "msg": conv.get("msg", ""), "walls": [], "shades": [], "wins": [], "missing": 0}
    if extra:
        ev.update(extra)
    if not ev["ok"]:
        return ev
    g = conv["geom"]
    seen = set()
    for w in g["walls"]:
        if w["name"] in tags:
            seen.add(w["name"])
            ev["walls"].append({"name": w["name"], "tag": tags[w["name"]], "corners": w["corners"], "normal": w["normal"], "nrep": w["nrep"], "area": w["area"]})
    devs = [t["dev"] for t in stags.values() if t.get("kind") == "device"]
    byname = {s["name"]: s for s in g["shades"]}
    if devs:
        ev["devs"] = [dict(d, found=d["name"] in byname, corners=byname.get(d["name"], {}).get("corners", [])) for d in devs]
    for s in g["shades"]:
        if s["name"] in stags:
            seen.add(s["name"])
            if stags[s["name"]]["kind"] == "device":
                continue
            ev["shades"].append({"name": s["name"], "tag": stags[s["name"]], "corners": s["corners"], "normal": s["normal"], "nrep": s["nrep"], "area": s["area"]})
    got = {v["name"]: v for v in g["windows"]}
    for v in wins:
        if v["name"] in got:
            seen.add(v["name"])
            o = got[v["name"]]
            ev["wins"].append({"name": v["name"], "src": {k: v[k] for k in ("x", "y", "w", "h", "sb", "wall")},
                               "got": {"x": o["x"], "y": o["y"], "w": o["w"], "h": o["h"], "sb": o["setback"], "wall": o["wall"]}})
    ev["missing"] = len(tags) + len(stags) + len(wins) - len(seen)
    return ev


def elems_of(conv):
    g = conv["geom"]
    el = [{"name": w["name"], "corners": w["corners"], "tilt": w["tilt"], "azimuth": w["azimuth"], "area": w["area"]} for w in g["walls"] if w["haspos"]]
    el += [{"name": "shade:" + s["name"], "corners": s["corners"], "tilt": s["tilt"], "azimuth": s["azimuth"], "area": s["area"]} for s in g["shades"]]
    return {"elems": el, "wins": [[v["name"], v["x"], v["y"], v["w"], v["h"], v["setback"], v["wall"]] for v in g["windows"]], "ind": conv.get("ind", {"ok": False})}


def turn_event(name, d, ddeg_text, ca, cb):
    ok = ca.get("outcome") == "model" and cb.get("outcome") == "model"
    ev = {"ev": "Turn", "name": name, "d": d, "ok": ok, "outcomes": [ca.get("outcome"), cb.get("outcome")], "msg": (ca.get("msg", "") + " | " + cb.get("msg", ""))[:300]}
    dd = float(ddeg_text)
    ev["ddeg"] = round(dd * 100)
    ev["dcos"], ev["dsin"] = round(math.cos(math.radians(dd)) * 10000), round(math.sin(math.radians(dd)) * 10000)
    if ok:
        ev["A"], ev["B"] = elems_of(ca), elems_of(cb)
    return ev


AZ_RE = re.compile(r'^(\s*AZIMUTH\s*=\s*)([-+0-9.eE]+)(.*)$')


def turn_text(text, ddeg):
    """the project text with its BUILD-PARAMETERS AZIMUTH increased by ddeg (added when absent); None when there is no such block"""
    s0, e0 = bdltext.bdl_span(text)
    head, body, tail = text[:s0], text[s0:e0], text[e0:]
    lines = body.splitlines(keepends=True)
    blocks = bdltext.scan_blocks([l.rstrip("\r\n") for l in lines])
    for b in blocks:
        if b["type"] == "BUILD-PARAMETERS":
            for k, a, z, _ in b["attrs"]:
                if k == "AZIMUTH":
                    m = AZ_RE.match(lines[a].rstrip("\r\n"))
                    if not m:
                        return None
                    nl = lines[a][len(lines[a].rstrip("\r\n")):]
                    lines[a] = "%s%r%s%s" % (m.group(1), (float(m.group(2)) + ddeg) % 360.0, m.group(3), nl)
                    return head + "".join(lines) + tail
            nl = lines[b["start"]][len(lines[b["start"]].rstrip("\r\n")):] or "\n"
            lines.insert(b["start"] + 1, "     AZIMUTH = %r%s" % (ddeg % 360.0, nl))
            return head + "".join(lines) + tail
    return None


def run_c03(tier, replay=None):
    quick = tier == "quick"

    def record(wd, tier, cases_file, payload):
        trace = os.path.join(wd, "trace.ndjson")
        if payload is not None:
            write_ndjson(trace, payload["events"])
            return trace, {"replayed_events": len(payload["events"])}
        rng = random.Random(seed())
        cases = read_ndjson(cases_file)
        reqs, plan = [], []
        for i, c in enumerate(cases):
            p, tags, stags, wins = project_of(c, i)
            reqs.append({"name": "g%d" % i, "text": BP.print_bdl(p), "fmt": "bdl", "want_geometry": True, "want_graph": False})
            plan.append(("geom", c, tags, stags, wins, len(reqs) - 1))
        # generated buildings turned by a rational angle
        nturn = 150 if quick else 1500
        for i in rng.sample(range(len(cases)), min(nturn, len(cases))):
            c = cases[i]
            d = random_angle(rng)
            p, _, _, _ = project_of(c, i)
            p2 = dict(p)
            p2["azimuth"] = (p["azimuth"] + deg(d)) % 360.0
            dtext = repr(p2["azimuth"] - p["azimuth"])
            ra = len(reqs)
            reqs.append({"name": "ta%d" % i, "text": BP.print_bdl(p), "fmt": "bdl", "want_geometry": True, "want_indicators": True, "want_graph": False})
            reqs.append({"name": "tb%d" % i, "text": BP.print_bdl(p2), "fmt": "bdl", "want_geometry": True, "want_indicators": True, "want_graph": False})
            plan.append(("turn", "generated:%d" % i, d, dtext, ra, ra + 1))
        # shipped projects, as given and turned
        files = corpus_project_files()
        nturns_real = 1 if quick else 6
        for f, ext in files:
            text = read_text(f)
            try:
                descs = source_descriptors(text)
            except (ValueError, IndexError, KeyError):
                descs = []
            if descs:
                reqs.append({"name": "src:" + f, "text": text, "fmt": ext, "want_geometry": True, "want_graph": False})
                plan.append(("src", os.path.relpath(f, REPO), descs, len(reqs) - 1))
            for k in range(nturns_real):
                d = random_angle(rng)
                t2 = turn_text(text, deg(d))
                if t2 is None:
                    continue
                ra = len(reqs)
                if k == 0:
                    reqs.append({"name": "ra:" + f, "text": text, "fmt": ext, "want_geometry": True, "want_indicators": True, "want_graph": False})
                    base = ra
                reqs.append({"name": "rb:" + f, "text": t2, "fmt": ext, "want_geometry": True, "want_indicators": True, "want_graph": False})
                plan.append(("turn", "shipped:" + os.path.relpath(f, REPO), d, repr(deg(d)), base, len(reqs) - 1))
        rf = os.path.join(wd, "reqs.ndjson")
        write_ndjson(rf, reqs)
        out = os.path.join(wd, "conv.ndjson")
        st = vh(["convert", "--reqs", rf, "--out", out, "--jobs", "12", "--timeout-ms", "60000"], timeout=7200)
        conv = read_ndjson(out)
        events = []
        nturn_ok = 0
        for item in plan:
            if item[0] == "geom":
                _, c, tags, stags, wins, ri = item
                events.append(geom_event("Geom", c, conv[ri], tags, stags, wins))
            elif item[0] == "src":
                _, name, descs, ri = item
                if conv[ri].get("outcome") != "model":
                    continue
                for k, (c, tags, stags, swins) in enumerate(descs):
                    events.append(geom_event("Src", c, conv[ri], tags, stags, swins, {"name": "%s#%d" % (name, k)}))
            else:
                _, name, d, dtext, ra, rb = item
                if conv[ra].get("outcome") != "model":
                    continue        # a project that does not convert as given is not in the quantifier
                e = turn_event(name, d, dtext, conv[ra], conv[rb])
                nturn_ok += 1 if e["ok"] else 0
                events.append(e)
        write_ndjson(trace, events)
        st.update({"traces": len(events), "turn_events": nturn_ok})
        return trace, st

    def first(ev, pred):
        for e in ev:
            if pred(e):
                return e
        raise StopIteration

    def ctl_corner(ev):
        e = first(ev, lambda e: e["ev"] == "Geom" and e["ok"] and e["walls"])
        w = first(e["walls"], lambda w: w["tag"]["kind"] == "edge")
        w["corners"][0][0] += 30
        e["walls"] = [w]; e["shades"] = []; e["wins"] = []
        return [e], "one corner of an edge wall moved by 3 cm", "WallOnEdgeSpansThatEdgeOverTheStoreyHeight"

    def ctl_normal(ev):
        e = first(ev, lambda e: e["ev"] == "Geom" and e["ok"] and e["walls"])
        w = first(e["walls"], lambda w: w["tag"]["kind"] == "edge")
        w["normal"] = [-x for x in w["normal"]]
        e["walls"] = [w]; e["shades"] = []; e["wins"] = []
        return [e], "normal of an edge wall pointing into the space", "OutwardNormalPointsAwayFromTheSpace"

    def ctl_floor(ev):
        e = first(ev, lambda e: e["ev"] == "Geom" and e["ok"] and len(e["c"]["sp"]["outline"]) > 4)
        w = first(e["walls"], lambda w: w["tag"]["kind"] == "bottom")
        w["corners"] = [[c[0], -c[1], c[2]] for c in w["corners"]]
        e["walls"] = [w]; e["shades"] = []; e["wins"] = []
        return [e], "floor outline mirrored", "FloorReproducesTheOutlineAtFloorLevel"

    def ctl_shade(ev):
        e = first(ev, lambda e: e["ev"] == "Geom" and e["ok"] and any(s["tag"]["kind"] == "verts" for s in e["shades"]))
        s = e["shades"][0]
        s["corners"][1][2] += 50
        e["walls"] = []; e["wins"] = []
        return [e], "one vertex of a vertex-defined shade 5 cm higher", "VertexDefinedShadeKeepsItsCornerPoints"

    def ctl_win(ev):
        e = first(ev, lambda e: e["ev"] == "Geom" and e["ok"] and e["wins"])
        e["wins"][0]["got"]["x"] += 10
        e["walls"] = []; e["shades"] = []
        return [e], "window offset 1 cm larger", "WindowsKeepSizeOffsetAndSetback"

    def ctl_area(ev):
        e = first(ev, lambda e: e["ev"] == "Geom" and e["ok"] and e["walls"])
        w = first(e["walls"], lambda w: w["tag"]["kind"] == "top")
        w["area"] += 300
        e["walls"] = [w]; e["shades"] = []; e["wins"] = []
        return [e], "ceiling area 0.03 m2 larger", "AreaEqualsSourcePolygonArea"

    def ctl_turn_pos(ev):
        e = first(ev, lambda e: e["ev"] == "Turn" and e["ok"] and e["A"]["elems"])
        e["B"]["elems"][0]["corners"][0][1] += 40
        return [e], "one corner 4 cm off after the turn", "TurningTheBuildingTurnsEveryPositionAndShiftsEveryAzimuth"

    def ctl_turn_az(ev):
        e = first(ev, lambda e: e["ev"] == "Turn" and e["ok"] and e["A"]["elems"])
        e["B"]["elems"][0]["azimuth"] += 100
        return [e], "one azimuth 1 degree off after the turn", "TurningTheBuildingTurnsEveryPositionAndShiftsEveryAzimuth"

    def ctl_turn_k(ev):
        e = first(ev, lambda e: e["ev"] == "Turn" and e["ok"] and e["A"]["ind"].get("ok"))
        e["B"]["ind"]["K"] += 100
        return [e], "K 0.01 larger after the turn", "AreasVolumesUKn50UnchangedByTheTurn"

    def nontrivial(events):
        s = set()
        for e in events:
            if e["ev"] in ("Geom", "Src") and e["ok"]:
                s.add(json.dumps(e["c"], sort_keys=True))
            elif e["ev"] == "Turn" and e["ok"]:
                s.add(json.dumps([e["name"], e["d"]]))
        return s

    def samples_of(events):
        out = []
        for k in ("Geom", "Src", "Turn"):
            try:
                e = dict(first(events, lambda e: e["ev"] == k and e["ok"]))
                if k == "Turn":
                    e["A"] = {"elems": e["A"]["elems"][:2], "ind": e["A"]["ind"]}
                    e["B"] = {"elems": e["B"]["elems"][:2], "ind": e["B"]["ind"]}
                else:
                    e["walls"] = e["walls"][:2]
                out.append(e)
            except StopIteration:
                pass
        return out

    def key_of(e, name):
        if e["ev"] == "Turn":
            return "%s:%s" % (name, e["name"])
        return "%s:%s" % (name, json.dumps(e["c"], sort_keys=True)[:300])

    return generic_trace_check(
        "C03", tier, replay,
        mc=[("MC_Geometry", "MC_Geometry.cfg", "MC_Geometry_t.cfg", 8, None)],
        record=record, trace_module="Trace_Geometry",
        controls=[ctl_corner, ctl_normal, ctl_floor, ctl_shade, ctl_win, ctl_area, ctl_turn_pos, ctl_turn_az, ctl_turn_k],
        nontrivial=nontrivial,
        rule="buildings enumerated by TLC (deviation x space turn x space origin x outline; polygon-defined walls over azimuth x tilt x polygon; rectangular shades over "
             "azimuth x tilt x origin; vertex-defined shades), each printed as BDL and converted by the real parser and converter; the same buildings and every convertible "
             "shipped project re-converted with a random rational angle added to the deviation; non-trivial = converted building / pair; distinct by descriptor or (project, angle)",
        samples_of=samples_of, key_of=key_of,
        checker_cmd="tlc MC_Geometry.cfg; vh convert --reqs ...; tlc Trace_Geometry.cfg (TRACE=work/C03/trace.ndjson)",
        trusted=["TLC 1.8.0", "the verifier's BDL printer (lib/bdl_projects.py) and its naming of elements; angles printed as atan2 of the rational pair (15+ digits)",
                 "harness geom.rs: corners through WallGeom::to_global_coords_matrix, Newell normal of the global corners, quantisation 1 mm / 1e-4 / 0.01 deg / 1 cm2"],
        assumptions=["source semantics are DOE-2 BDL's: azimuths clockwise from the Y axis of the enclosing system, a space's origin given in building coordinates and not turned by the space's own azimuth "
                     "(confirmed by shipped project 14_BloqueH5P.CTE whose turned spaces tile the floor plan only under this reading)",
                     "angles are drawn from the rational family (hypotenuse <= 65), dense enough to stand for [0,360)",
                     "shipped projects are compared with their own turned conversion; their absolute placement is compared with the source where all angles are multiples of 90 degrees"])
