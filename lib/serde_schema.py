"""Extract the serde field protocol of bemodel's model types from the source tree (C04): for every struct that
derives Serialize/Deserialize, its fields with type, default rule and skip_serializing_if rule."""
import json
import os
import re
import sys

FILES = ["model.rs", "space.rs", "constructions.rs", "opaques.rs", "window.rs", "thermalbridge.rs", "meta.rs", "overrides.rs",
         "schedules.rs", "space_loads.rs", "thermostat.rs"]


def extract(repo="/repo"):
    out = []
    for fn in FILES:
        path = os.path.join(repo, "bemodel/src/types", fn)
        if not os.path.exists(path):
            continue
        src = open(path, encoding="utf-8").read()
        # structs with their preceding attributes
        for m in re.finditer(r"((?:\s*#\[[^\]]*\]\s*)+)pub struct (\w+)\s*\{(.*?)\n\}", src, re.S):
            attrs, name, body = m.group(1), m.group(2), m.group(3)
            if "Serialize" not in attrs:
                continue
            struct_default = bool(re.search(r"#\[serde\(default\)\]", attrs))
            fields = []
            pending = []
            for line in body.split("\n"):
                t = line.strip()
                if t.startswith("#[serde("):
                    pending.append(t)
                    continue
                fm = re.match(r"pub (\w+): (.+),$", t)
                if fm:
                    fname, ftype = fm.group(1), fm.group(2)
                    a = " ".join(pending)
                    pending = []
                    default = None
                    dm = re.search(r'default\s*=\s*"([^"]+)"', a)
                    if dm:
                        default = dm.group(1)
                    elif re.search(r"\bdefault\b", a):
                        default = "Default"
                    sm = re.search(r'skip_serializing_if\s*=\s*"([^"]+)"', a)
                    fields.append({"name": fname, "type": ftype, "default": default or "", "skip": sm.group(1) if sm else "",
                                   "flatten": "flatten" in a})
            out.append({"struct": name, "file": fn, "struct_default": struct_default, "fields": fields})
    return out


# classes of values: what a skip rule omits / what an absent key loads as
SKIP_CLASS = {"": "never", "String::is_empty": "empty", "Vec::is_empty": "empty", "Option::is_none": "none", "is_default": "zero",
              "multiplier_is_1": "one", "is_true": "true", "ConsDb::is_empty": "empty", "SchedulesDb::is_empty": "empty",
              "PropsOverrides::is_empty": "empty"}


def load_class(field, struct_default):
    """what an absent key turns into"""
    d, t = field["default"], field["type"]
    if d == "default_1":
        return "one"
    if d == "default_true":
        return "true"
    if d == "Default" or (not d and struct_default):
        if t.startswith("Option<"):
            return "none"
        if t in ("String",) or t.startswith("Vec<") or t in ("ConsDb", "SchedulesDb", "PropsOverrides", "Polygon") or t.startswith("BTreeMap<"):
            return "empty"
        return "zero"          # f32 0.0, bool false, enum default variant, Meta::default()...
    if d:
        return "fn:" + d
    if t.startswith("Option<"):
        return "none"          # serde: a missing Option is None
    return "error"             # required key


def tla_schema(schema):
    rows = []
    for s in schema:
        for f in s["fields"]:
            if f["flatten"]:
                continue
            rows.append({"struct": s["struct"], "field": f["name"], "skip": SKIP_CLASS.get(f["skip"], "unknown:" + f["skip"]),
                         "load": load_class(f, s["struct_default"]), "type": f["type"]})
    return rows


if __name__ == "__main__":
    sc = extract(sys.argv[1] if len(sys.argv) > 1 else "/repo")
    for r in tla_schema(sc):
        print(json.dumps(r))
