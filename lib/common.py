"""Shared driver machinery: building the harness, running TLC (model checking, simulation, trace
validation), evidence files, known findings, replay files."""
import hashlib
import json
import os
import re
import shutil
import subprocess
import sys
import time

VERIF = os.path.dirname(os.path.dirname(os.path.abspath(__file__)))
SPEC = os.path.join(VERIF, "spec")
HARNESS = os.path.join(VERIF, "harness")
WORK = os.path.join(VERIF, "work")
VH = os.path.join(HARNESS, "target", "release", "vh")
REPO = os.environ.get("VERIF_REPO", "/repo")


class ToolError(Exception):
    pass


def log(*a):
    print(*a, file=sys.stderr, flush=True)


def seed():
    try:
        return int(os.environ.get("VERIF_SEED", "1"))
    except ValueError:
        return 1


def workdir(name):
    d = os.path.join(WORK, name)
    shutil.rmtree(d, ignore_errors=True)
    os.makedirs(d, exist_ok=True)
    return d


def run(cmd, cwd=None, env=None, timeout=None, check=False):
    e = dict(os.environ)
    if env:
        e.update(env)
    try:
        p = subprocess.run(cmd, cwd=cwd, env=e, timeout=timeout, stdout=subprocess.PIPE, stderr=subprocess.STDOUT,
                           text=True, errors="replace")
    except subprocess.TimeoutExpired as ex:
        raise ToolError("timeout after %ss: %s" % (timeout, " ".join(cmd[:6]))) from ex
    if check and p.returncode != 0:
        raise ToolError("command failed (%d): %s\n%s" % (p.returncode, " ".join(cmd[:8]), p.stdout[-3000:]))
    return p.returncode, p.stdout


def build_harness():
    """Rebuild the harness (and with it the path dependencies in /repo's working tree)."""
    lock = os.path.join(HARNESS, "Cargo.lock")
    if not os.path.exists(lock):
        shutil.copy(os.path.join(REPO, "Cargo.lock"), lock)
    t0 = time.time()
    rc, out = run(["cargo", "build", "--release", "--offline"], cwd=HARNESS,
                  env={"CARGO_NET_OFFLINE": "true", "RUST_BACKTRACE": "0"}, timeout=1500)
    if rc != 0:
        errs = [l for l in out.splitlines() if l.startswith("error")]
        raise ToolError("cargo build of the harness failed:\n" + "\n".join(errs[:20]) + "\n" + out[-2000:])
    log("harness built in %.1fs" % (time.time() - t0))


def build_bins():
    """hulc2model and thor from /repo's working tree, outside /repo."""
    tdir = os.path.join(HARNESS, "target-repo")
    rc, out = run(["cargo", "build", "--offline", "--manifest-path", os.path.join(REPO, "Cargo.toml"),
                   "--target-dir", tdir, "--bin", "hulc2model", "--bin", "thor"],
                  env={"CARGO_NET_OFFLINE": "true"}, timeout=1500)
    if rc != 0:
        raise ToolError("cargo build of hulc2model/thor failed:\n" + out[-2000:])
    return os.path.join(tdir, "debug")


def vh(args, timeout=3600, env=None):
    rc, out = run([VH] + args, cwd=VERIF, env=env, timeout=timeout)
    if rc != 0:
        raise ToolError("harness %s failed (%d):\n%s" % (args[:2], rc, out[-2000:]))
    last = [l for l in out.splitlines() if l.startswith("{")]
    return json.loads(last[-1]) if last else {}


JAVA_OPTS = "-Xss1g -Dtlc2.tool.queue.IStateQueue=StateDeque"


def tlc(module, cfg, name, workers=4, extra=None, env=None, timeout=1800, simulate=None, heap="6g"):
    """Run TLC on spec/<module>.tla. Returns dict(out, generated, distinct, ok, violated, cases)."""
    meta = os.path.join(WORK, "tlc_" + name)
    shutil.rmtree(meta, ignore_errors=True)
    cmd = ["tlc", "-workers", str(workers), "-metadir", meta, "-cleanup", "-noGenerateSpecTE", "-config", cfg]
    if simulate:
        cmd += ["-simulate", simulate]
    if extra:
        cmd += extra
    cmd += [module + ".tla"]
    e = {"JAVA_TOOL_OPTIONS": ("-Xss1g" if simulate or workers != 1 else JAVA_OPTS) + " -Xmx" + heap}
    if env:
        e.update(env)
    t0 = time.time()
    rc, out = run(cmd, cwd=SPEC, env=e, timeout=timeout)
    shutil.rmtree(meta, ignore_errors=True)
    res = {"out": out, "rc": rc, "wall": time.time() - t0}
    m = re.search(r"(\d+) states generated, (\d+) distinct states found", out)
    if m:
        res["generated"], res["distinct"] = int(m.group(1)), int(m.group(2))
    m = re.search(r"The number of states generated: (\d+)", out)
    if m:
        res["generated"] = int(m.group(1))
        res.setdefault("distinct", 0)
    m = re.search(r"(\d+) traces generated", out)
    if m:
        res["sim_traces"] = int(m.group(1))
    res["violated"] = re.findall(r"Invariant (\w+) is violated", out)
    res["error"] = None
    if "Error:" in out and not res["violated"]:
        # anything that is not an invariant violation is a tool / spec error
        errs = [l for l in out.splitlines() if l.startswith("Error:")]
        res["error"] = "; ".join(errs[:3])
    # TLC's pretty printer breaks tuples that do not fit in 80 columns over several lines (<< "FAIL",\n   12, ...)
    res["cases"] = [json.loads(json.loads('"' + c + '"')) for c in re.findall(r'<<\s*"CASE",\s*"(.*)"\s*>>', out)]
    res["fails"] = [(int(a), b, c) for a, b, c in re.findall(r'<<\s*"FAIL",\s*(\d+),\s*"(\w+)",\s*"(\w+)"\s*>>', out)]
    res["unmatched"] = re.findall(r'<<\s*"UNMATCHED",\s*(\d+)', out)
    res["info"] = re.findall(r'<<"INFO", (.*)>>', out)
    return res


def mc_ok(res, what):
    """A model-checking run must finish without error and without a violated invariant."""
    if res.get("error"):
        raise ToolError("TLC error in %s: %s\n%s" % (what, res["error"], res["out"][-1500:]))
    if "generated" not in res:
        raise ToolError("TLC did not finish %s:\n%s" % (what, res["out"][-1500:]))
    return res


def validate_trace(module, trace, focus, name, timeout=3600, cfg=None):
    """Trace validation. Returns (fails, consumed_all, res)."""
    res = tlc(module, cfg or (module + ".cfg"), name, workers=1, env={"TRACE": trace, "FOCUS": focus}, timeout=timeout)
    if res.get("error") and not res["unmatched"]:
        fails = sorted(set(res["fails"]))
        if any(p == focus for _, p, _ in fails):
            # an obligation of this property had already failed when TLC stopped on an evaluation error (typically 32-bit
            # overflow on an absurd figure): the failures stand; the rest of the trace was not examined
            log("TLC stopped with an evaluation error after failed obligations had been reported: the failures stand (%s)" % str(res["error"])[:160])
            res["partial"] = True
            return fails, True, res
        raise ToolError("TLC error validating %s: %s\n%s" % (trace, res["error"], res["out"][-2500:]))
    fails = sorted(set(res["fails"]))
    return fails, not res["unmatched"], res


def read_ndjson(path):
    out = []
    with open(path) as f:
        for line in f:
            line = line.strip()
            if line:
                out.append(json.loads(line))
    return out


def write_ndjson(path, events):
    with open(path, "w") as f:
        for e in events:
            f.write(json.dumps(e, separators=(",", ":")) + "\n")


# ----------------------------------------------------------------------------- findings / evidence

def known_findings():
    p = os.path.join(VERIF, "known_findings.json")
    if not os.path.exists(p):
        return []
    return json.load(open(p)).get("findings", [])


def site_id(site):
    """A crash site "file:line" named so that edits elsewhere in the file do not rename it:
    file::enclosing fn::text of the source line (whitespace squeezed)#occurrence within the fn."""
    try:
        f, ln = site.rsplit(":", 1)
        lines = open(os.path.join(REPO, f), encoding="utf-8", errors="replace").read().split("\n")
        i = int(ln) - 1
        text = " ".join(lines[i].split())
        fn, start = "?", 0
        for j in range(i, -1, -1):
            m = re.search(r"\bfn\s+(\w+)", lines[j])
            if m:
                fn, start = m.group(1), j
                break
        # the k-th line with this text inside the function (identical unwrap lines are told apart)
        k = sum(1 for j in range(start, i + 1) if " ".join(lines[j].split()) == text)
        return "%s::%s::%s#%d" % (f, fn, text, k)
    except (ValueError, IndexError, OSError):
        return site


def match_known(prop, key):
    """A violation is known iff a 'known' entry for the property has a regex matching its key."""
    for f in known_findings():
        if f.get("status") == "known" and f.get("property") == prop and (f["key"] == key if f.get("exact") else re.search(f["key"], key)):
            return f
    return None


def write_replay(prop, payload):
    d = os.path.join(VERIF, "replays", prop)
    os.makedirs(d, exist_ok=True)
    blob = json.dumps(payload, sort_keys=True)
    h = hashlib.sha1(blob.encode()).hexdigest()[:12]
    p = os.path.join(d, h + ".json")
    with open(p, "w") as f:
        json.dump(payload, f, indent=1, sort_keys=True)
    return p


class Result:
    def __init__(self, prop, tier, level="model_checking"):
        self.prop, self.tier, self.level = prop, tier, level
        self.t0 = time.time()
        self.cov = {"states": 0, "transitions": 0, "traces_validated_against_impl": 0, "evaluations": 0,
                    "distinct_nontrivial": 0, "rule": "", "samples": [], "checker_cmd": "", "trusted_base": [],
                    "mc_runs": [], "negative_controls": [], "obligations_checked": []}
        self.assumptions = []
        self.violations = []   # (key, what, replay payload)
        self.known = []

    def add_mc(self, name, res):
        self.cov["states"] += res.get("distinct", 0) or res.get("generated", 0)
        self.cov["transitions"] += res.get("generated", 0)
        self.cov["mc_runs"].append({"instance": name, "distinct": res.get("distinct"), "generated": res.get("generated"),
                                    "sim_traces": res.get("sim_traces"), "wall_s": round(res.get("wall", 0), 1)})

    def violation(self, key, what, payload):
        k = match_known(self.prop, key)
        if k:
            if (k["key"], what) not in [(a, b) for a, b, _ in self.known]:
                self.known.append((k["key"], k.get("what", what), key))
        else:
            self.violations.append((key, what, payload))

    def finish(self):
        ev = {"property_id": self.prop, "tier": self.tier, "seed": seed(), "level": self.level,
              "coverage": self.cov, "assumptions": self.assumptions, "wall_s": round(time.time() - self.t0, 1),
              "violations": len(self.violations),
              "known_findings_reported": [k[0] for k in self.known]}
        if not self.cov["samples"]:
            self.cov["samples"] = ["(none recorded)"]
        # coverage beyond the listed properties (ids X..) is kept apart from the evidence of the listed ones
        evdir = os.path.join(VERIF, "evidence" if self.prop.startswith("C") else "extra_evidence")
        os.makedirs(evdir, exist_ok=True)
        with open(os.path.join(evdir, self.prop + ".json"), "w") as f:
            json.dump(ev, f, indent=1)
        # every listed (unrepaired) finding of this property is reported on every run; whether this run's
        # slice reproduced it is stated
        reproduced = set(key for key, _, _ in self.known)
        for f in known_findings():
            if f.get("status") == "known" and f.get("property") == self.prop:
                print("KNOWN-FINDING: property=%s %s%s" % (self.prop, f.get("what", f["key"]),
                      " [reproduced in this run]" if f["key"] in reproduced else " [not reached by this run's slice]"))
        # every distinct violation key of this run (the report below is limited to 20)
        try:
            os.makedirs(WORK, exist_ok=True)
            keys = {}
            for key, what, _ in self.violations:
                keys.setdefault(key, [0, what])[0] += 1
            with open(os.path.join(WORK, "violations_%s.json" % self.prop), "w") as f:
                json.dump(keys, f, indent=1, sort_keys=True)
        except OSError:
            pass
        if self.violations:
            shown = set()
            for key, what, payload in self.violations:
                if key in shown:
                    continue
                shown.add(key)
                payload = dict(payload)
                payload.update({"property": self.prop, "key": key, "what": what, "seed": seed(), "tier": self.tier})
                path = write_replay(self.prop, payload)
                print("VIOLATION property=%s replay=%s" % (self.prop, path))
                log("  " + what)
                if len(shown) >= 20:
                    break
            return 1
        return 0
