SPECIFICATION TraceSpec
CONSTANTS MaxBroken = 0
POSTCONDITION Accepted
CHECK_DEADLOCK FALSE
