-------------------------------- MODULE Locks --------------------------------
(***************************************************************************)
(* C05. Threads computing indicators and converting projects next to each  *)
(* other, sharing the process-wide climate tables behind three mutexes.    *)
(*                                                                         *)
(* The program of one Compute, as EnergyIndicators::compute runs it:       *)
(*   MONTHLY: lock, read, unlock (one expression)                          *)
(*   META   : lock, read, unlock (one expression)                          *)
(*   JULY   : lock; ray casting for every window; unlock at function exit  *)
(* no lock is requested while another is held. Convert takes no lock.      *)
(* A thread that panics while holding a mutex poisons it for every later   *)
(* user: the specification has no such step (AllowPanic = FALSE); with     *)
(* AllowPanic = TRUE TLC shows how one failure makes every later result    *)
(* unavailable.                                                            *)
(* The tables are never written, a result is a function of the input.      *)
(***************************************************************************)
EXTENDS Integers, Sequences, FiniteSets, TLC

CONSTANTS Threads, Inputs, OpsPerThread, AllowPanic

LockNames == {"MONTHLY", "META", "JULY"}
Prog == <<"reqM", "holdM", "reqMeta", "holdMeta", "reqJ", "holdJ", "end">>   \* program counter values in order

VARIABLES pc,        \* thread -> "idle" | element of Prog | "dead"
          cur,       \* thread -> input being processed (or "none")
          done,      \* thread -> number of finished operations
          holder,    \* lock -> thread | "none"
          poisoned,  \* lock -> BOOLEAN
          tables,    \* content of the shared tables (constant "T0"; a variable so that writes would show)
          results    \* set of <<input, value>> produced so far
vars == <<pc, cur, done, holder, poisoned, tables, results>>

F(i, tbl) == <<i, tbl>>         \* the value a computation must return: a function of its input (and the tables)

Init == /\ pc = [t \in Threads |-> "idle"] /\ cur = [t \in Threads |-> "none"] /\ done = [t \in Threads |-> 0]
        /\ holder = [k \in LockNames |-> "none"] /\ poisoned = [k \in LockNames |-> FALSE]
        /\ tables = "T0" /\ results = {}

Begin(t) == /\ pc[t] = "idle" /\ done[t] < OpsPerThread
            /\ \E i \in Inputs : cur' = [cur EXCEPT ![t] = i]
            /\ pc' = [pc EXCEPT ![t] = "reqM"]
            /\ UNCHANGED <<done, holder, poisoned, tables, results>>
\* a conversion takes no lock and reads no table
Convert(t) == /\ pc[t] = "idle" /\ done[t] < OpsPerThread
              /\ \E i \in Inputs : results' = results \cup {<<"conv", i, F(i, "none")>>}
              /\ done' = [done EXCEPT ![t] = @ + 1]
              /\ UNCHANGED <<pc, cur, holder, poisoned, tables>>

LockOf(p) == CASE p \in {"reqM", "holdM"} -> "MONTHLY" [] p \in {"reqMeta", "holdMeta"} -> "META" [] OTHER -> "JULY"
NextOf(p) == CASE p = "reqM" -> "holdM" [] p = "holdM" -> "reqMeta" [] p = "reqMeta" -> "holdMeta"
               [] p = "holdMeta" -> "reqJ" [] p = "reqJ" -> "holdJ" [] p = "holdJ" -> "end"

Acquire(t) == /\ pc[t] \in {"reqM", "reqMeta", "reqJ"}
              /\ holder[LockOf(pc[t])] = "none"
              /\ IF poisoned[LockOf(pc[t])]
                 THEN pc' = [pc EXCEPT ![t] = "dead"] /\ UNCHANGED holder            \* lock().unwrap() panics
                 ELSE /\ holder' = [holder EXCEPT ![LockOf(pc[t])] = t]
                      /\ pc' = [pc EXCEPT ![t] = NextOf(@)]
              /\ UNCHANGED <<cur, done, poisoned, tables, results>>
Release(t) == /\ pc[t] \in {"holdM", "holdMeta", "holdJ"}
              /\ holder' = [holder EXCEPT ![LockOf(pc[t])] = "none"]
              /\ pc' = [pc EXCEPT ![t] = NextOf(@)]
              /\ UNCHANGED <<cur, done, poisoned, tables, results>>
PanicWhileHolding(t) == /\ AllowPanic /\ pc[t] = "holdJ"
                        /\ poisoned' = [poisoned EXCEPT !["JULY"] = TRUE]
                        /\ holder' = [holder EXCEPT !["JULY"] = "none"]
                        /\ pc' = [pc EXCEPT ![t] = "dead"]
                        /\ UNCHANGED <<cur, done, tables, results>>
Finish(t) == /\ pc[t] = "end"
             /\ results' = results \cup {<<"ind", cur[t], F(cur[t], tables)>>}
             /\ done' = [done EXCEPT ![t] = @ + 1]
             /\ pc' = [pc EXCEPT ![t] = "idle"] /\ cur' = [cur EXCEPT ![t] = "none"]
             /\ UNCHANGED <<holder, poisoned, tables>>

Next == \E t \in Threads : Begin(t) \/ Convert(t) \/ Acquire(t) \/ Release(t) \/ PanicWhileHolding(t) \/ Finish(t)
Spec == Init /\ [][Next]_vars /\ WF_vars(Next)

MutualExclusion == \A k \in LockNames : Cardinality({ t \in Threads : pc[t] \in {"holdM", "holdMeta", "holdJ"} /\ LockOf(pc[t]) = k }) <= 1
HolderConsistent == \A k \in LockNames : holder[k] # "none" => (pc[holder[k]] \in {"holdM", "holdMeta", "holdJ"} /\ LockOf(pc[holder[k]]) = k)
AtMostOneLockPerThread == \A t \in Threads : Cardinality({ k \in LockNames : holder[k] = t }) <= 1
TablesNeverWritten == [][tables' = tables]_vars
NeverPoisoned == \A k \in LockNames : ~poisoned[k]
NobodyDies == \A t \in Threads : pc[t] # "dead"
\* determinism: one value per (kind, input), whatever the schedule and the history
Deterministic == \A r1, r2 \in results : (r1[1] = r2[1] /\ r1[2] = r2[2]) => r1[3] = r2[3]
\* every thread finishes its operations (no deadlock, no starvation under fairness)
AllDone == <>(\A t \in Threads : done[t] = OpsPerThread \/ pc[t] = "dead")
=============================================================================
