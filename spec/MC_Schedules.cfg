SPECIFICATION Spec
CONSTANTS
  PeriodLens = {1, 2, 6, 7, 8, 13}
  MaxPeriods = 3
  MaxTotal = 24
INVARIANTS MachineIsExpansion LengthIsSum PhaseIsWeekday InvEmit
CHECK_DEADLOCK FALSE
