----------------------------- MODULE Indicators -----------------------------
(***************************************************************************)
(* Exact definitions of the envelope indicators over the abstract model:   *)
(* envelope membership, reference area, volumes, compactness (C11), K      *)
(* (C08), n50 (C09) and q_sol;jul (C10).                                   *)
(*                                                                         *)
(* Fixed point scales (units per 1.0): areas and lengths 10^4, U and psi   *)
(* 10^4, multipliers 10^2, volumes 10^2 (as reported) , c_100 10^2,        *)
(* fractions/factors 10^4, K and n50 10^4, irradiation 10^2.               *)
(* Products are accumulated as Bigs (Num.tla) so nothing overflows.        *)
(*                                                                         *)
(* x : abstract model (ModelGraph fields + numeric inputs)                 *)
(* p : per element properties reported by the implementation, in the order *)
(*     of the model's arrays: p.walls[i] belongs to x.walls[i] etc.        *)
(***************************************************************************)
EXTENDS ModelGraph

IdxOf(s, id) == CHOOSE i \in DOMAIN s : s[i].id = id
Has(s, id) == id \in Ids(s)

(*************************** envelope membership ***************************)
InsideOf(x, sid) == \E i \in DOMAIN x.spaces : x.spaces[i].id = sid /\ x.spaces[i].inside
Tenv(x, w) == IF w.bounds \in {"EXTERIOR", "GROUND", "ADIABATIC"}
              THEN InsideOf(x, w.space)
              ELSE InsideOf(x, w.space) # (w.next # None /\ InsideOf(x, w.next))
MultOf(x, w) == IF Has(x.spaces, w.space) THEN x.spaces[IdxOf(x.spaces, w.space)].mult ELSE 100
\* class reported for an element: compass class only for vertical elements
OrientOf(w) == IF w.tilt = "SIDE" THEN w.orient ELSE "HZ"
\* multiplier of a window: that of its wall's space (100 = 1.00 when the wall or the space is missing)
WinMultOf(x, j) == IF Has(x.walls, x.windows[j].wall) THEN MultOf(x, x.walls[IdxOf(x.walls, x.windows[j].wall)]) ELSE 100
WinIdxOf(x, w) == { j \in DOMAIN x.windows : x.windows[j].wall = w.id }
WinAreaOf(x, w) == LET S == WinIdxOf(x, w) IN
                   FoldLeft(LAMBDA acc, j : IF j \in S THEN acc + x.windows[j].area ELSE acc, 0,
                            [j \in 1..Len(x.windows) |-> j])

\* net area of wall i (10^-4 m2): gross area minus its windows. The code rounds it to 0.01 m2: its figure is used when
\* it lies within that rounding of the model's, the model's own otherwise (so that a wrong net area shows in K and n50)
NetAreaOf(x, p, i) ==
  LET own == x.walls[i].area - WinAreaOf(x, x.walls[i]) IN
  IF p.walls[i].anetbad \/ own < 0 \/ Abs(p.walls[i].anet - own) <= 100 THEN p.walls[i].anet ELSE own

\* C11: per-wall properties the implementation reports must be the ones the model defines
WallPropsOk(x, p, i) ==
  LET w == x.walls[i]  pw == p.walls[i] IN
  /\ pw.tenv = Tenv(x, w)
  /\ pw.mult = MultOf(x, w)
  /\ pw.tilt = w.tilt
  /\ pw.orient = OrientOf(w)
  /\ pw.anetbad \/ Abs(pw.anet - (w.area - WinAreaOf(x, w))) <= 60      \* net area rounded to 0.01 m2
WinPropsOk(x, p, j) ==
  LET v == x.windows[j]  pv == p.wins[j] IN
  IF Has(x.walls, v.wall)
  THEN LET w == x.walls[IdxOf(x.walls, v.wall)] IN
       /\ pv.tenv = Tenv(x, w) /\ pv.mult = MultOf(x, w) /\ pv.bounds = w.bounds
       /\ pv.tilt = w.tilt /\ pv.orient = OrientOf(w)
  ELSE /\ pv.tenv = FALSE /\ pv.mult = 100
\* (net height, defined with the volumes below)
NetHeightOfSpace(x, i) == x.spaces[i].h - (LET S == { k \in DOMAIN x.walls : (x.walls[k].tilt = "TOP" /\ x.walls[k].space = x.spaces[i].id)
                                                                              \/ (x.walls[k].tilt = "BOTTOM" /\ x.walls[k].next = x.spaces[i].id) } IN
                                          IF S = {} THEN 0
                                          ELSE LET w == x.walls[Min(S)] IN
                                               IF Has(x.wallcons, w.cons) /\ "thick" \in DOMAIN x.wallcons[IdxOf(x.wallcons, w.cons)]
                                               THEN x.wallcons[IdxOf(x.wallcons, w.cons)].thick ELSE 0)
SpaceAreaOf(x, s) == SumSeq(x.walls, LAMBDA w : IF w.space = s.id /\ w.tilt = "BOTTOM" THEN w.area ELSE 0)
SpacePropsOk(x, p, i) ==
  /\ Abs(p.spaces[i].area - SpaceAreaOf(x, x.spaces[i])) <= 4 + Len(x.walls) \div 8
  /\ "hnet" \notin DOMAIN p.spaces[i] \/ p.spaces[i].hnet = None \/ Abs(p.spaces[i].hnet - NetHeightOfSpace(x, i)) <= 3

\* a space under several ceiling elements of different thickness: the code takes the net height from the first one it
\* finds (a documented simplification, recorded as a known finding: the indicators then depend on the order of the walls)
ThickOfWall(x, w) == IF Has(x.wallcons, w.cons) THEN x.wallcons[IdxOf(x.wallcons, w.cons)].thick ELSE 0
CeilingsOf(x, sid) == { i \in DOMAIN x.walls : \/ (x.walls[i].tilt = "TOP" /\ x.walls[i].space = sid)
                                                \/ (x.walls[i].tilt = "BOTTOM" /\ x.walls[i].next = sid) }
SeveralCeilings(x) == \E s \in DOMAIN x.spaces : \E i, j \in CeilingsOf(x, x.spaces[s].id) :
                         ThickOfWall(x, x.walls[i]) # ThickOfWall(x, x.walls[j])

\* a space with several ground floor slabs of different area: the exposed perimeter and characteristic dimension are
\* taken from the first one (the code logs a warning; known finding)
SlabsOf(x, sid) == { i \in DOMAIN x.walls : x.walls[i].space = sid /\ x.walls[i].tilt = "BOTTOM" /\ x.walls[i].bounds = "GROUND" }
SeveralSlabs(x) == \E s \in DOMAIN x.spaces : \E i, j \in SlabsOf(x, x.spaces[s].id) : x.walls[i].area # x.walls[j].area


(******************************* tolerances ********************************)
\* |a - b| <= abs + r5 * 10^-5 * max(a, b)   (r5 = 20 is a relative tolerance of 2 * 10^-4: the
\* implementation accumulates in 32 bit floats)
BigApprox(a, b, abs, r5) ==
  LET m == IF BigLe(a, b) THEN b ELSE a
      t == BigAdd(abs, BigDivSmall(BigMulSmall(m, r5), 100000))
  IN BigNear(a, b, t)
\* helper: 10^k as a Big
RECURSIVE Pow10(_)
Pow10(k) == IF k = 0 THEN BigOf(1) ELSE BigMulSmall(Pow10(k - 1), 10)
Scale(n, k) == BigMul(BigOf(n), Pow10(k))

(*********************** reference area, volumes (C11) *********************)
Habitable(s) == s.kind # "N"
\* floor area of a space: its own floor elements (10^-4 m2); net height: storey height minus the thickness of the
\* first ceiling element in the order of the model (the space's own TOP element, or the floor of the space above
\* that names it as next), as the code documents it (10^-4 m)
FloorAreaOf(x, i) == SpaceAreaOf(x, x.spaces[i])
WallThick(x, w) == IF Has(x.wallcons, w.cons) /\ "thick" \in DOMAIN x.wallcons[IdxOf(x.wallcons, w.cons)]
                   THEN x.wallcons[IdxOf(x.wallcons, w.cons)].thick ELSE 0
IsCeilingOf(w, sid) == (w.tilt = "TOP" /\ w.space = sid) \/ (w.tilt = "BOTTOM" /\ w.next = sid)
FirstCeiling(x, sid) == LET S == { k \in DOMAIN x.walls : IsCeilingOf(x.walls[k], sid) } IN
                        IF S = {} THEN 0 ELSE WallThick(x, x.walls[Min(S)])
NetHeightOf(x, i) == x.spaces[i].h - FirstCeiling(x, x.spaces[i].id)
\* 10^-6 m2
ARefBig(x, p) == BigSumSeq([i \in DOMAIN x.spaces |-> i],
                    LAMBDA i : IF x.spaces[i].inside /\ Habitable(x.spaces[i])
                               THEN BigProd2(FloorAreaOf(x, i), x.spaces[i].mult) ELSE BigZero)
\* 10^-10 m3
VolGrossBig(x, p) == BigSumSeq([i \in DOMAIN x.spaces |-> i],
                    LAMBDA i : IF x.spaces[i].inside
                               THEN BigProd3(FloorAreaOf(x, i), x.spaces[i].h, x.spaces[i].mult) ELSE BigZero)
VolNetBig(x, p) == BigSumSeq([i \in DOMAIN x.spaces |-> i],
                    LAMBDA i : IF x.spaces[i].inside
                               THEN BigProd3(FloorAreaOf(x, i), NetHeightOf(x, i), x.spaces[i].mult) ELSE BigZero)
\* net volume of the habitable spaces inside the envelope: the volume both ventilation rates must use
VolInhNetBig(x, p) == BigSumSeq([i \in DOMAIN x.spaces |-> i],
                    LAMBDA i : IF x.spaces[i].inside /\ Habitable(x.spaces[i])
                               THEN BigProd3(FloorAreaOf(x, i), NetHeightOf(x, i), x.spaces[i].mult) ELSE BigZero)
InKScope(x, w) == Tenv(x, w) /\ w.bounds \in {"EXTERIOR", "GROUND"}
\* exposed gross area, 10^-6 m2
ExposedBig(x) == BigSumSeq(x.walls, LAMBDA w : IF InKScope(x, w) THEN BigProd2(w.area, MultOf(x, w)) ELSE BigZero)

\* the other figures reported for each space: its net volume is its area times its net height (0.01 m3), its multiplier and
\* storey height are the model's
SpaceFiguresOk(x, p) ==
  \A i \in DOMAIN x.spaces : ("vnet" \in DOMAIN p.spaces[i] /\ p.spaces[i].hnet # None) =>
        /\ BigApprox(Scale(p.spaces[i].vnet, 6), BigProd2(p.spaces[i].area, p.spaces[i].hnet), Scale(1, 6), 10)
        /\ p.spaces[i].mult = x.spaces[i].mult
        /\ Abs(p.spaces[i].height - x.spaces[i].h) <= 1
GlobalsOk(x, p, g) ==
  /\ SpaceFiguresOk(x, p)
  /\ BigApprox(Scale(g.aref, 4), ARefBig(x, p), BigOf(6000), 5)                      \* rounded to 0.01 m2
  /\ BigApprox(Scale(g.vgross, 8), VolGrossBig(x, p), Scale(6, 7), 10)               \* rounded to 0.01 m3
  /\ BigApprox(Scale(g.vnet, 8), VolNetBig(x, p), Scale(6, 7), 10)
  /\ IF ExposedBig(x) = BigZero THEN g.compact = 0
     ELSE BigApprox(BigMul(BigOf(g.compact), ExposedBig(x)), Scale(g.vgross, 8),
                    BigAdd(ExposedBig(x), Scale(1, 6)), 10)
\* ventilation: 3.6 * q / V_habitable_inside_net, the same figure in the indicators and in the U-value code.
\* gvr in 10^-4 1/h, q (gvent) in 10^-4 l/s, V in 10^-10 m3:  gvr * V = 3.6 * q  * 10^10 ; compare in 10^-14
GvrOk(x, p, gvr) ==
  IF x.meta.gvent = None THEN gvr = 0
  ELSE LET V == VolInhNetBig(x, p) IN
       \/ BigLe(V, Scale(2, 8))               \* V below 0.02 m3: quotient meaningless, not constrained
       \/ BigApprox(BigMul(BigOf(gvr), V), BigMul(BigMulSmall(BigOf(x.meta.gvent), 36), Pow10(9)),
                    BigAdd(BigAdd(V, BigMul(BigOf(gvr), Scale(6, 7))),      \* V is rounded to 0.01 m3 first
                           BigMul(BigMulSmall(BigOf(x.meta.gvent), 36), Pow10(5))), 20)

(************************************ K (C08) ******************************)
UEff(pe) == IF pe.uov # None THEN pe.uov ELSE IF pe.u # None THEN pe.u ELSE 57000
Cat(w) == IF w.bounds = "GROUND" THEN "ground"
          ELSE IF w.tilt = "TOP" THEN "roofs" ELSE IF w.tilt = "BOTTOM" THEN "floors" ELSE "walls"
KWalls(x) == { i \in DOMAIN x.walls : InKScope(x, x.walls[i]) }
KWins(x)  == { j \in DOMAIN x.windows : \E i \in KWalls(x) : x.windows[j].wall = x.walls[i].id }
SeqOfSet(S, n) == SelectSeq([i \in 1..n |-> i], LAMBDA i : i \in S)
\* 10^-6 m2 and 10^-10 W/K
CatA(x, p, c)  == BigSumSeq(SeqOfSet(KWalls(x), Len(x.walls)),
                    LAMBDA i : IF Cat(x.walls[i]) = c THEN BigProd2(NetAreaOf(x, p, i), MultOf(x, x.walls[i])) ELSE BigZero)
CatAU(x, p, c) == BigSumSeq(SeqOfSet(KWalls(x), Len(x.walls)),
                    LAMBDA i : IF Cat(x.walls[i]) = c
                               THEN BigProd3(NetAreaOf(x, p, i), MultOf(x, x.walls[i]), UEff(p.walls[i])) ELSE BigZero)
WinA(x, p)  == BigSumSeq(SeqOfSet(KWins(x), Len(x.windows)),
                    LAMBDA j : BigProd2(x.windows[j].area, WinMultOf(x, j)))
WinAU(x, p) == BigSumSeq(SeqOfSet(KWins(x), Len(x.windows)),
                    LAMBDA j : BigProd3(x.windows[j].area, WinMultOf(x, j), UEff(p.wins[j])))
Cats == <<"walls", "roofs", "floors", "ground">>
OpaqueA(x, p)  == BigSumSeq(Cats, LAMBDA c : CatA(x, p, c))
OpaqueAU(x, p) == BigSumSeq(Cats, LAMBDA c : CatAU(x, p, c))
\* bridges of non-negative length; positive and negative psi apart; 10^-8 W/K
TbPos(x) == BigSumSeq(x.tbs, LAMBDA t : IF t.lsign >= 0 /\ ~t.psineg THEN BigProd2(t.l, t.psi) ELSE BigZero)
TbNeg(x) == BigSumSeq(x.tbs, LAMBDA t : IF t.lsign >= 0 /\ t.psineg THEN BigProd2(t.l, t.psi) ELSE BigZero)
KArea(x, p) == BigAdd(OpaqueA(x, p), WinA(x, p))
KAUPos(x, p) == BigAdd(BigAdd(OpaqueAU(x, p), WinAU(x, p)), BigMulSmall(TbPos(x), 100))
KAUNeg(x) == BigMulSmall(TbNeg(x), 100)

UMembers(x, p, c) == IF c = "windows" THEN { UEff(p.wins[j]) : j \in KWins(x) }
                     ELSE { UEff(p.walls[i]) : i \in { k \in KWalls(x) : Cat(x.walls[k]) = c } }
CatOk(x, p, c, kc) ==
  LET A  == IF c = "windows" THEN WinA(x, p) ELSE CatA(x, p, c)
      AU == IF c = "windows" THEN WinAU(x, p) ELSE CatAU(x, p, c)
      U  == UMembers(x, p, c) IN
  /\ BigApprox(Scale(kc.a, 4), A, BigOf(20000), 20)
  /\ BigApprox(Scale(kc.au, 8), AU, Scale(2, 8), 20)
  /\ IF U = {} THEN kc.umin = None /\ kc.umax = None
     ELSE Abs(kc.umin - Min(U)) <= 1 /\ Abs(kc.umax - Max(U)) <= 1
  /\ IF BigLe(A, BigOf(900)) THEN kc.umean = None                   \* area below 0.001 m2: no mean
     ELSE IF BigLe(A, BigOf(1100)) THEN TRUE
     ELSE /\ kc.umean # None
          /\ BigApprox(BigMul(BigOf(kc.umean), A), AU, BigMulSmall(A, 20), 20)
          /\ kc.umin - 20 <= kc.umean /\ kc.umean <= kc.umax + 20   \* mean between min and max
TbKinds == <<"ROOF", "BALCONY", "CORNER", "INTERMEDIATEFLOOR", "INTERNALWALL", "GROUNDFLOOR", "PILLAR", "WINDOW", "GENERIC">>
TbKindOk(x, kt, kind) ==
  LET L == BigSumSeq(x.tbs, LAMBDA t : IF t.lsign >= 0 /\ t.kind = kind THEN BigOf(t.l) ELSE BigZero)
      Pp == BigSumSeq(x.tbs, LAMBDA t : IF t.lsign >= 0 /\ t.kind = kind /\ ~t.psineg THEN BigProd2(t.l, t.psi) ELSE BigZero)
      Pn == BigSumSeq(x.tbs, LAMBDA t : IF t.lsign >= 0 /\ t.kind = kind /\ t.psineg THEN BigProd2(t.l, t.psi) ELSE BigZero)
  IN /\ BigApprox(Scale(kt.l, 2), L, BigOf(200), 20)
     /\ IF kt.psilneg THEN BigApprox(BigAdd(Scale(kt.psil, 6), Pp), Pn, Scale(2, 6), 20)
        ELSE BigApprox(BigAdd(Scale(kt.psil, 6), Pn), Pp, Scale(2, 6), 20)

KOk(x, p, k) ==
  LET A == KArea(x, p) IN
  /\ \A c \in {"walls", "roofs", "floors", "ground", "windows"} : CatOk(x, p, c, k[c])
  /\ \A n \in DOMAIN TbKinds : TbKindOk(x, k.tbs[n], TbKinds[n])
  \* the headline figure: K * A = sum(A U) + sum(psi L); K = 0 below 0.01 m2
  /\ IF BigLe(A, BigOf(9000)) THEN k.K = 0
     ELSE IF BigLe(A, BigOf(11000)) THEN TRUE
     \* (K itself is negative when bridges with a negative psi outweigh everything else: |K| and its sign are logged)
     ELSE IF k.Kneg THEN BigApprox(KAUNeg(x), BigAdd(BigMul(BigOf(k.K), A), KAUPos(x, p)), BigMulSmall(A, 20), 20)
     ELSE BigApprox(BigAdd(BigMul(BigOf(k.K), A), KAUNeg(x)), KAUPos(x, p),
                    BigMulSmall(A, 20), 20)                        \* |K - exact| <= 0.002 W/m2K
  \* the summary adds up
  /\ BigApprox(Scale(k.sum.a, 4), A, BigOf(40000), 20)
  /\ BigApprox(Scale(k.sum.opa, 4), OpaqueA(x, p), BigOf(40000), 20)
  /\ BigApprox(Scale(k.sum.opau, 8), OpaqueAU(x, p), Scale(4, 8), 20)
  /\ BigApprox(Scale(k.sum.wina, 4), WinA(x, p), BigOf(20000), 20)
  /\ BigApprox(Scale(k.sum.winau, 8), WinAU(x, p), Scale(2, 8), 20)
  /\ k.sum.auneg \/ BigApprox(BigAdd(Scale(k.sum.au, 8), KAUNeg(x)), KAUPos(x, p), Scale(6, 8), 20)
  \* total length of the bridges counted, and their total psi L
  /\ BigApprox(Scale(k.sum.tbl, 2), BigSumSeq(x.tbs, LAMBDA t : IF t.lsign >= 0 THEN BigOf(t.l) ELSE BigZero), BigOf(2000), 20)
  /\ IF k.sum.tbpsilneg THEN BigApprox(BigAdd(Scale(k.sum.tbpsil, 6), TbPos(x)), TbNeg(x), Scale(2, 7), 20)
     ELSE BigApprox(BigAdd(Scale(k.sum.tbpsil, 6), TbNeg(x)), TbPos(x), Scale(2, 7), 20)

(*********************************** n50 (C09) *****************************)
N50Walls(x) == { i \in DOMAIN x.walls : Tenv(x, x.walls[i]) /\ x.walls[i].bounds = "EXTERIOR" }
N50Wins(x)  == { j \in DOMAIN x.windows : \E i \in N50Walls(x) : x.windows[j].wall = x.walls[i].id }
C100Of(x, v) == IF Has(x.wincons, v.cons) THEN x.wincons[IdxOf(x.wincons, v.cons)].c100 ELSE 10000
AoBig(x, p) == BigSumSeq(SeqOfSet(N50Walls(x), Len(x.walls)), LAMBDA i : BigProd2(NetAreaOf(x, p, i), MultOf(x, x.walls[i])))
AhBig(x, p) == BigSumSeq(SeqOfSet(N50Wins(x), Len(x.windows)), LAMBDA j : BigProd2(x.windows[j].area, WinMultOf(x, j)))
\* 10^-8 m3/h
ChAhBig(x, p) == BigSumSeq(SeqOfSet(N50Wins(x), Len(x.windows)),
                    LAMBDA j : BigProd3(x.windows[j].area, WinMultOf(x, j), C100Of(x, x.windows[j])))
CoRef(x) == IF x.meta.new THEN 1600 ELSE 2900
\* 0.629 * (C * Ao + ChAh) in 10^-11 m3/h ; C in 10^-2
Leak(x, p, c) == BigMulSmall(BigAdd(BigMulSmall(AoBig(x, p), c), ChAhBig(x, p)), 629)
N50Ok(x, p, g, n) ==
  LET V == Scale(n.vol, 5)                      \* n50 [10^-4] * V [10^-2] * 10^5 = 10^-11
      tol(v) == BigAdd(BigMulSmall(V, 20), Scale(1, 7)) IN
  /\ BigApprox(Scale(n.vol, 8), VolNetBig(x, p), Scale(6, 7), 10)      \* V: net volume of the spaces inside the envelope
  /\ BigApprox(Scale(n.wa, 4), AoBig(x, p), BigOf(20000), 20)
  /\ BigApprox(Scale(n.ha, 4), AhBig(x, p), BigOf(20000), 20)
  /\ BigApprox(Scale(n.hca, 6), ChAhBig(x, p), Scale(2, 6), 20)
  /\ n.wcref = CoRef(x)
  \* the reported mean permeability of the windows is sum(Ch Ah) / Ah
  /\ n.ha > 0 => BigApprox(BigMul(BigOf(n.hc), BigOf(n.ha)), Scale(n.hca, 2), BigAdd(BigOf(n.ha), BigOf(n.hc + 200)), 20)
  \* the reported products: opaque permeability times opaque area, with the reference and with the reported permeability
  /\ ("wca" \in DOMAIN n) =>
        /\ BigApprox(Scale(n.wcaref, 2), BigMul(BigOf(n.wa), BigOf(n.wcref)), BigAdd(BigOf(n.wa), BigOf(n.wcref + 200)), 20)
        /\ BigApprox(Scale(n.wca, 2), BigMul(BigOf(n.wa), BigOf(n.wc)), BigAdd(BigOf(n.wa), BigOf(n.wc + 200)), 20)
        /\ (n.wca > 1 /\ n.wc > 1) => (n.wcaneg = n.wcneg)
  /\ IF n.vol <= 0 THEN n.n50ref = 0                                  \* V <= 0.001 m3
     ELSE BigApprox(BigMul(BigOf(n.n50ref), V), Leak(x, p, CoRef(x)), tol(V), 30)
  /\ IF x.meta.n50t = None
     THEN n.n50 = n.n50ref /\ n.wc = n.wcref /\ ~n.wcneg
     ELSE /\ Abs(n.n50 - x.meta.n50t) <= 1
          /\ IF BigLe(AoBig(x, p), BigOf(900)) THEN n.wc = n.wcref /\ ~n.wcneg
             ELSE IF BigLe(AoBig(x, p), BigOf(1100)) THEN TRUE
             ELSE \* the reported wall permeability satisfies the same equation with the test value
                  LET lhs == BigMul(BigOf(n.n50), V)
                      cw  == BigMulSmall(BigMul(AoBig(x, p), BigOf(n.wc)), 629)
                      ch  == BigMulSmall(ChAhBig(x, p), 629)
                      t   == BigAdd(tol(V), BigMulSmall(AoBig(x, p), 629))   \* + half a unit of wc
                  IN IF n.wcneg THEN BigApprox(BigAdd(lhs, cw), ch, t, 30)
                     ELSE BigApprox(lhs, BigAdd(cw, ch), t, 30)

(******************************** q_sol;jul (C10) **************************)
Orients == <<"N", "NE", "E", "SE", "S", "SW", "W", "NW", "HZ">>
QWins(x) == { j \in DOMAIN x.windows :
                /\ Has(x.walls, x.windows[j].wall)
                /\ InKScope(x, x.walls[IdxOf(x.walls, x.windows[j].wall)]) }
FshOf(pv) == IF pv.fshov # None THEN pv.fshov ELSE IF pv.fsh # None THEN pv.fsh ELSE 10000
GOf(x, p, v)  == IF Has(x.wincons, v.cons) THEN p.wincons[IdxOf(x.wincons, v.cons)].g  ELSE 7700
FfOf(x, p, v) == IF Has(x.wincons, v.cons) THEN p.wincons[IdxOf(x.wincons, v.cons)].ff ELSE 2000
\* area with multiplier, 10^-6 m2
QA(x, p, j) == BigProd2(x.windows[j].area, WinMultOf(x, j))
\* orientation class of a window in scope: that of its wall, by the specification's own tables (Classifiers.tla
\* through the concretiser), not the class the indicators report
WinOrient(x, j) == OrientOf(x.walls[IdxOf(x.walls, x.windows[j].wall)])
\* gains of one window, 10^-20 kWh : F g (1 - ff) A mult H
Gain(x, p, H, j) ==
  LET v == x.windows[j]  pv == p.wins[j] IN
  BigMulSmall(BigMulSmall(BigMulSmall(BigMulSmall(QA(x, p, j), FshOf(pv)), GOf(x, p, v)), 10000 - FfOf(x, p, v)),
              H[WinOrient(x, j)])
QSeq(x, o) == SeqOfSet({ j \in QWins(x) : o = "all" \/ OrientOf(x.walls[IdxOf(x.walls, x.windows[j].wall)]) = o },
                       Len(x.windows))
QGains(x, p, H, o) == BigSumSeq(QSeq(x, o), LAMBDA j : Gain(x, p, H, j))
QArea(x, p, o)     == BigSumSeq(QSeq(x, o), LAMBDA j : QA(x, p, j))
\* weighted sums for the reported means (10^-10)
QW(x, p, o, f(_)) == BigSumSeq(QSeq(x, o), LAMBDA j : BigMulSmall(QA(x, p, j), f(j)))

MeanOk(mean, W, A) == BigApprox(BigMul(BigOf(mean), A), W, BigMulSmall(A, 3), 30)
QSolOk(x, p, g, H, qs) ==
  LET A == QArea(x, p, "all")  G == QGains(x, p, H, "all") IN
  /\ BigApprox(Scale(qs.awp, 4), A, BigOf(20000), 30)
  /\ BigApprox(Scale(qs.Q, 18), G, Scale(1, 18), 50)
  \* q = Q / A_ref (10^-4 * 10^-2 -> 10^-6 ; Q 10^-2)
  \* (Q is logged to 0.01 kWh: half a unit of it, 5000 here, is part of the tolerance next to the rounding of q itself)
  /\ g.aref <= 0 \/ BigApprox(BigProd2(qs.q, g.aref), Scale(qs.Q, 4), BigOf(g.aref + 5100), 30)
  /\ IF A = BigZero
     THEN qs.nonfinite = <<>>                      \* no window in scope: every figure is a finite number
     ELSE /\ MeanOk(qs.fshm, QW(x, p, "all", LAMBDA j : FshOf(p.wins[j])), A)
          /\ MeanOk(qs.gm,   QW(x, p, "all", LAMBDA j : GOf(x, p, x.windows[j])), A)
          /\ MeanOk(qs.ffm,  QW(x, p, "all", LAMBDA j : FfOf(x, p, x.windows[j])), A)
          /\ BigApprox(BigMul(BigOf(qs.irrm), A), QW(x, p, "all", LAMBDA j : H[WinOrient(x, j)]), BigMulSmall(A, 2), 30)
  \* the per-orientation breakdown: present exactly for the classes that have windows, and adds up
  /\ \A n \in DOMAIN Orients :
        LET o == Orients[n]  Ao == QArea(x, p, o) IN
        IF Ao = BigZero THEN ~(\E d \in Range(qs.detail) : d.o = o)
        ELSE \E d \in Range(qs.detail) :
               /\ d.o = o
               /\ BigApprox(Scale(d.a, 4), Ao, BigOf(20000), 30)
               /\ BigApprox(Scale(d.gains, 18), QGains(x, p, H, o), Scale(1, 18), 50)
               /\ d.irr = H[o]
               /\ MeanOk(d.fshm, QW(x, p, o, LAMBDA j : FshOf(p.wins[j])), Ao)
               /\ MeanOk(d.gm,   QW(x, p, o, LAMBDA j : GOf(x, p, x.windows[j])), Ao)
               /\ MeanOk(d.ffm,  QW(x, p, o, LAMBDA j : FfOf(x, p, x.windows[j])), Ao)
  /\ Len(qs.detail) = Cardinality({ n \in DOMAIN Orients : QArea(x, p, Orients[n]) # BigZero })

(***************************** the whole observation ***********************)
PropsOk(x, p) == /\ \A i \in DOMAIN x.walls : WallPropsOk(x, p, i)
                 /\ \A j \in DOMAIN x.windows : WinPropsOk(x, p, j)
                 /\ \A i \in DOMAIN x.spaces : SpacePropsOk(x, p, i)
=============================================================================
