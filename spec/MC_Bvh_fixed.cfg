SPECIFICATION Spec
CONSTANTS
  Variant = "fixed"
  Boxes <- Boxes_
  Rays <- Rays_
  LeafSizes <- LeafSizes_
  MaxLen = 4
INVARIANTS NoPanic Bounded AllKept AccEqLin LeavesOk
PROPERTIES Terminates
CHECK_DEADLOCK FALSE
