-------------------------------- MODULE RayGeom --------------------------------
(***************************************************************************)
(* C13 (second part). Exact ray / planar polygon geometry.                  *)
(* A polygon has integer vertices in its own plane; its pose is a rational  *)
(* tilt and azimuth (<<c, s, h>>, see Solar.tla) and a position. A test ray *)
(* is constructed through a chosen target: a point Q of the polygon's plane *)
(* with half-integer local coordinates (given doubled: q2 = 2 Q), an        *)
(* integer global direction D and an integer k; the origin is               *)
(* O = Global(Q) - k D. The ray meets the plane at parameter k exactly, so  *)
(*   hit  <=>  k > 0  /\  D . N # 0  /\  Q inside the polygon               *)
(* decided here in integer arithmetic (crossing number).                    *)
(***************************************************************************)
EXTENDS Integers, Sequences, FiniteSets, TLC

\* crossing number of the half-line from q to +x with the polygon (all coordinates doubled; q has odd
\* coordinates, vertices even ones, so q is never level with a vertex)
Crosses(q, a, b) ==
  LET dy == b[2] - a[2] IN
  /\ (a[2] > q[2]) # (b[2] > q[2])
  /\ IF dy > 0 THEN (q[1] - a[1]) * dy < (q[2] - a[2]) * (b[1] - a[1])
     ELSE (q[1] - a[1]) * dy > (q[2] - a[2]) * (b[1] - a[1])
Edge(poly, i) == <<poly[i], poly[(i % Len(poly)) + 1]>>
InPoly(q, poly) == Cardinality({ i \in DOMAIN poly : Crosses(q, Edge(poly, i)[1], Edge(poly, i)[2]) }) % 2 = 1
\* q on the supporting line of an edge within its span: such targets are not used (the property excludes
\* crossing points within 1 mm of the outline)
OnOutline(q, poly) == \E i \in DOMAIN poly :
   LET a == Edge(poly, i)[1]  b == Edge(poly, i)[2] IN
   /\ (b[1] - a[1]) * (q[2] - a[2]) = (q[1] - a[1]) * (b[2] - a[2])
   /\ (q[1] - a[1]) * (q[1] - b[1]) <= 0 /\ (q[2] - a[2]) * (q[2] - b[2]) <= 0
\* outward normal of the pose (tilt t, azimuth a) over t[3] * a[3]  (Rz(a) Rx(t) (0, 0, 1))
Normal(t, a) == << a[2] * t[2], -(a[1] * t[2]), t[1] * a[3] >>
Dot(u, v) == u[1] * v[1] + u[2] * v[2] + u[3] * v[3]
Hit(c) == c.k > 0 /\ Dot(c.D, Normal(c.tilt, c.az)) # 0 /\ InPoly(c.q, c.poly)

\* reveal surfaces of a window (x, y, w, h) set back by d in a wall: four quads in wall coordinates (mm),
\* spanning the gap between the wall plane z = 0 and the window plane z = -d along the four edges
Quad(p1, p2, d) == { <<p1[1], p1[2], 0>>, <<p2[1], p2[2], 0>>, <<p2[1], p2[2], -d>>, <<p1[1], p1[2], -d>> }
RevealQuads(v) == { Quad(<<v.x, v.y + v.h>>, <<v.x + v.w, v.y + v.h>>, v.d),        \* head
                    Quad(<<v.x, v.y>>, <<v.x + v.w, v.y>>, v.d),                    \* sill
                    Quad(<<v.x, v.y>>, <<v.x, v.y + v.h>>, v.d),                    \* left jamb
                    Quad(<<v.x + v.w, v.y>>, <<v.x + v.w, v.y + v.h>>, v.d) }       \* right jamb
AbsI(x) == IF x < 0 THEN -x ELSE x
ClosePt(p, r) == AbsI(p[1] - r[1]) <= 1 /\ AbsI(p[2] - r[2]) <= 1 /\ AbsI(p[3] - r[3]) <= 1
SameQuad(got, exp) == /\ \A p \in got : \E r \in exp : ClosePt(p, r)
                      /\ \A r \in exp : \E p \in got : ClosePt(p, r)
=============================================================================
