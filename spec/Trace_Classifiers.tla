--------------------------- MODULE Trace_Classifiers ---------------------------
(* Runs of consecutive evaluated floats that the real classifier put in one class. *)
EXTENDS Classifiers, Json, IOUtils
Rec == ndJsonDeserialize(IOEnv.TRACE)
VARIABLE l
Ev == Rec[l]
Chk(name, cond) == IF cond THEN TRUE ELSE PrintT(<<"FAIL", l, "C11", name>>)
P(v) == <<v[1], v[2]>>
SpecClass(kind, x) == IF kind = "orient" THEN OrientClass(x) ELSE TiltClass(x)
\* Outside [0, 360) the implementation brings the angle back with 32-bit float arithmetic: the sum
\* angle + 360 k is rounded to the nearest float, so a float within one rounding step (2^-13 degree for
\* |angle| <= 1080) of a boundary may fall on either side. Inside [0, 360) nothing is rounded: no tolerance.
Eps(x) == IF x[1] >= 0 /\ x[1] < 360 THEN 0 ELSE 1024
Shift(x, d) == LET t == x[2] + d IN
               IF t < 0 THEN <<x[1] - 1, t + 8388608>> ELSE IF t >= 8388608 THEN <<x[1] + 1, t - 8388608>> ELSE <<x[1], t>>
ClassSet(kind, x) == { SpecClass(kind, Shift(x, -Eps(x))), SpecClass(kind, x), SpecClass(kind, Shift(x, Eps(x))) }
TRun == /\ l <= Len(Rec) /\ Ev.ev = "ClassRun" /\ l' = l + 1
        /\ Chk("ClassDependsOnlyOnAngleModulo360_" \o Ev.kind, Ev.class \in ClassSet(Ev.kind, P(Ev.lo)) /\ Ev.class \in ClassSet(Ev.kind, P(Ev.hi)))
        \* (a run is a maximal sequence of evaluated floats, neighbours or samples, that the implementation puts in one
        \*  class: whether dense or not it cannot reach across a boundary of the table)
        /\ Chk("NoFloatBetweenIsClassifiedDifferently_" \o Ev.kind,
               LET lo == Shift(P(Ev.lo), Eps(P(Ev.lo)))  hi == Shift(P(Ev.hi), -Eps(P(Ev.hi))) IN
                           Lt(hi, lo) \/ ConstantOn(IF Ev.kind = "orient" THEN OrientBounds ELSE TiltBounds, lo, hi))
\* the parser's tilt classifier and the model's agree on [0, 360]
TAgree == /\ l <= Len(Rec) /\ Ev.ev = "ClassAgree" /\ l' = l + 1
          /\ Chk("ParserAndModelClassifyTiltsIdentically", Ev.disagreements = 0)
TraceSpec == l = 1 /\ [][TRun \/ TAgree]_l
Accepted == \/ TLCGet("stats").diameter - 1 = Len(Rec)
            \/ Print(<<"UNMATCHED", TLCGet("stats").diameter>>, FALSE)
=============================================================================
