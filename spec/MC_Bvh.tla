------------------------------- MODULE MC_Bvh -------------------------------
(* Exhaustive-small instance of Bvh: every sequence of up to MaxLen boxes    *)
(* drawn from six boxes (coinciding centres, boxes apart on each axis, a big *)
(* box containing others), leaf sizes 1 and 2, all axis-parallel rays on an  *)
(* odd grid.                                                                 *)
EXTENDS Bvh, Json
B(x, y, z, w) == [lo |-> <<x - w, y - w, z - w>>, hi |-> <<x + w, y + w, z + w>>]
Boxes_ == { B(0, 0, 0, 2), B(8, 0, 0, 2), B(16, 0, 0, 2), B(0, 8, 0, 2), B(0, 0, 12, 2), B(4, 4, 4, 6) }
Rays_ == { [o |-> <<x, y, z>>, a |-> a, d |-> d] :
             x \in {-5, 1, 9, 19}, y \in {-5, 1, 9}, z \in {1, 13}, a \in 1..3, d \in {1, -1} }
LeafSizes_ == {1, 2}
\* every finished construction is an implementation test (B1)
InvEmit == pc = "done" => PrintT(<<"CASE", ToJson([input |-> input, leaf |-> leaf])>>)
=============================================================================
