------------------------- MODULE MC_Session_wins -------------------------
(* windows -> walls / window constructions -> glazing, frames. *)
EXTENDS Session
MaxN_ == [days |-> 0, weeks |-> 0, years |-> 0, loads |-> 0, therms |-> 0, materials |-> 0, glasses |-> 1,
          frames |-> 1, wallcons |-> 0, wincons |-> 2, spaces |-> 0, walls |-> 1, windows |-> 2, tbs |-> 0]
MaxNq_ == [days |-> 0, weeks |-> 0, years |-> 0, loads |-> 0, therms |-> 0, materials |-> 0, glasses |-> 1,
          frames |-> 1, wallcons |-> 0, wincons |-> 2, spaces |-> 0, walls |-> 1, windows |-> 2, tbs |-> 0]
BadRefs_ == {Dangling}
WallBounds_ == {"EXTERIOR"}
WallTilts_ == {"SIDE"}
WallU_ == {5000}
OvU_ == {None}
SpaceInside_ == {TRUE}
SpaceKinds_ == {"C"}
SpaceMults_ == {100}
TbSigns_ == {-1, 0, 1}
=============================================================================
