--------------------------------- MODULE Solar ---------------------------------
(***************************************************************************)
(* C20. Calendar, sun direction and incidence on rational angles, radiation *)
(* identities, and the embedded climate tables.                             *)
(* A rational angle is <<c, s, h>>: cos = c / h, sin = s / h, c^2 + s^2 =   *)
(* h^2. Directions are in local horizontal coordinates (east, north, up);   *)
(* the hour angle is positive before solar noon (sun in the east), as in    *)
(* the implementation; the model's surface convention: tilt = angle of the  *)
(* outward normal with the vertical (0 up, 180 down), azimuth from south,   *)
(* east positive.                                                           *)
(***************************************************************************)
EXTENDS Integers, Sequences, FiniteSets, TLC

MonthLen == <<31, 28, 31, 30, 31, 30, 31, 31, 30, 31, 30, 31>>
RECURSIVE DaysBefore(_)
DaysBefore(m) == IF m = 1 THEN 0 ELSE MonthLen[m - 1] + DaysBefore(m - 1)
N(d, m) == DaysBefore(m) + d

IsAngle(a) == a[1] * a[1] + a[2] * a[2] = a[3] * a[3] /\ a[3] > 0
\* sun direction for declination d, hour angle w, latitude p : numerators over the common denominator
SunDen(d, w, p) == d[3] * w[3] * p[3]
SunEast(d, w, p)  == d[1] * w[2] * p[3]
SunNorth(d, w, p) == d[2] * p[1] * w[3] - d[1] * p[2] * w[1]
SunUp(d, w, p)    == d[2] * p[2] * w[3] + d[1] * p[1] * w[1]
\* outward normal of a surface of tilt t and azimuth a (model convention), over t[3] * a[3]
NormDen(t, a) == t[3] * a[3]
NormEast(t, a)  == a[2] * t[2]
NormNorth(t, a) == -(a[1] * t[2])
NormUp(t, a)    == t[1] * a[3]
\* cosine of the incidence angle: n . s over SunDen * NormDen
CosIncNum(d, w, p, t, a) == NormEast(t, a) * SunEast(d, w, p) + NormNorth(t, a) * SunNorth(d, w, p) + NormUp(t, a) * SunUp(d, w, p)
Abs(x) == IF x < 0 THEN -x ELSE x
\* |got / 10^4 - num / den| <= tol / 10^4
Near4(got, num, den, tol) == Abs(got * den - num * 10000) <= tol * den

\* design-level sanity on the family of angles used (TLC evaluates on the constant sets)
Family == { <<1, 0, 1>>, <<0, 1, 1>>, <<-1, 0, 1>>, <<0, -1, 1>>, <<4, 3, 5>>, <<3, 4, 5>>, <<-4, 3, 5>>, <<-3, 4, 5>>,
            <<4, -3, 5>>, <<3, -4, 5>>, <<12, 5, 13>>, <<5, 12, 13>>, <<12, -5, 13>>, <<5, -12, 13>>, <<-12, 5, 13>>, <<-5, 12, 13>> }
UnitSun == \A d \in {<<1, 0, 1>>, <<12, 5, 13>>, <<12, -5, 13>>} : \A w \in Family : \A p \in {<<1, 0, 1>>, <<4, 3, 5>>, <<3, 4, 5>>, <<12, 5, 13>>} :
              SunEast(d, w, p) * SunEast(d, w, p) + SunNorth(d, w, p) * SunNorth(d, w, p) + SunUp(d, w, p) * SunUp(d, w, p) = SunDen(d, w, p) * SunDen(d, w, p)
NoonIsSouth == \A d \in {<<1, 0, 1>>, <<12, 5, 13>>} : \A p \in {<<4, 3, 5>>, <<3, 4, 5>>} : SunEast(d, <<1, 0, 1>>, p) = 0
CalendarOk == N(31, 12) = 365 /\ N(1, 1) = 1 /\ N(1, 3) = 60 /\ \A m \in 1..11 : N(1, m + 1) = N(MonthLen[m], m) + 1
=============================================================================
