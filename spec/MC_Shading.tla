------------------------------ MODULE MC_Shading ------------------------------
(* Enumeration of exact scenes; each is printed with the expected number of    *)
(* sunlit sample points and replayed into Model::sunlit_fraction.              *)
EXTENDS Shading, Json
CONSTANT Deep
WinsQuick == { [x |-> 20, z |-> 20, w |-> 20, h |-> 30, sb |-> sb] : sb \in {0, 4} } \cup { [x |-> 10, z |-> 10, w |-> 40, h |-> 10, sb |-> sb] : sb \in {0, 3} }
DirsQuick == { <<0, -1, 0>>, <<0, -1, 1>>, <<1, -1, 1>>, <<-1, -1, 1>>, <<2, -1, 2>>, <<-3, -2, 1>>, <<1, -2, 3>>, <<0, -1, 3>> }
WinsDeep == { [x |-> p[1], z |-> p[2], w |-> sz[1], h |-> sz[2], sb |-> sb] :
                p \in {<<20, 20>>, <<10, 10>>}, sz \in {<<20, 30>>, <<40, 10>>, <<10, 20>>}, sb \in {0, 3, 4, 7} }
DirsDeep == DirsQuick \cup { <<3, -1, 1>>, <<-1, -3, 2>>, <<1, -1, 0>>, <<-2, -1, 0>>, <<0, -2, 1>>, <<1, -3, 5>>, <<-4, -1, 2>>, <<2, -3, 1>>,
                             <<-1, -1, 3>>, <<5, -2, 4>>, <<-2, -3, 3>>, <<1, -4, 1>> }
Wins == IF Deep THEN WinsDeep ELSE WinsQuick
Dirs == IF Deep THEN DirsDeep ELSE DirsQuick
Fronts == { [k |-> "front", dist |-> d, x0 |-> x0, x1 |-> x0 + wd, z0 |-> z0, z1 |-> z0 + 30] : d \in {6, 20}, x0 \in {0, 27, 45}, wd \in {13, 60}, z0 \in {0, 31} }
Fins == { [k |-> "fin", x |-> x, d |-> d, z0 |-> 0, z1 |-> 60] : x \in {17, 43}, d \in {6, 20} }
Overs == { [k |-> "over", z |-> z, d |-> d, x0 |-> 0, x1 |-> 80] : z \in {43, 47}, d \in {6, 20} }
AllBlockers == Fronts \cup Fins \cup Overs
VARIABLE sc
Init == \E win \in Wins, D \in Dirs :
          \/ sc = [win |-> win, D |-> D, blockers |-> <<>>]
          \/ \E b \in AllBlockers : sc = [win |-> win, D |-> D, blockers |-> <<b>>]
          \/ \E b1 \in Fronts, b2 \in Fins \cup Overs : sc = [win |-> win, D |-> D, blockers |-> <<b1, b2>>]
Next == UNCHANGED sc
Spec == Init /\ [][Next]_sc
InvMonotone == \A e \in Fins : Monotone(sc, e)
InvRevealEquiv == Grazes(sc) \/ \A P \in Samples(sc.win) : RevealBlocks(sc.win, P, sc.D, sc.win.sb) = LeavesOutsideOpening(sc.win, P, sc.D, sc.win.sb)
InvEmit == Grazes(sc) \/ PrintT(<<"CASE", ToJson([sc |-> sc, sunlit25 |-> Sunlit25(sc)])>>)
=============================================================================
