SPECIFICATION Spec
CONSTANT Deep = TRUE
INVARIANTS AnglesOk CCW Closure NormalsOutward SurfaceAxes TurnLaw AreaLaw VShadeAreas InvEmit
CHECK_DEADLOCK FALSE
