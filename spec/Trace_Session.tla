--------------------------- MODULE Trace_Session ---------------------------
(***************************************************************************)
(* Trace validation (implementation -> specification) for the life cycle   *)
(* of a model in one process: load, check, purge, compute indicators.      *)
(* Each line of the trace is one observation of the real code. The trace   *)
(* specification consumes every line (so the whole trace is examined, not  *)
(* only the prefix before the first problem) and evaluates, at each step,  *)
(* the named obligations of the properties in Focus against the operators  *)
(* of ModelGraph / Indicators for the current abstract model; an           *)
(* obligation that does not hold is printed as <<"FAIL", line, property,   *)
(* obligation>>. A trace is accepted iff every line was consumed and no    *)
(* FAIL was printed. Decides C08 C09 C10 C11 C14 C15 C16 on recorded       *)
(* executions.                                                             *)
(***************************************************************************)
EXTENDS Indicators, Json, IOUtils, TLC

Rec == ndJsonDeserialize(IOEnv.TRACE)
Focus == IF "FOCUS" \in DOMAIN IOEnv THEN IOEnv.FOCUS ELSE "ALL"

VARIABLES l,        \* next trace line
          m,        \* current abstract model
          lock,     \* "free" | "poisoned" : state of the process-wide climate tables
          Hz,       \* July irradiation table: zone -> orientation class -> 0.01 kWh/m2
          last      \* headline indicators of the last Compute (for "purge changes no indicator")
vars == <<l, m, lock, Hz, last>>

\* obligation `name` of property `prop`: always TRUE, reports when cond is false
\* (IF, not a disjunction: TLC would explore the disjuncts of an action-level disjunction separately)
Chk(prop, name, cond) == IF Focus # "ALL" /\ Focus # prop THEN TRUE
                         ELSE IF cond THEN TRUE ELSE PrintT(<<"FAIL", l, prop, name>>)

Collections == {"spaces", "walls", "windows", "tbs", "wallcons", "wincons", "materials", "glasses",
                "frames", "loads", "therms", "years", "weeks", "days"}
IdSeq(s) == [i \in DOMAIN s |-> s[i].id]
SameIds(a, b) == \A c \in Collections : IdSeq(a[c]) = IdSeq(b[c])

Ev == Rec[l]
IsEvent(e) == l <= Len(Rec) /\ Rec[l].ev = e /\ l' = l + 1

\* ---- classes of tilt and azimuth by the specification's own tables ----
\* The recorder logs, per wall, the class the code assigns (tilt, orient) and the angle itself (tx, ax: floor and
\* fraction in 2^-23). The model the obligations speak about carries the classes of Classifiers.tla; an angle outside
\* [0, 360) that lies within 2^-13 degrees of a class boundary is left with the code's class (the code normalises in
\* f32 and may round across the boundary there; same tolerance as the exhaustive sweep of C11).
Cl == INSTANCE Classifiers
Eps13 == 1024
Shifted(a, d) == LET t == a[2] + d IN
                 IF t < 0 THEN <<a[1] - 1, t + 8388608>> ELSE IF t >= 8388608 THEN <<a[1] + 1, t - 8388608>> ELSE <<a[1], t>>
SafeAngle(a, bounds) == (0 <= a[1] /\ a[1] < 360) \/ Cl!ConstantOn(bounds, Shifted(a, -Eps13), Shifted(a, Eps13))
ClassedWall(w) ==
  IF "angok" \notin DOMAIN w \/ ~w.angok THEN w
  ELSE LET t == <<w.tx[1], w.tx[2]>>  a == <<w.ax[1], w.ax[2]>> IN
       [w EXCEPT !.tilt = IF SafeAngle(t, Cl!TiltBounds) THEN Cl!TiltClass(t) ELSE @,
                 !.orient = IF SafeAngle(a, Cl!OrientBounds) THEN Cl!OrientClass(a) ELSE @]
Classed(x) == [x EXCEPT !.walls = [i \in DOMAIN @ |-> ClassedWall(@[i])]]

TraceInit == l = 1 /\ m = EmptyModel /\ lock = "free" /\ Hz = <<>> /\ last = <<>>

\* the July table itself cannot be recomputed here (the zones other than D3 have no weather file in the repository), but it
\* must be physically coherent: a climate with sunnier mornings than afternoons (or the reverse) shows it with the same sign
\* in the three mirror pairs E/W, SE/SW, NE/NW. Differences below 1 kWh/m2 are not judged.
SignOf(v) == IF v > 0 THEN 1 ELSE IF v < 0 THEN -1 ELSE 0
PairsCoherent(h) ==
  LET d1 == h.E - h.W  d2 == h.SE - h.SW  d3 == h.NE - h.NW IN
  (Abs(d1) >= 100 /\ Abs(d2) >= 100 /\ Abs(d3) >= 100) => (SignOf(d1) = SignOf(d2) /\ SignOf(d2) = SignOf(d3))
TraceTables == /\ IsEvent("Tables") /\ Hz' = Ev.H /\ UNCHANGED <<m, lock, last>>
               /\ Chk("C10", "EastWestAsymmetryOfTheJulyTableIsCoherent", \A z \in DOMAIN Ev.H : PairsCoherent(Ev.H[z]))

\* a model is loaded from JSON (or built by the concretiser); nothing to check
TraceLoad == IsEvent("Load") /\ m' = Classed(Ev.model) /\ last' = <<>> /\ UNCHANGED <<lock, Hz>>

\* C15: exactly the broken links, one warning each; the model is not modified
TraceCheck == /\ IsEvent("Check")
              /\ Chk("C15", "CheckTotal", Ev.outcome = "ok")
              /\ Chk("C15", "ExactlyBrokenLinks", SameBag(Ev.warn, CheckSpec(m)))
              /\ Chk("C15", "ClosedModelNoWarnings", LinksClosed(m) /\ (\A i \in DOMAIN m.tbs : m.tbs[i].lsign >= 0) => Ev.warn = <<>>)
              /\ Chk("C15", "ModelNotModified", Ev.unchanged)
              /\ UNCHANGED <<m, lock, Hz, last>>

\* C16: exactly the unreachable items go, order kept; idempotent; no new broken link
TracePurge == /\ IsEvent("Purge")
              /\ Chk("C16", "PurgeTotal", Ev.outcome = "ok")
              /\ Ev.outcome = "ok" =>
                   /\ Chk("C16", "ExactlyUnreachableRemovedOrderKept", SameIds(Ev.after, PurgeSpec(m)))
                   /\ Chk("C16", "Counts", Ev.counts = PurgeCounts(m))
                   /\ Chk("C16", "Idempotent", Ev.twice_same)
                   /\ Chk("C16", "NoNewBrokenLink", SameBag(CheckSpec(Ev.after), CheckSpec(m)))
              /\ m' = PurgeSpec(m)
              /\ UNCHANGED <<lock, Hz, last>>

Headline(e) == <<e.glob.aref, e.glob.vgross, e.glob.vnet, e.k.K, e.k.Kneg, e.n50.n50, e.n50.n50ref, e.q.q, e.q.Q>>
Sane(x) == LinksClosed(x) /\ AllUnique(x)

\* C14 + C08..C11: the computation is total, and what it reports is what the definitions give
TraceComputeOk ==
  LET x == Classed(Ev.model)  num == Ev.numeric /\ AllUnique(Ev.model) IN
  /\ Chk("C15", "IndicatorWarningsAreTheCheckers", SameBag(Ev.warn, CheckSpec(m)))
  /\ Chk("C11", "Props",   num => PropsOk(x, Ev.props))
  /\ Chk("C11", "Globals", num => GlobalsOk(x, Ev.props, Ev.glob))
  /\ Chk("C11", "VentilationRateUsed", (num /\ ~Ev.glob.gvrbad) => GvrOk(x, Ev.props, Ev.glob.gvrmodel))
  \* one ventilation rate: the figure reported with the indicators is the one the U-value code uses
  \* (when the habitable volume is zero both are non-finite: the quotient is meaningless, not constrained)
  /\ Chk("C11", "VentilationRateReportedIsTheOneUsed",
           num => /\ Ev.glob.gvrfin = Ev.glob.gvrmodelfin
                  /\ (Ev.glob.gvrfin /\ ~Ev.glob.gvrbad) =>
                        Abs(Ev.glob.gvr - Ev.glob.gvrmodel) <= 2 + Ev.glob.gvrmodel \div 5000)
  \* on a closed model with positive sizes, physical data and a thermal envelope (all decided from the model, nothing the
  \* code reported) every figure is a number: the obligations below are never escaped by reporting NaN or infinity
  /\ LET sized == "sane_in" \in DOMAIN Ev /\ Ev.sane_in /\ Sane(x) /\ ARefBig(x, Ev.props) # BigZero /\ VolNetBig(x, Ev.props) # BigZero IN
     /\ Chk("C08", "ReportedFiguresAreNumbers", sized => (Ev.badk = 0 /\ Ev.badother = 0))
     /\ Chk("C09", "ReportedFiguresAreNumbers", sized => (Ev.badn50 = 0 /\ Ev.badother = 0))
     /\ Chk("C10", "ReportedFiguresAreNumbers", sized => (Ev.badq = 0 /\ Ev.badother = 0 /\ Ev.q.nonfinite = <<>>))
     /\ Chk("C11", "ReportedFiguresAreNumbers", sized => Ev.badother = 0)
  /\ Chk("C08", "K",    num => KOk(x, Ev.props, Ev.k))
  /\ Chk("C09", "N50",  num => N50Ok(x, Ev.props, Ev.glob, Ev.n50))
  /\ Chk("C10", "QSol", num => QSolOk(x, Ev.props, Ev.glob, Hz[x.meta.zone], Ev.q))
  /\ Chk("C10", "FiniteWithoutWindows", (num /\ QWins(x) = {}) => Ev.q.nonfinite = <<>>)
  /\ Chk("C14", "FiniteOnSaneModels", (Ev.sane /\ Sane(x)) => Ev.nonfinite = <<>>)
  /\ Chk("C14", "ResultRoundtripsOnSaneModels", (Ev.sane /\ Sane(x)) => Ev.roundtrips)
  \* metamorphic consequences stated by the properties: reordering and renaming change nothing; doubling every length
  \* multiplies areas by 4, volumes by 8 and compactness by 2 (units: K, n50, compactness, q 1e-4; areas, volumes 1e-2)
  /\ Chk("C08", IF SeveralCeilings(x) THEN "KUnchangedByReorderSeveralCeilings"
                ELSE IF SeveralSlabs(x) THEN "KUnchangedByReorderSeveralSlabs" ELSE "KUnchangedByReorderAndRename",
         ("head" \in DOMAIN Ev /\ Ev.head.ok /\ Ev.sane /\ Sane(x)) =>
            (Ev.reordered.ok /\ Abs(Ev.reordered.K - Ev.head.K) <= 2 /\ Abs(Ev.reordered.n50 - Ev.head.n50) <= 2 + Ev.head.n50 \div 10000
             /\ Abs(Ev.reordered.aref - Ev.head.aref) <= 1 + Ev.head.aref \div 10000 /\ Abs(Ev.reordered.q - Ev.head.q) <= 2 + Ev.head.q \div 10000))
  /\ Chk("C11", "ScalingLengthsScalesAreasVolumesCompactness",
         ("head" \in DOMAIN Ev /\ Ev.head.ok /\ Ev.sane /\ Ev.scaled.ok /\ Ev.head.vgross < 100000000 /\ Ev.head.aref < 100000000 /\ Ev.head.vnet < 100000000 /\ Ev.head.compact < 100000000) =>
            (/\ Abs(Ev.scaled.aref - 4 * Ev.head.aref) <= 4 + Ev.head.aref \div 2000
             /\ Abs(Ev.scaled.vgross - 8 * Ev.head.vgross) <= 8 + Ev.head.vgross \div 1000
             /\ Abs(Ev.scaled.vnet - 8 * Ev.head.vnet) <= 8 + Ev.head.vnet \div 1000 + (4 * Ev.head.aref) \div 10
             \* (compactness is formed with the volume rounded to 0.01 m3: half a unit of it, relative to the volume, is part of the tolerance)
             /\ Abs(Ev.scaled.compact - 2 * Ev.head.compact) <= 4 + Ev.head.compact \div 1000 + (2 * Ev.head.compact) \div (IF Ev.head.vgross > 0 THEN Ev.head.vgross ELSE 1)))
  /\ Chk("C16", "PurgeChangesNoIndicator", (Ev.same_as_last /\ last # <<>>) => Headline(Ev) = last)
  /\ last' = Headline(Ev)

TraceCompute ==
  /\ IsEvent("Compute")
  /\ Chk("C14", "Total", Ev.outcome = "ok")                    \* no panic, no hang
  /\ IF Ev.outcome = "ok" THEN TraceComputeOk ELSE last' = <<>>
  \* a failure must not affect later computations: after every failure the recorder computes a
  \* known-good model in the same process and logs whether that worked
  /\ lock' = IF Ev.outcome # "ok" /\ "probe_ok" \in DOMAIN Ev /\ ~Ev.probe_ok THEN "poisoned" ELSE lock
  /\ Chk("C14", "FailureDoesNotAffectLaterComputations", lock' = "free")
  /\ m' = IF Ev.outcome = "ok" THEN Classed(Ev.model) ELSE m
  /\ UNCHANGED Hz

\* the same obligations on a model reached by structural edits of a JSON tree (only the reference graph and
\* the outcome are recorded): total, harmless to later computations, finite when closed and sane
TraceComputeLite ==
  /\ IsEvent("ComputeLite")
  /\ Chk("C14", "Total", Ev.outcome = "ok")
  /\ lock' = IF Ev.outcome # "ok" /\ "probe_ok" \in DOMAIN Ev /\ ~Ev.probe_ok THEN "poisoned" ELSE lock
  /\ Chk("C14", "FailureDoesNotAffectLaterComputations", lock' = "free")
  /\ Chk("C14", "FiniteOnSaneModels", (Ev.outcome = "ok" /\ Ev.sane /\ Sane(Ev.graph)) => Ev.nonfinite = <<>>)
  /\ Chk("C14", "ResultRoundtripsOnSaneModels", (Ev.outcome = "ok" /\ Ev.sane /\ Sane(Ev.graph)) => Ev.roundtrips)
  /\ UNCHANGED <<m, Hz, last>>

\* the recorder continues in a fresh process after a failure that damaged the old one
TraceRestart == IsEvent("Restart") /\ lock' = "free" /\ UNCHANGED <<m, Hz, last>>

TraceNext == TraceTables \/ TraceLoad \/ TraceCheck \/ TracePurge \/ TraceCompute \/ TraceComputeLite \/ TraceRestart
TraceSpec == TraceInit /\ [][TraceNext]_vars

Accepted ==
  \/ TLCGet("stats").diameter - 1 = Len(Rec)
  \/ Print(<<"UNMATCHED", TLCGet("stats").diameter>>, FALSE)
=============================================================================
