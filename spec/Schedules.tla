------------------------------ MODULE Schedules ------------------------------
(***************************************************************************)
(* C17. Yearly / weekly / daily schedules.                                 *)
(*                                                                         *)
(* A yearly schedule is a sequence of periods <<week id, count in days>>,  *)
(* a weekly schedule a sequence of runs <<day id, count>>, a daily         *)
(* schedule 24 values. The year starts on a Monday.                        *)
(*                                                                         *)
(* Declarative meaning (the property):                                     *)
(*   day k (1-based) of the expansion of year y is the weekday slot        *)
(*   ((k-1) mod 7) + 1 of the weekly schedule of the period k falls in.    *)
(* Operational meaning (how the implementation walks the year): a machine  *)
(*   with a period index, the days left in the period and the weekday      *)
(*   phase, emitting one day per NextDay step. TLC checks that the machine *)
(*   emits exactly the declarative expansion for every small year.         *)
(* HULC side: periods are given by end dates; N(d, m) is the day of the    *)
(* year in a non-leap year.                                                *)
(***************************************************************************)
EXTENDS Integers, Sequences, FiniteSets, SequencesExt

\* ---- declarative expansion ------------------------------------------------
\* flat week: a run <<d, c>> contributes c copies of d
Flat(runs) == FoldLeft(LAMBDA acc, r : acc \o [i \in 1..r[2] |-> r[1]], <<>>, runs)
Total(periods) == FoldLeft(LAMBDA acc, p : acc + p[2], 0, periods)
\* index of the period day k falls in
RECURSIVE PeriodOf(_, _, _)
PeriodOf(periods, k, i) == IF k <= periods[i][2] THEN i ELSE PeriodOf(periods, k - periods[i][2], i + 1)
\* weeks: function week id -> runs  (ids not in DOMAIN weeks are missing weekly schedules)
WeekDays(weeks, w) == IF w \in DOMAIN weeks THEN Flat(weeks[w]) ELSE <<>>
\* the day id of day k; 0 when the weekly schedule is missing / has no slot
DayAt(periods, weeks, k) ==
  LET w == WeekDays(weeks, periods[PeriodOf(periods, k, 1)][1]) IN
  IF Len(w) = 7 THEN w[((k - 1) % 7) + 1] ELSE 0
Expand(periods, weeks) == [k \in 1..Total(periods) |-> DayAt(periods, weeks, k)]
WellFormed(periods, weeks) == \A i \in DOMAIN periods :
                                 periods[i][1] \in DOMAIN weeks /\ Len(Flat(weeks[periods[i][1]])) = 7

\* ---- calendar --------------------------------------------------------------
MonthLen == <<31, 28, 31, 30, 31, 30, 31, 31, 30, 31, 30, 31>>
ValidDate(d, m) == m \in 1..12 /\ d \in 1..MonthLen[m]
N(d, m) == FoldLeft(LAMBDA acc, i : acc + MonthLen[i], 0, [i \in 1..(m - 1) |-> i]) + d
\* the closed formula the converter uses (integer division = floor for non-negative operands)
NFormula(d, m) == ((275 * m) \div 9) - 2 * ((m + 9) \div 12) + d - 30
\* end dates -> period lengths
RECURSIVE Diffs(_, _)
Diffs(ends, prev) == IF ends = <<>> THEN <<>> ELSE <<Head(ends) - prev>> \o Diffs(Tail(ends), Head(ends))
PeriodsOfDates(dates) == Diffs([i \in DOMAIN dates |-> N(dates[i][1], dates[i][2])], 0)
Increasing(dates) == \A i \in 1..(Len(dates) - 1) : N(dates[i][1], dates[i][2]) < N(dates[i + 1][1], dates[i + 1][2])
\* run-length encoding of the 7 names of a HULC weekly schedule
RECURSIVE RLE(_)
RLE(s) == IF s = <<>> THEN <<>>
          ELSE LET r == RLE(Tail(s)) IN
               IF r # <<>> /\ r[1][1] = Head(s) THEN << <<Head(s), r[1][2] + 1>> >> \o Tail(r)
               ELSE << <<Head(s), 1>> >> \o r

\* ---- occupancy --------------------------------------------------------------
\* spaces: sequence of [occ: BOOLEAN (habitable, inside, has loads), year: expanded day ids or <<>>]
\* nz: day id -> set of hours (1..24) with non-zero occupancy
HoursInUse(expansions, nz) ==
  LET len == IF expansions = <<>> THEN 0 ELSE Len(expansions[1]) IN
  FoldLeft(LAMBDA acc, k : acc + Cardinality(UNION { IF k <= Len(expansions[i]) /\ expansions[i][k] \in DOMAIN nz
                                                     THEN nz[expansions[i][k]] ELSE {} : i \in DOMAIN expansions }),
           0, [k \in 1..len |-> k])
=============================================================================
