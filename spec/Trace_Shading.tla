----------------------------- MODULE Trace_Shading -----------------------------
(* Trace validation for C12 against Shading.tla: exact scenes (Scene), the       *)
(* aggregation on real and generated models (Fsh), monotonicity (Mono).          *)
EXTENDS Shading, Json, IOUtils
Rec == ndJsonDeserialize(IOEnv.TRACE)
VARIABLE l
Ev == Rec[l]
IsEvent(e) == l <= Len(Rec) /\ Rec[l].ev = e /\ l' = l + 1
Chk(name, cond) == IF cond THEN TRUE ELSE PrintT(<<"FAIL", l, "C12", name>>)
SceneOf(e) == [win |-> e.win, D |-> <<e.D[1], e.D[2], e.D[3]>>, blockers |-> e.blockers]
TScene == /\ IsEvent("Scene")
          /\ Chk("NoPanic", Ev.ok)
          \* (a set-back window on a wall whose outline is not listed from the wall's own origin: the reveal surfaces are placed
          \*  from the wall origin while the sample points follow the outline; recorded as a known finding under its own name)
          /\ Chk(IF "shift" \in DOMAIN Ev /\ Ev.shift /\ Ev.sc.win.sb > 0 THEN "RevealsFollowTheWindowOnShiftedOutline"
                 ELSE "SunlitFractionIsShareOfUnblockedSamplePoints",
                 Ev.ok => (Ev.exact /\ Ev.nrays > 0 /\ Ev.got25 = Sunlit25(SceneOf(Ev.sc))))
All(seq, P(_)) == \A h \in DOMAIN seq : P(seq[h])
TFsh == /\ IsEvent("Fsh")
        /\ Chk("NoPanic", Ev.panic = "")
        /\ Chk("FactorWithinZeroOne", (Ev.haswall /\ Ev.panic = "") => Bounded(Ev.value))
        /\ Chk("FactorIsMeanOverJulyHours",
               (Ev.haswall /\ Ev.panic = "" /\ Ev.n > 0) => (Defined(Ev.dir, Ev.dif) /\ Fractions(Ev.sl) /\ Ev.value > -9999 /\ Ev.value <= 10000 /\ MeanOk(Ev.value, Ev.sl, Ev.dir, Ev.dif)))
        /\ Chk("SunBehindMeansNoBeam", (Ev.positioned /\ Ev.n > 0) => \A h \in 1..Ev.n : Behind(Ev.nd[h]) => Ev.sl[h] = 0)
        /\ Chk("NoPositionMeansFullySunlit", (Ev.haswall /\ ~Ev.positioned /\ Ev.n > 0) => (Ev.value = 100 /\ \A h \in 1..Ev.n : Ev.sl[h] = 1000))
        /\ Chk("PropsReportTheComputedFactor", Ev.props >= -1 => Ev.props = Ev.value)
        /\ Chk("NothingCanHideMeansAtLeast097",
               Ev.expect = "free" => (Ev.value >= 97 /\ \A h \in 1..Ev.n : InFront(Ev.nd[h]) => Ev.sl[h] = 1000))
        /\ Chk("HiddenAtEveryHourMeansDiffuseShare",
               Ev.expect = "hidden" => (Ev.n > 0 /\ (\A h \in 1..Ev.n : Ev.sl[h] = 0)
                                        /\ Defined(Ev.dir, Ev.dif) /\ Ev.value > -9999 /\ Ev.value <= 10000 /\ MeanOk(Ev.value, [h \in 1..Ev.n |-> 0], Ev.dir, Ev.dif)))
        /\ Chk("ExpectedNoPosition", Ev.expect = "nopos" => ~Ev.positioned)
TMono == /\ IsEvent("Mono")
         /\ Chk("NoPanic", Ev.ok)
         /\ Chk("AddingAnObstacleNeverIncreasesAnyFactor", Ev.ok => \A i \in 1..Ev.n : Ev.after[i] <= Ev.before[i])
TraceSpec == l = 1 /\ [][TScene \/ TFsh \/ TMono]_l
Accepted == \/ TLCGet("stats").diameter - 1 = Len(Rec)
            \/ Print(<<"UNMATCHED", TLCGet("stats").diameter>>, FALSE)
=============================================================================
