-------------------------------- MODULE UValue --------------------------------
(***************************************************************************)
(* C06 / C07. Thermal transmittance of opaque elements (EN ISO 6946, 13370, *)
(* 13789) and of window constructions, as a case analysis. TLA+ has no      *)
(* reals, so the specification decides every case split exactly (which      *)
(* formula, which surface resistance, which elements of the neighbouring    *)
(* space take part, which ventilation rate, which branch of the ground      *)
(* formulas) and emits the *defining expression* as a term; terms are       *)
(* evaluated exactly (rationals) or in floating point (ln, pi) by a small   *)
(* evaluator outside TLC. A case is a record:                               *)
(*   bounds, tilt, stack (index into Stacks), this, next, vent, depth (cm), *)
(*   perim (BOOLEAN)                                                        *)
(* placed in a fixed reference building (the verifier builds the same one): *)
(*   spaces S1 (this) and S2 (next) of 4 m x 3 m, storey 3 m; every space   *)
(*   has an exterior wall of 9 m2 and, unless the element under test is its *)
(*   floor, an exterior floor of 12 m2, both of construction REF (0.2 m of  *)
(*   conductivity 0.5); ground cases: south and north walls in contact with *)
(*   the ground (12 m2 each), east exterior, west adiabatic (9 m2 each), a  *)
(*   ground slab and a roof of construction REF.                            *)
(***************************************************************************)
EXTENDS Integers, Sequences, FiniteSets, TLC

\* ---- terms -----------------------------------------------------------------
Qt(n, d) == [op |-> "q", n |-> n, d |-> d]
T1(op, a) == [op |-> op, a |-> a]
T2(op, a, b) == [op |-> op, a |-> a, b |-> b]
Add(a, b) == T2("add", a, b)
Sub(a, b) == T2("sub", a, b)
Mul(a, b) == T2("mul", a, b)
Div(a, b) == T2("div", a, b)
Ln(a) == T1("ln", a)
MinT(a, b) == T2("min", a, b)
Pi == [op |-> "pi"]
One == Qt(1, 1)
RECURSIVE SumT(_)
SumT(s) == IF s = <<>> THEN Qt(0, 1) ELSE IF Len(s) = 1 THEN s[1] ELSE Add(s[1], SumT(Tail(s)))

\* ---- constants of the standards ---------------------------------------------
RsiUp == Qt(10, 100)        \* upward flow
RsiHor == Qt(13, 100)
RsiDown == Qt(17, 100)
Rse == Qt(4, 100)
RsiOf(tilt) == CASE tilt = "TOP" -> RsiUp [] tilt = "SIDE" -> RsiHor [] tilt = "BOTTOM" -> RsiDown
LambdaGnd == Qt(2, 1)
LambdaIns == Qt(35, 1000)

\* ---- layer stacks -----------------------------------------------------------
\* a layer: [t |-> "D", e (mm), lam (1/1000 W/mK)] | [t |-> "R", r (1/10000 m2K/W)] | [t |-> "missing"] | [t |-> "zero", e]
CONSTANT Stacks
Resolves(s) == \A i \in DOMAIN s : s[i].t \in {"D", "R"}
RLayer(l) == IF l.t = "D" THEN Div(Qt(l.e, 1000), Qt(l.lam, 1000)) ELSE Qt(l.r, 10000)
RStack(s) == SumT([i \in DOMAIN s |-> RLayer(s[i])])
ThickMM(s) == LET f[i \in 0..Len(s)] == IF i = 0 THEN 0 ELSE f[i - 1] + (IF s[i].t \in {"D", "zero"} THEN s[i].e ELSE IF s[i].t = "R" THEN s[i].e ELSE 0) IN f[Len(s)]
RefStack == << [t |-> "D", e |-> 200, lam |-> 500] >>                     \* construction REF: R = 0.4
RRef == RStack(RefStack)

\* ---- air contact --------------------------------------------------------------
UExt(R, tilt) == Div(One, Add(Add(R, RsiOf(tilt)), Rse))

\* ---- the reference building ---------------------------------------------------
AreaP == Qt(12, 1)            \* the element under test (partition, slab or wall of 4 x 3)
AreaE == Qt(9, 1)             \* exterior wall of this space (3 x 3); the neighbour's is 3.5 x 3, so that nothing
AreaE2 == Qt(105, 10)         \* computed from the wrong space's elements goes unnoticed
Height == Qt(25, 10)          \* storey height 2.5 m (so that no side wall has the area and perimeter of the 4 x 3 slab)
\* net height of a space whose ceiling is the element under test: storey - thickness of the element
HNet(c, whichSpace) ==
  LET covered == (whichSpace = "this" /\ c.tilt = "TOP") \/ (whichSpace = "next" /\ c.tilt = "BOTTOM") IN
  IF c.bounds = "INTERIOR" /\ c.next \notin {"none", "dangling"} /\ covered
  THEN Sub(Height, Qt(ThickMM(Stacks[c.stack]), 1000)) ELSE Height
\* has the space its own exterior floor? (not when the element under test is its floor)
HasFloor(c, whichSpace) == ~(whichSpace = "this" /\ c.tilt = "BOTTOM")
\* A.U of the exterior elements of a space of the reference building
\* (glazed cases: the exterior wall of each space carries a window with U = 3, of 2 m2 in this space and 1.5 m2 in the neighbour: the wall counts with its net area)
AreaW == Qt(2, 1)
AreaW2 == Qt(15, 10)
UWinRef == Qt(3, 1)
UAe(c, whichSpace) == LET ae == IF whichSpace = "this" THEN AreaE ELSE AreaE2
                          aw == IF whichSpace = "this" THEN AreaW ELSE AreaW2 IN
                      Add(IF c.glazed THEN Add(Mul(Sub(ae, aw), UExt(RRef, "SIDE")), Mul(aw, UWinRef))
                                      ELSE Mul(ae, UExt(RRef, "SIDE")),
                          IF HasFloor(c, whichSpace) THEN Mul(AreaP, UExt(RRef, "BOTTOM")) ELSE Qt(0, 1))
Vol(c, whichSpace) == Mul(AreaP, HNet(c, whichSpace))
Habitable(k) == k \in {"C", "U"}
\* ventilation rate of the unconditioned space: its own (0.5 1/h), the building's 3.6 q / V (q = 40 l/s), or none
VolHab(c) == Add(IF Habitable(c.this) THEN Vol(c, "this") ELSE Qt(0, 1),
                 IF c.next \in {"C", "U"} THEN Vol(c, "next") ELSE Qt(0, 1))
Nv(c) == CASE c.vent = "own" -> Qt(5, 10)
           [] c.vent = "global" -> Div(Mul(Qt(36, 10), Qt(40, 1)), VolHab(c))
           [] OTHER -> Qt(0, 1)

\* ---- partitions -----------------------------------------------------------------
Cond(k) == k = "C"
\* surface resistance pair for a partition between differently conditioned spaces
RsiFlow(c) == LET tc == Cond(c.this)  nc == Cond(c.next) IN
  CASE (tc /\ ~nc /\ c.tilt = "BOTTOM") \/ (~tc /\ nc /\ c.tilt = "TOP") -> RsiDown
    [] (tc /\ ~nc /\ c.tilt = "TOP") \/ (~tc /\ nc /\ c.tilt = "BOTTOM") -> RsiUp
    [] OTHER -> RsiHor
\* the specification's verdict for a case: what the reported U-value must be
\*   [k |-> "none"]                    no U-value
\*   [k |-> "exact", t |-> term]       equals the term (to two decimals, plus rounding of intermediates)
\*   [k |-> "between", lo, hi]         the statement fixes no flow direction: any of the surface resistances
\*   [k |-> "free"]                    not constrained by the statement
Verdict(c) ==
  LET s == Stacks[c.stack]  R == RStack(s) IN
  IF ~Resolves(s) THEN [k |-> "none"]
  ELSE CASE c.bounds \in {"EXTERIOR", "ADIABATIC"} -> [k |-> "exact", t |-> UExt(R, c.tilt)]
    [] c.bounds = "INTERIOR" ->
         IF c.next = "dangling" THEN [k |-> "free"]
         ELSE IF c.next = "none" \/ Cond(c.this) = Cond(c.next)
              THEN IF c.tilt = "SIDE"            \* through a vertical element the flow is horizontal, whatever lies behind it
                   THEN [k |-> "exact", t |-> Div(One, Add(R, Mul(Qt(2, 1), RsiHor)))]
                   ELSE [k |-> "between", lo |-> Div(One, Add(R, Qt(34, 100))), hi |-> Div(One, Add(R, Qt(20, 100)))]
              ELSE LET unc == IF Cond(c.this) THEN "next" ELSE "this"
                       Rf == Add(R, Mul(Qt(2, 1), RsiFlow(c)))
                       Hue == Add(UAe(c, unc), Mul(Qt(33, 100), Mul(Nv(c), Vol(c, unc))))
                   IN [k |-> "exact", t |-> Div(One, Add(Rf, Div(AreaP, Hue)))]
    [] c.bounds = "GROUND" ->
         LET z == Qt(IF c.depth < 0 THEN 0 ELSE c.depth, 100)     \* (a floor above the ground level is not buried)
             Uw == UExt(R, c.tilt)
             \* slab of construction REF in the wall and roof cases, the stack under test in the slab case
             Rslab == IF c.tilt = "BOTTOM" THEN R ELSE RRef
             dt == Add(Qt(3, 10), Mul(LambdaGnd, Add(Add(RsiDown, Rslab), Rse)))
             \* exposed perimeter: the floor perimeter 14 times the exposed share of the 35 m2 of side walls: south and north
             \* (ground, 20) and east (outside air, 7.5) always; west (7.5) when it separates this conditioned space from a
             \* space that is not conditioned (an adiabatic side, or a partition seen from a non-conditioned space, is not exposed)
             \* 14 * 27.5 / 35 = 11 or 14 * 35 / 35 = 14 ; B' = 12 / (P / 2)
             P == IF c.next # "none" /\ Cond(c.this) /\ ~Cond(c.next) THEN Qt(14, 1) ELSE Qt(11, 1)
             B == Div(AreaP, Div(P, Qt(2, 1)))
             dprime == IF c.perim THEN Mul(Qt(15, 10), Sub(LambdaGnd, LambdaIns)) ELSE Qt(0, 1)
             D == IF c.perim THEN Qt(1, 1) ELSE Qt(0, 1)
             dpsi == Mul(Div(Mul(Qt(-1, 1), LambdaGnd), Pi),
                         Sub(Ln(Add(Div(D, dt), One)), Ln(Add(Div(D, Add(dt, dprime)), One))))
             blim == Add(dt, Div(z, Qt(2, 1)))
         IN CASE c.tilt = "TOP" -> [k |-> "exact", t |-> Uw]
              [] c.tilt = "BOTTOM" ->
                   [k |-> "exact",
                    t |-> Add(T2("iflt", <<blim, B>>,
                                 << Mul(Div(Mul(Qt(2, 1), LambdaGnd), Add(Mul(Pi, B), blim)), Ln(Add(Div(Mul(Pi, B), blim), One))),
                                    Div(LambdaGnd, Add(Mul(Qt(457, 1000), B), blim)) >>),
                              Div(Mul(Qt(2, 1), dpsi), B))]
              [] c.tilt = "SIDE" ->
                   IF c.depth <= 0 THEN [k |-> "exact", t |-> Uw]
                   ELSE LET dw == Div(LambdaGnd, Uw)
                            dtm == MinT(dt, dw)
                            Ubw == Mul(Mul(Div(Mul(Qt(2, 1), LambdaGnd), Mul(Pi, z)),
                                           Add(One, Div(Mul(Qt(1, 2), dtm), Add(dtm, z)))),
                                       Ln(Add(Div(z, dw), One)))
                            \* net height of the space: storey minus the roof REF (0.2 m)
                            hn == Sub(Height, Qt(2, 10))
                        IN [k |-> "exact",
                            t |-> T2("iflt", <<z, hn>>,
                                     << Div(Add(Mul(z, Ubw), Mul(Sub(hn, z), Uw)), hn), Ubw >>)]

\* ---- window constructions (C07) ----------------------------------------------------
\* w = [ff (1/100), du (%), ug, uf (1/100 W/m2K), g (1/100), gsh (1/100 or -1), glass, frame \in {"ok","nil","dangling"}]
WinVerdict(w) ==
  IF w.glass # "ok" \/ w.frame # "ok" THEN [k |-> "none"]
  ELSE [k |-> "exact",
        t |-> Mul(Add(One, Qt(w.du, 100)),
                  Add(Mul(Qt(w.ff, 100), Qt(w.uf, 100)), Mul(Sub(One, Qt(w.ff, 100)), Qt(w.ug, 100))))]
GglwiVerdict(w) == IF w.glass # "ok" THEN [k |-> "none"] ELSE [k |-> "exact", t |-> Mul(Qt(90, 100), Qt(w.g, 100))]
GglshwiVerdict(w) == IF w.gsh >= 0 THEN [k |-> "exact", t |-> Qt(w.gsh, 100)] ELSE GglwiVerdict(w)
\* consequence of the definition, checked by TLC on every enumerated construction:
\* min(Ug, Uf)(1 + dU/100) <= U <= max(Ug, Uf)(1 + dU/100), in integers (units 10^-6)
WinUx1e6(w) == (100 + w.du) * (w.ff * w.uf + (100 - w.ff) * w.ug)
WinBounded(w) == LET lo == IF w.ug <= w.uf THEN w.ug ELSE w.uf
                     hi == IF w.ug >= w.uf THEN w.ug ELSE w.uf
                 IN (100 + w.du) * lo * 100 <= WinUx1e6(w) /\ WinUx1e6(w) <= (100 + w.du) * hi * 100
=============================================================================
