----------------------------- MODULE Trace_Locks -----------------------------
(***************************************************************************)
(* Trace validation for C05: the lock events emitted by hooks H2 (ordered  *)
(* by their global sequence number), the digests of every conversion and   *)
(* indicator computation across repetitions / processes / threads / call   *)
(* orders, the id maps before and after adding unrelated definitions, and  *)
(* the shipped (project, reference model) pairs.                           *)
(***************************************************************************)
EXTENDS Integers, Sequences, FiniteSets, Json, IOUtils, TLC

Rec == ndJsonDeserialize(IOEnv.TRACE)
VARIABLES l,
          tpc,      \* thread -> position in the lock program of one Compute
          holder,   \* who holds JULY ("none" or a thread)
          seen,     \* <<kind, input>> -> digest
          ids       \* input -> (name -> id) of the unmodified project
vars == <<l, tpc, holder, seen, ids>>
Ev == Rec[l]
IsEvent(e) == l <= Len(Rec) /\ Rec[l].ev = e /\ l' = l + 1
Chk(name, cond) == IF cond THEN TRUE ELSE PrintT(<<"FAIL", l, "C05", name>>)

TraceInit == l = 1 /\ tpc = <<>> /\ holder = "none" /\ seen = <<>> /\ ids = <<>>

Get(f, k, d) == IF k \in DOMAIN f THEN f[k] ELSE d
Put(f, k, v) == [x \in (DOMAIN f) \cup {k} |-> IF x = k THEN v ELSE f[x]]

\* the program of one Compute as a sequence of (event, lock) pairs
Program == << <<"Request", "COMPUTE">>, <<"Request", "MONTHLY">>, <<"Done", "MONTHLY">>,
              <<"Request", "META">>, <<"Done", "META">>, <<"Request", "JULY">>, <<"Acquire", "JULY">>,
              <<"Release", "JULY">>, <<"Done", "COMPUTE">> >>
TLock ==
  /\ l <= Len(Rec) /\ Ev.ev \in {"Request", "Done", "Acquire", "Release"} /\ l' = l + 1
  /\ LET t == Ev.thread  p == Get(tpc, t, 0)  np == (p % Len(Program)) + 1 IN
     /\ Chk("LockProtocolOrder", Program[np] = <<Ev.ev, Ev.lock>>)
     /\ Chk("NoLockRequestedWhileHoldingAnother", (Ev.ev = "Request" /\ Ev.lock # "COMPUTE") => holder # t)
     /\ Chk("MutualExclusion", (Ev.ev = "Acquire") => holder = "none")
     /\ Chk("NoPanicWhileHoldingALock", ("panicking" \in DOMAIN Ev) => ~Ev.panicking)
     /\ tpc' = Put(tpc, t, IF Program[np] = <<Ev.ev, Ev.lock>> THEN np ELSE p)
     /\ holder' = IF Ev.ev = "Acquire" THEN t ELSE IF Ev.ev = "Release" /\ holder = t THEN "none" ELSE holder
  /\ UNCHANGED <<seen, ids>>

\* a conversion or an indicator computation finished with this digest
TResult ==
  /\ IsEvent("Result")
  /\ LET k == <<Ev.kind, Ev.input>> IN
     /\ Chk("ResultAvailable", Ev.ok)
     /\ Chk("SameResultWhateverTheHistoryOrSchedule", (Ev.ok /\ k \in DOMAIN seen) => seen[k] = Ev.digest)
     /\ seen' = IF Ev.ok /\ k \notin DOMAIN seen THEN Put(seen, k, Ev.digest) ELSE seen
  /\ UNCHANGED <<tpc, holder, ids>>

AsFn(pairs) == [n \in { pairs[i][1] : i \in DOMAIN pairs } |->
                  LET i == CHOOSE j \in DOMAIN pairs : pairs[j][1] = n IN pairs[i][2]]
TIdMap ==
  /\ IsEvent("IdMap")
  /\ IF Ev.variant = "base"
     THEN /\ Chk("IdsUniquePerName", Cardinality({ Ev.ids[i][1] : i \in DOMAIN Ev.ids }) = Len(Ev.ids))
          /\ ids' = Put(ids, Ev.input, AsFn(Ev.ids))
     ELSE /\ Chk("UnrelatedDefinitionChangesNoId",
                 Ev.input \in DOMAIN ids /\ LET now == AsFn(Ev.ids) IN
                   \A n \in DOMAIN ids[Ev.input] : n \in DOMAIN now /\ now[n] = ids[Ev.input][n])
          /\ ids' = ids
  /\ UNCHANGED <<tpc, holder, seen>>

TReference ==
  /\ IsEvent("Reference")
  /\ Chk("ReferenceProjectConvertsToReferenceModel", Ev.value_equal)
  /\ UNCHANGED <<tpc, holder, seen, ids>>

TraceNext == TLock \/ TResult \/ TIdMap \/ TReference
TraceSpec == TraceInit /\ [][TraceNext]_vars
Accepted == \/ TLCGet("stats").diameter - 1 = Len(Rec)
            \/ Print(<<"UNMATCHED", TLCGet("stats").diameter>>, FALSE)
=============================================================================
