SPECIFICATION Spec
CONSTANT Deep = TRUE
INVARIANTS InvMonotone InvRevealEquiv InvEmit
CHECK_DEADLOCK FALSE
