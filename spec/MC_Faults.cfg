SPECIFICATION Spec
CONSTANTS
  Files <- Files_
  Lines <- Lines_
INVARIANTS NeverCrashesOrHangs
PROPERTIES Decided
CHECK_DEADLOCK FALSE
