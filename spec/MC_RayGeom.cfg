SPECIFICATION Spec
INVARIANTS InvEmit
CHECK_DEADLOCK FALSE
