---------------------------- MODULE Trace_Library ----------------------------
(***************************************************************************)
(* Trace validation for X01: one event per catalogue converted by the real *)
(* convertdb::get_library; the observed library (ids mapped back to names  *)
(* by the harness) must be LibOf(catalogue).                               *)
(***************************************************************************)
EXTENDS Library, Json, IOUtils
Rec == ndJsonDeserialize(IOEnv.TRACE)
VARIABLE l
Ev == Rec[l]
IsEvent(e) == l <= Len(Rec) /\ Rec[l].ev = e /\ l' = l + 1
Chk(name, cond) == IF cond THEN TRUE ELSE PrintT(<<"FAIL", l, "X01", name>>)

NoDup(s) == Len(s) = Cardinality(Range(s))
SameItems(seq, set) == Range(seq) = set /\ Len(seq) = Cardinality(set)
GroupsSeen(gs) == { <<gs[i][1], Range(gs[i][2])>> : i \in DOMAIN gs }
\* the library as observed, in the shape of LibOf
Seen(g) == [ materials |-> Range(g.materials), glasses |-> Range(g.glasses), frames |-> Range(g.frames),
             wallcons |-> Range(g.wallcons), wincons |-> Range(g.wincons),
             groups |-> [materials |-> GroupsSeen(g.groups.materials), glasses |-> GroupsSeen(g.groups.glasses),
                         frames |-> GroupsSeen(g.groups.frames), wallcons |-> GroupsSeen(g.groups.wallcons),
                         wincons |-> GroupsSeen(g.groups.wincons)] ]
TLibrary ==
  /\ IsEvent("Library")
  /\ Chk("ConversionSucceeds", Ev.ok)
  /\ Ev.ok => LET L == LibOf(Ev.cat)  g == Ev.got  S == Seen(Ev.got) IN
       /\ Chk("IdsAreUniquePerKind", g.unique_ids)
       /\ Chk("MaterialsAsWritten", SameItems(g.materials, L.materials))
       /\ Chk("GlassesAsWritten", SameItems(g.glasses, L.glasses))
       /\ Chk("FramesAsWritten", SameItems(g.frames, L.frames))
       /\ Chk("LayersReferToTheirMaterials", SameItems(g.wallcons, L.wallcons))
       /\ Chk("WindowConstructionsReferToGlassAndFrame", SameItems(g.wincons, L.wincons))
       /\ Chk("GroupsListEveryItemOnce",
              \A k \in {"materials", "glasses", "frames", "wallcons", "wincons"} :
                 /\ GroupsSeen(g.groups[k]) = L.groups[k]
                 /\ Len(g.groups[k]) = Cardinality(L.groups[k])
                 /\ \A i \in DOMAIN g.groups[k] : NoDup(g.groups[k][i][2]))
       /\ Chk("ReferencesClosedOrNil", RefsClosed(S))
       /\ Chk("GroupsPartitionTheItems", GroupsPartition(S))
TraceNext == TLibrary
TraceSpec == l = 1 /\ [][TraceNext]_l
Accepted == \/ TLCGet("stats").diameter - 1 = Len(Rec)
            \/ Print(<<"UNMATCHED", TLCGet("stats").diameter>>, FALSE)
=============================================================================
