SPECIFICATION Spec
CONSTANTS MaxDefs = 3
INVARIANTS Closed Grouped Complete NilExact InvEmit
CHECK_DEADLOCK FALSE
