SPECIFICATION Spec
CONSTANTS MaxDefs = 2
INVARIANTS Closed Grouped Complete NilExact InvEmit
CHECK_DEADLOCK FALSE
