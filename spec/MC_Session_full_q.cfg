SPECIFICATION Spec
CONSTANTS
  MaxN <- MaxNq_
  BadRefs <- BadRefs_
  WallBounds <- WallBounds_
  WallTilts <- WallTilts_
  WallOrients = {"S"}
  WallU <- WallU_
  SpaceInside <- SpaceInside_
  SpaceKinds <- SpaceKinds_
  SpaceMults <- SpaceMults_
  OvU <- OvU_
  TbSigns <- TbSigns_
  EmitCases = TRUE
  ReadyOps = FALSE
INVARIANTS
  TypeOK NeverPoisoned InvPurgeImplIsSpec InvPurgeIdempotent InvPurgeKeepsClosure InvPurgeKeepsWarnings
  InvClosedNoWarnings InvRemovedUnused InvTenvNeedsSpace InvPurgeKeepsIndicators InvOrderIndependent InvEmit
CHECK_DEADLOCK FALSE
