SPECIFICATION TraceSpec
POSTCONDITION Accepted
CHECK_DEADLOCK FALSE
