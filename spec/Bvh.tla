--------------------------------- MODULE Bvh ---------------------------------
(***************************************************************************)
(* The bounding volume hierarchy of bemodel/src/energy/raytracing/bvh.rs,  *)
(* transcribed at the grain of its loops (C13, and through it C12 / C14).  *)
(*                                                                         *)
(*   generate_node_list : Start, then Split while `pending` is not empty   *)
(*   build_from_node_list : Attach while `nodes` has more than one entry,  *)
(*                          then Finish                                    *)
(*   intersects : pre-order traversal pruned by the node boxes (TreeHit)   *)
(*                                                                         *)
(* Elements are axis-aligned integer boxes [k, lo, hi] (k identifies the   *)
(* element, lo/hi are <<x, y, z>>); rays are axis-parallel with origins on *)
(* odd coordinates and boxes on even ones, so every geometric test is      *)
(* exact. Variant = "orig" reproduces the three defects of the algorithm   *)
(* as shipped (inverted capacity estimate, no root for a single leaf, no   *)
(* progress when a partition leaves one side empty); "fixed" is the        *)
(* algorithm after the fix: commits. TLC finds the three counterexamples   *)
(* on "orig" and none on "fixed".                                          *)
(***************************************************************************)
EXTENDS Integers, Sequences, FiniteSets, SequencesExt, TLC

CONSTANTS Variant,     \* "orig" | "fixed"
          Boxes,       \* set of [lo, hi] the generated elements are drawn from
          MaxLen,      \* maximal number of elements
          LeafSizes,   \* possible values of max_num_elements
          Rays         \* set of [o, a, d]: origin, axis 1..3, direction 1 | -1

VARIABLES input,     \* sequence of elements
          leaf,      \* max_num_elements
          pc,        \* "start" | "split" | "build" | "done" | "panic_capacity" | "panic_unwrap"
          pending,   \* stack (top = last) of tree elements still to be split
          nodes,     \* node_list
          nid,       \* id counter
          bpend,     \* parent id -> [l, r] partially assembled node
          bdone,     \* id -> assembled subtree
          root       \* result
vars == <<input, leaf, pc, pending, nodes, nid, bpend, bdone, root>>

NoTree == [ty |-> "none"]
LeafT(els) == [ty |-> "L", els |-> els]
NodeT(l, r) == [ty |-> "N", l |-> l, r |-> r]

(******************************* geometry **********************************)
MinOf(S) == CHOOSE x \in S : \A y \in S : x <= y
MaxOf(S) == CHOOSE x \in S : \A y \in S : x >= y
EmptyBox == [empty |-> TRUE]
BoxOfSeq(s) == IF s = <<>> THEN EmptyBox
               ELSE [empty |-> FALSE,
                     lo |-> [a \in 1..3 |-> MinOf({ s[i].lo[a] : i \in DOMAIN s })],
                     hi |-> [a \in 1..3 |-> MaxOf({ s[i].hi[a] : i \in DOMAIN s })]]
Join(b1, b2) == IF b1.empty THEN b2 ELSE IF b2.empty THEN b1
                ELSE [empty |-> FALSE,
                      lo |-> [a \in 1..3 |-> IF b1.lo[a] <= b2.lo[a] THEN b1.lo[a] ELSE b2.lo[a]],
                      hi |-> [a \in 1..3 |-> IF b1.hi[a] >= b2.hi[a] THEN b1.hi[a] ELSE b2.hi[a]]]
RECURSIVE BoxOf(_)
BoxOf(t) == IF t.ty = "none" THEN EmptyBox
            ELSE IF t.ty = "L" THEN BoxOfSeq(t.els) ELSE Join(BoxOf(t.l), BoxOf(t.r))
\* the slab test of AABB::intersects for an axis-parallel ray; the default (empty) box is hit by
\* every ray (its bounds are +inf / -inf)
BoxHit(b, r) == \/ b.empty
                \/ /\ \A j \in 1..3 : j # r.a => (b.lo[j] <= r.o[j] /\ r.o[j] <= b.hi[j])
                   /\ (r.d = 1  => b.hi[r.a] >= r.o[r.a])
                   /\ (r.d = -1 => b.lo[r.a] <= r.o[r.a])
Hit(e, r) == BoxHit([empty |-> FALSE, lo |-> e.lo, hi |-> e.hi], r)
LinearHit(s, r) == \E i \in DOMAIN s : Hit(s[i], r)
RECURSIVE TreeHit(_, _)
TreeHit(t, r) == IF t.ty = "none" THEN FALSE
                 ELSE IF ~BoxHit(BoxOf(t), r) THEN FALSE
                 ELSE IF t.ty = "L" THEN LinearHit(t.els, r)
                 ELSE TreeHit(t.l, r) \/ TreeHit(t.r, r)
RECURSIVE KeysOf(_)
KeysOf(t) == IF t.ty = "none" THEN <<>>
             ELSE IF t.ty = "L" THEN [i \in DOMAIN t.els |-> t.els[i].k] ELSE KeysOf(t.l) \o KeysOf(t.r)

(******************************* partition *********************************)
\* partition_elements_by_centroid: longest axis of the joint box, split at the mean centre
AxisOf(s) == LET b == BoxOfSeq(s)
                 d == [a \in 1..3 |-> b.hi[a] - b.lo[a]]
             IN IF d[1] >= d[2] /\ d[1] >= d[3] THEN 1 ELSE IF d[2] >= d[3] THEN 2 ELSE 3
C2(e, a) == e.lo[a] + e.hi[a]                                  \* twice the centre
SumC2(s, a) == FoldLeft(LAMBDA acc, e : acc + C2(e, a), 0, s)
IsLeft(s, e) == LET a == AxisOf(s) IN C2(e, a) * Len(s) < SumC2(s, a)      \* centre < mean
LeftOf(s)  == SelectSeq(s, LAMBDA e : IsLeft(s, e))
RightOf(s) == SelectSeq(s, LAMBDA e : ~IsLeft(s, e))
\* the two halves a set is divided into (left, right) and whether it is divided at all
Halves(s) == IF Len(s) > leaf THEN <<LeftOf(s), RightOf(s)>> ELSE <<s, <<>> >>
Divides(s) == IF Variant = "orig" THEN Len(s) > leaf
              ELSE Halves(s)[1] # <<>> /\ Halves(s)[2] # <<>>

(******************************** actions **********************************)
Init == /\ input \in UNION { [1..n -> Boxes] : n \in 0..MaxLen }
        /\ leaf \in LeafSizes
        /\ pc = "start" /\ pending = <<>> /\ nodes = <<>> /\ nid = 0
        /\ bpend = <<>> /\ bdone = <<>> /\ root = NoTree
\* elements get their position as key
Elems == [i \in DOMAIN input |-> [k |-> i, lo |-> input[i].lo, hi |-> input[i].hi]]

TE(id, ty, side, par, el) == [id |-> id, ty |-> ty, side |-> side, par |-> par, el |-> el]

Start ==
  /\ pc = "start"
  /\ IF Variant = "orig" /\ Len(input) = 0
     THEN pc' = "panic_capacity" /\ UNCHANGED <<pending, nodes, nid>>     \* 2 * (0 / max) - 1 on usize
     ELSE IF Divides(Elems)
          THEN /\ nodes' = << TE(0, "N", "L", -1, <<>>) >>
               /\ pending' = << TE(2, "N", "R", 0, Halves(Elems)[2]), TE(1, "N", "L", 0, Halves(Elems)[1]) >>
               /\ nid' = 2 /\ pc' = "split"
          ELSE /\ nodes' = << TE(0, "L", "L", -1, Elems) >>
               /\ pc' = "build" /\ UNCHANGED <<pending, nid>>
  /\ UNCHANGED <<input, leaf, bpend, bdone, root>>

Split ==
  /\ pc = "split" /\ pending # <<>>
  /\ LET c == pending[Len(pending)]  rest == SubSeq(pending, 1, Len(pending) - 1) IN
     IF Divides(c.el)
     THEN /\ nodes' = Append(nodes, TE(c.id, "N", c.side, c.par, <<>>))
          /\ pending' = rest \o << TE(nid + 2, "N", "R", c.id, Halves(c.el)[2]),
                                   TE(nid + 1, "N", "L", c.id, Halves(c.el)[1]) >>
          /\ nid' = nid + 2
     ELSE /\ nodes' = Append(nodes, TE(c.id, "L", c.side, c.par, c.el))
          /\ pending' = rest /\ nid' = nid
  /\ UNCHANGED <<input, leaf, pc, bpend, bdone, root>>

InBuild == pc = "build" \/ (pc = "split" /\ pending = <<>>)
Partial(p) == IF p \in DOMAIN bpend THEN bpend[p] ELSE [l |-> NoTree, r |-> NoTree]
MapSet(f, k, v) == [x \in (DOMAIN f) \cup {k} |-> IF x = k THEN v ELSE f[x]]
MapDel(f, k) == [x \in (DOMAIN f) \ {k} |-> f[x]]

Attach ==
  /\ InBuild /\ Len(nodes) > 1
  /\ LET e == nodes[Len(nodes)] IN
     /\ nodes' = SubSeq(nodes, 1, Len(nodes) - 1)
     /\ IF e.ty = "N" /\ e.id \notin DOMAIN bdone
        THEN pc' = "panic_unwrap" /\ UNCHANGED <<bpend, bdone>>          \* completed.remove(&id).unwrap()
        ELSE LET sub == IF e.ty = "L" THEN LeafT(e.el) ELSE bdone[e.id]
                 done1 == IF e.ty = "L" THEN bdone ELSE MapDel(bdone, e.id)
                 p == Partial(e.par)
                 q == IF e.side = "L" THEN [p EXCEPT !.l = sub] ELSE [p EXCEPT !.r = sub]
             IN /\ pc' = "build"
                /\ IF q.l.ty # "none" /\ q.r.ty # "none"
                   THEN bpend' = MapDel(bpend, e.par) /\ bdone' = MapSet(done1, e.par, NodeT(q.l, q.r))
                   ELSE bpend' = MapSet(bpend, e.par, q) /\ bdone' = done1
  /\ UNCHANGED <<input, leaf, pending, nid, root>>

Finish ==
  /\ InBuild /\ Len(nodes) <= 1
  /\ root' = IF Variant # "orig" /\ Len(nodes) = 1 /\ nodes[1].ty = "L" THEN LeafT(nodes[1].el)
             ELSE IF 0 \in DOMAIN bdone THEN bdone[0] ELSE NoTree
  /\ pc' = "done"
  /\ UNCHANGED <<input, leaf, pending, nodes, nid, bpend, bdone>>

Next == Start \/ Split \/ Attach \/ Finish
Spec == Init /\ [][Next]_vars /\ WF_vars(Next)

(******************************* properties ********************************)
Panics == {"panic_capacity", "panic_unwrap"}
NoPanic == pc \notin Panics
\* a binary tree with n non-empty leaves has at most 2n - 1 nodes: turns non-termination into a
\* safety violation
Bounded == Len(nodes) <= 2 * Len(input) + 1 /\ nid <= 2 * Len(input) + 2
Terminates == <>(pc = "done" \/ pc \in Panics)
SameBag(s, t) == Len(s) = Len(t) /\ \A x \in Range(s) \cup Range(t) :
                    Cardinality({i \in DOMAIN s : s[i] = x}) = Cardinality({i \in DOMAIN t : t[i] = x})
AllKept == pc = "done" => SameBag(KeysOf(root), [i \in DOMAIN input |-> i])
AccEqLin == pc = "done" => \A r \in Rays : TreeHit(root, r) = LinearHit(Elems, r)
\* no leaf of a built tree is empty unless the input is empty, and leaves respect the leaf size
\* unless their elements cannot be separated
RECURSIVE LeavesOf(_)
LeavesOf(t) == IF t.ty = "none" THEN {} ELSE IF t.ty = "L" THEN {t.els} ELSE LeavesOf(t.l) \cup LeavesOf(t.r)
LeavesOk == pc = "done" => \A ls \in LeavesOf(root) :
               /\ (ls = <<>> => input = <<>>)
               /\ (Len(ls) > leaf => (LeftOf(ls) = <<>> \/ RightOf(ls) = <<>>))
\* witnesses (TLC must violate these: the interesting shapes are reached)
WitnessDeepTree == ~(pc = "done" /\ root.ty = "N" /\ (root.l.ty = "N" \/ root.r.ty = "N"))
WitnessUndividable == ~(pc = "done" /\ \E ls \in LeavesOf(root) : Len(ls) > leaf)
=============================================================================
