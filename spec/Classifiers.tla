------------------------------ MODULE Classifiers ------------------------------
(***************************************************************************)
(* C11 (second part). Floor / wall / roof classes of a tilt and compass     *)
(* classes of an azimuth as interval tables over the angle modulo 360.      *)
(* An angle is the exact value of a 32-bit float written <<i, f>> =          *)
(* i + f / 2^23 with i = floor(angle) and 0 <= f < 2^23, so that every       *)
(* comparison with a boundary is exact and fits 32-bit integers.             *)
(***************************************************************************)
EXTENDS Integers, Sequences, FiniteSets, TLC
Half == 4194304                       \* 0.5 in units of 2^-23
Lt(x, y) == x[1] < y[1] \/ (x[1] = y[1] /\ x[2] < y[2])
Le(x, y) == x = y \/ Lt(x, y)
Norm(x) == <<x[1] % 360, x[2]>>       \* TLA+ % is the mathematical modulus: result in 0..359
TiltClass(x) == LET a == Norm(x) IN
  IF Le(a, <<60, 0>>) THEN "TOP" ELSE IF Lt(a, <<120, 0>>) THEN "SIDE" ELSE IF Lt(a, <<240, 0>>) THEN "BOTTOM"
  ELSE IF Lt(a, <<300, 0>>) THEN "SIDE" ELSE "TOP"
OrientClass(x) == LET a == Norm(x) IN
  IF Lt(a, <<18, 0>>) THEN "S" ELSE IF Lt(a, <<69, 0>>) THEN "SE" ELSE IF Lt(a, <<120, 0>>) THEN "E"
  ELSE IF Lt(a, <<157, Half>>) THEN "NE" ELSE IF Lt(a, <<202, Half>>) THEN "N" ELSE IF Lt(a, <<240, 0>>) THEN "NW"
  ELSE IF Lt(a, <<291, 0>>) THEN "W" ELSE IF Lt(a, <<342, 0>>) THEN "SW" ELSE "S"
\* boundaries of each table (points where the class may change), as normalised angles
TiltBounds == {<<60, 1>>, <<120, 0>>, <<240, 0>>, <<300, 0>>}      \* 60 itself is still TOP: the change is just above
OrientBounds == {<<18, 0>>, <<69, 0>>, <<120, 0>>, <<157, Half>>, <<202, Half>>, <<240, 0>>, <<291, 0>>, <<342, 0>>}
\* the class is constant on [lo, hi] iff no boundary b (in any period) satisfies lo < b <= hi
ConstantOn(bounds, lo, hi) ==
  ~ \E k \in ((lo[1] \div 360) - 1)..((hi[1] \div 360) + 1) : \E b \in bounds :
       LET bb == <<b[1] + 360 * k, b[2]>> IN Lt(lo, bb) /\ Le(bb, hi)

\* design-level theorems (checked by TLC on a grid): periodicity, symmetry of the compass table
Grid == { <<i, f>> : i \in -720..1080, f \in {0, 1, Half, 8388607} }
Periodic == \A x \in Grid : TiltClass(x) = TiltClass(<<x[1] + 360, x[2]>>) /\ OrientClass(x) = OrientClass(<<x[1] + 360, x[2]>>)
Mirror(o) == CASE o = "SE" -> "SW" [] o = "E" -> "W" [] o = "NE" -> "NW" [] o = "SW" -> "SE" [] o = "W" -> "E" [] o = "NW" -> "NE" [] OTHER -> o
\* east and west classes are mirror images (away from the boundaries themselves)
Symmetric == \A i \in 1..359 : (\A b \in OrientBounds : b[1] # i /\ b[1] # 360 - i /\ b[1] + 1 # i /\ b[1] + 1 # 360 - i) =>
                 OrientClass(<<i, Half \div 2>>) = Mirror(OrientClass(<<359 - i, Half + Half \div 2>>))
=============================================================================
