-------------------------------- MODULE Geometry --------------------------------
(***************************************************************************)
(* C03. Placement semantics of a HULC/BDL building, stated independently   *)
(* of the converter, in exact rational arithmetic.                          *)
(*                                                                         *)
(* Conventions of the source (DOE-2 BDL): X east, Y north, Z up; every     *)
(* AZIMUTH is measured clockwise from the Y axis of the enclosing          *)
(* coordinate system. The building is turned clockwise by its deviation    *)
(* a_g from true north; a space has an origin (X, Y, Z) in building        *)
(* coordinates and its own axes turned clockwise by a_s about that origin; *)
(* its outline is counter-clockwise in space coordinates. A surface has an *)
(* origin, the azimuth A of its outward normal and a tilt T (0 = facing    *)
(* up, 90 = vertical, 180 = facing down); in its own plane x is horizontal *)
(* (left to right seen from outside) and y runs up the surface:            *)
(*    ex = (-cos A, sin A, 0)     ey = (-cos T sin A, -cos T cos A, sin T) *)
(*    n  = ( sin A sin T, cos A sin T, cos T)                              *)
(*                                                                         *)
(* Conventions of the model: the same global axes; a surface is            *)
(* position + Rz(azimuth) Rx(tilt) (x, y, 0) with azimuth counter-          *)
(* clockwise from south (EN ISO 52016-1: S = 0, E = +90).                   *)
(*                                                                         *)
(* Numbers: lengths of the source in `unit`s (integers; the unit is chosen *)
(* by the driver: 1 dm for generated buildings, 0.1 mm for shipped files), *)
(* angles as rational angles <<c, s, h>> (cos = c/h, sin = s/h). A point   *)
(* is a record [x, y, z, k] standing for (x/k, y/k, z/k).                  *)
(***************************************************************************)
EXTENDS Integers, Sequences, FiniteSets, TLC

Zero == <<1, 0, 1>>
Cos(a) == a[1]
Sin(a) == a[2]
Hyp(a) == a[3]
IsAngle(a) == a[1] * a[1] + a[2] * a[2] = a[3] * a[3] /\ a[3] > 0
\* sum of two angles
Plus(a, b) == << a[1] * b[1] - a[2] * b[2], a[2] * b[1] + a[1] * b[2], a[3] * b[3] >>
Pt(x, y, z) == [x |-> x, y |-> y, z |-> z, k |-> 1]
\* clockwise turn about the Z axis
RotCW(a, p) == [x |-> p.x * Cos(a) + p.y * Sin(a), y |-> p.y * Cos(a) - p.x * Sin(a), z |-> p.z * Hyp(a), k |-> p.k * Hyp(a)]
AddP(p, q) == [x |-> p.x * q.k + q.x * p.k, y |-> p.y * q.k + q.y * p.k, z |-> p.z * q.k + q.z * p.k, k |-> p.k * q.k]
SameP(p, q) == p.x * q.k = q.x * p.k /\ p.y * q.k = q.y * p.k /\ p.z * q.k = q.z * p.k
\* a point of a surface with origin o, azimuth A and tilt T, at surface coordinates (u, v)
OnSurface(o, A, T, u, v) ==
  AddP(o, [x |-> -(u * Cos(A) * Hyp(T)) - v * Cos(T) * Sin(A),
           y |-> u * Sin(A) * Hyp(T) - v * Cos(T) * Cos(A),
           z |-> v * Sin(T) * Hyp(A),
           k |-> Hyp(A) * Hyp(T)])
\* outward normal of such a surface (a direction: only its ray matters), times Hyp(A) Hyp(T)
SurfNormal(A, T) == << Sin(A) * Sin(T), Cos(A) * Sin(T), Cos(T) * Hyp(A) >>
RotDirCW(a, d) == << d[1] * Cos(a) + d[2] * Sin(a), d[2] * Cos(a) - d[1] * Sin(a), d[3] * Hyp(a) >>

\* ---- a building b: [ag, spaces, shades]; a space sp: [x, y, z, h, as, outline, ...] ----
\* space coordinates -> global
ToGlobal(b, sp, p) == RotCW(b.ag, AddP(Pt(sp.x, sp.y, sp.z), RotCW(sp.as, p)))
Vtx(sp, i) == sp.outline[((i - 1) % Len(sp.outline)) + 1]
\* wall on edge n of the outline: that edge over the storey height
EdgeWallCorners(b, sp, n) ==
  { ToGlobal(b, sp, Pt(Vtx(sp, n)[1], Vtx(sp, n)[2], 0)), ToGlobal(b, sp, Pt(Vtx(sp, n + 1)[1], Vtx(sp, n + 1)[2], 0)),
    ToGlobal(b, sp, Pt(Vtx(sp, n + 1)[1], Vtx(sp, n + 1)[2], sp.h)), ToGlobal(b, sp, Pt(Vtx(sp, n)[1], Vtx(sp, n)[2], sp.h)) }
\* the same with an offset dz in height written on the wall (its origin is raised; it still spans the storey height)
EdgeWallCornersZ(b, sp, n, dz) ==
  { ToGlobal(b, sp, Pt(Vtx(sp, n)[1], Vtx(sp, n)[2], dz)), ToGlobal(b, sp, Pt(Vtx(sp, n + 1)[1], Vtx(sp, n + 1)[2], dz)),
    ToGlobal(b, sp, Pt(Vtx(sp, n + 1)[1], Vtx(sp, n + 1)[2], sp.h + dz)), ToGlobal(b, sp, Pt(Vtx(sp, n)[1], Vtx(sp, n)[2], sp.h + dz)) }
\* its outward normal: the right-hand normal (dy, -dx) of the edge, turned with the space and the building
EdgeWallNormal(b, sp, n) ==
  LET dx == Vtx(sp, n + 1)[1] - Vtx(sp, n)[1]  dy == Vtx(sp, n + 1)[2] - Vtx(sp, n)[2] IN
  RotDirCW(b.ag, RotDirCW(sp.as, <<dy, -dx, 0>>))
EdgeLen2(sp, n) == LET dx == Vtx(sp, n + 1)[1] - Vtx(sp, n)[1]  dy == Vtx(sp, n + 1)[2] - Vtx(sp, n)[2] IN dx * dx + dy * dy
\* floor and ceiling taken from the outline
OutlineAt(b, sp, zz) == { ToGlobal(b, sp, Pt(sp.outline[i][1], sp.outline[i][2], zz)) : i \in DOMAIN sp.outline }
\* a surface given by origin (in space coordinates), azimuth, tilt and its own polygon
PolyWallCorners(b, sp, w) == { ToGlobal(b, sp, OnSurface(Pt(w.x, w.y, w.z), w.A, w.T, w.poly[i][1], w.poly[i][2])) : i \in DOMAIN w.poly }
PolyWallNormal(b, sp, w) == RotDirCW(b.ag, RotDirCW(sp.as, SurfNormal(w.A, w.T)))
\* shades: in building coordinates
RectShadeCorners(b, s) ==
  { RotCW(b.ag, OnSurface(Pt(s.x, s.y, s.z), s.A, s.T, u, v)) : u \in {0, s.w}, v \in {0, s.h} }
RectShadeNormal(b, s) == RotDirCW(b.ag, SurfNormal(s.A, s.T))
VertexShadeCorners(b, s) == { RotCW(b.ag, Pt(s.verts[i][1], s.verts[i][2], s.verts[i][3])) : i \in DOMAIN s.verts }

\* shoelace: twice the area of a polygon (positive when counter-clockwise)
RECURSIVE Shoelace(_, _)
Shoelace(poly, i) == IF i = 0 THEN 0
                     ELSE LET p == poly[i]  q == poly[(i % Len(poly)) + 1] IN p[1] * q[2] - q[1] * p[2] + Shoelace(poly, i - 1)
Area2(poly) == Shoelace(poly, Len(poly))
AbsI(v) == IF v < 0 THEN -v ELSE v
\* Newell vector of a polygon in space: its length is twice the area, its direction the normal
RECURSIVE Newell(_, _)
Newell(vs, i) == IF i = 0 THEN <<0, 0, 0>>
                 ELSE LET a == vs[i]  b == vs[(i % Len(vs)) + 1]  r == Newell(vs, i - 1) IN
                      << r[1] + (a[2] - b[2]) * (a[3] + b[3]), r[2] + (a[3] - b[3]) * (a[1] + b[1]), r[3] + (a[1] - b[1]) * (a[2] + b[2]) >>
NewellVector(vs) == Newell(vs, Len(vs))
\* integer square root when there is one (edges of generated outlines have rational lengths)
HasRoot(v) == \E r \in 0..3000 : r * r = v
Root(v) == CHOOSE r \in 0..3000 : r * r = v

\* ---- shading devices of a window (overhang, side fins) on the wall of edge n: lengths in a finer unit than the building's (mmu of them per building unit) -------------------------
\* (the building descriptor is in `upm` units per metre: its lengths are brought to mm first)
\* A point of the wall's own frame: u along the edge (left to right seen from outside), v up from the floor, t outwards;
\* u, v, t are numerators over q. The edge must have a rational length.
ToGlobalMM(b, sp, p, mmu) == RotCW(b.ag, AddP(Pt(sp.x * mmu, sp.y * mmu, sp.z * mmu), RotCW(sp.as, p)))
WallPointMM(b, sp, n, u, v, t, q, mmu) ==
  LET dx == Vtx(sp, n + 1)[1] - Vtx(sp, n)[1]  dy == Vtx(sp, n + 1)[2] - Vtx(sp, n)[2]  L == Root(EdgeLen2(sp, n)) IN
  ToGlobalMM(b, sp, [x |-> Vtx(sp, n)[1] * mmu * L * q + u * dx + t * dy, y |-> Vtx(sp, n)[2] * mmu * L * q + u * dy - t * dx,
                     z |-> v * L, k |-> L * q], mmu)
\* overhang: a W x D rectangle hinged A to the left of the window and B above its top edge, leaving the wall at the angle
\* `ang` (0: flat against the wall, hanging down; 90 degrees: horizontal)
OverhangCorners(b, sp, n, win, o, mmu) ==
  LET q == Hyp(o.ang)  u0 == win.x - o.a  v0 == win.y + win.h + o.b IN
  { WallPointMM(b, sp, n, u0 * q, v0 * q, 0, q, mmu), WallPointMM(b, sp, n, (u0 + o.w) * q, v0 * q, 0, q, mmu),
    WallPointMM(b, sp, n, u0 * q, v0 * q - o.d * Cos(o.ang), o.d * Sin(o.ang), q, mmu),
    WallPointMM(b, sp, n, (u0 + o.w) * q, v0 * q - o.d * Cos(o.ang), o.d * Sin(o.ang), q, mmu) }
\* side fins: H x D rectangles square to the wall, A beside the window (to its left / right), top edge B below the window's top
FinCorners(b, sp, n, win, f, right, mmu) ==
  LET u0 == IF right THEN win.x + win.w + f.a ELSE win.x - f.a  v0 == win.y + win.h - f.b IN
  { WallPointMM(b, sp, n, u0, v0, 0, 1, mmu), WallPointMM(b, sp, n, u0, v0 - f.h, 0, 1, mmu),
    WallPointMM(b, sp, n, u0, v0 - f.h, f.d, 1, mmu), WallPointMM(b, sp, n, u0, v0, f.d, 1, mmu) }

\* ---- comparison with observed values (integers in mm; a source unit is `mmu` / `div` mm) ----
\* observed coordinate o (mm) against the exact coordinate c / k (units): | o k div - c mmu | <= tol k div
NearC(o, c, k, mmu, div, tol) == AbsI(o * k * div - c * mmu) <= tol * k * div
NearP(o, p, mmu, div, tol) == NearC(o[1], p.x, p.k, mmu, div, tol) /\ NearC(o[2], p.y, p.k, mmu, div, tol) /\ NearC(o[3], p.z, p.k, mmu, div, tol)
SameCorners(obs, exp, mmu, div, tol) ==
  /\ \A i \in DOMAIN obs : \E p \in exp : NearP(obs[i], p, mmu, div, tol)
  /\ \A p \in exp : \E i \in DOMAIN obs : NearP(obs[i], p, mmu, div, tol)
\* two directions agree: parallel within about 0.1 degree and not opposite (o observed, 1e-4; d exact, any scale)
Max3(d) == LET a == AbsI(d[1])  b2 == AbsI(d[2])  c == AbsI(d[3]) IN IF a >= b2 /\ a >= c THEN a ELSE IF b2 >= c THEN b2 ELSE c
\* a direction with components of at most about 2000 (keeps the products below within 32 bits)
Shrink(d) == LET f == Max3(d) \div 2000 + 1 IN << d[1] \div f, d[2] \div f, d[3] \div f >>
SameDir(o, dd) ==
  LET d == Shrink(dd)
      m == Max3(d)
      cx == o[2] * d[3] - o[3] * d[2]  cy == o[3] * d[1] - o[1] * d[3]  cz == o[1] * d[2] - o[2] * d[1] IN
  /\ m > 0
  /\ AbsI(cx) <= 40 * m /\ AbsI(cy) <= 40 * m /\ AbsI(cz) <= 40 * m
  /\ o[1] * d[1] + o[2] * d[2] + o[3] * d[3] > 0

\* ---- turning the whole building by delta ----
Turned(b, delta) == [b EXCEPT !.ag = Plus(b.ag, delta)]
=============================================================================
