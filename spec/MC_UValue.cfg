SPECIFICATION Spec
CONSTANTS Stacks <- Stacks_
INVARIANTS InvWinBounded InvEmit
CHECK_DEADLOCK FALSE
