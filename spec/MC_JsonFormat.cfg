SPECIFICATION Spec
INVARIANTS Lossless NeverUnloadable Contract
CHECK_DEADLOCK FALSE
