SPECIFICATION Spec
INVARIANTS Lossless NeverUnloadable KnownRules Contract
CHECK_DEADLOCK FALSE
