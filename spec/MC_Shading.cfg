SPECIFICATION Spec
CONSTANT Deep = FALSE
INVARIANTS InvMonotone InvRevealEquiv InvEmit
CHECK_DEADLOCK FALSE
