----------------------------- MODULE ModelGraph -----------------------------
(***************************************************************************)
(* The building model (bemodel::Model) seen as a reference graph.          *)
(*                                                                         *)
(* A model x is a record of sequences (order matters: the JSON arrays):    *)
(*   spaces, walls, windows, tbs, wallcons, wincons, materials, glasses,   *)
(*   frames, loads, therms, years, weeks, days                             *)
(* Elements are records; ids are small integers (the conformance harness   *)
(* interns UUIDs: the nil UUID is 0, every other UUID gets 1, 2, 3 ... in  *)
(* order of first appearance). An absent optional reference is None.       *)
(* Only the fields named here are constrained; elements may carry more     *)
(* (numeric attributes used by Indicators.tla).                            *)
(*                                                                         *)
(*   space    : id, loads, therm            (loads/therm: id or None)      *)
(*   wall     : id, space, cons, next       (next: id or None)             *)
(*   window   : id, wall, cons                                             *)
(*   tb       : id, lsign \in {-1, 0, 1}    (sign of the length; 0 = |l|   *)
(*                                           below f32::EPSILON)           *)
(*   wallcons : id, mats (sequence of material ids, one per layer)         *)
(*   wincons  : id, glass, frame                                           *)
(*   loads    : id, people, equip, light    (yearly schedule id or None)   *)
(*   therm    : id, tmax, tmin              (yearly schedule id or None)   *)
(*   year     : id, weeks (sequence of weekly ids)                         *)
(*   week     : id, days  (sequence of daily ids)                          *)
(*   material, glass, frame, day : id                                      *)
(***************************************************************************)
EXTENDS Num

None == -1
Nil  == 0

Ids(s) == { s[i].id : i \in DOMAIN s }
\* order-preserving restriction of a collection to a set of ids
Keep(s, ids) == SelectSeq(s, LAMBDA e : e.id \in ids)
Count(s, e) == Cardinality({ i \in DOMAIN s : s[i] = e })
SameBag(s, t) == /\ Len(s) = Len(t)
                 /\ \A e \in Range(s) \cup Range(t) : Count(s, e) = Count(t, e)
UniqueIds(s) == \A i, j \in DOMAIN s : s[i].id = s[j].id => i = j
Opt(S) == S \ {None}

EmptyModel ==
  [ spaces |-> <<>>, walls |-> <<>>, windows |-> <<>>, tbs |-> <<>>,
    wallcons |-> <<>>, wincons |-> <<>>, materials |-> <<>>, glasses |-> <<>>, frames |-> <<>>,
    loads |-> <<>>, therms |-> <<>>, years |-> <<>>, weeks |-> <<>>, days |-> <<>> ]

(***************************************************************************)
(* C15. What the model checker must report: one warning per broken link,   *)
(* carrying the id of the element that owns the link.                      *)
(* The sequence is in the order of the collections; only the bag matters.  *)
(***************************************************************************)
WallWarnings(x, w) ==
     (IF w.space \notin Ids(x.spaces)   THEN << <<w.id, "space">> >> ELSE <<>>)
  \o (IF w.cons  \notin Ids(x.wallcons) THEN << <<w.id, "cons">>  >> ELSE <<>>)
  \o (IF w.next # None /\ w.next \notin Ids(x.spaces) THEN << <<w.id, "next">> >> ELSE <<>>)
WinWarnings(x, v) ==
     (IF v.wall \notin Ids(x.walls)   THEN << <<v.id, "wall">> >> ELSE <<>>)
  \o (IF v.cons \notin Ids(x.wincons) THEN << <<v.id, "wcons">> >> ELSE <<>>)
TbWarnings(x, t) == IF t.lsign < 0 THEN << <<t.id, "neglen">> >> ELSE <<>>

CheckSpec(x) ==
     FoldLeft(LAMBDA acc, w : acc \o WallWarnings(x, w), <<>>, x.walls)
  \o FoldLeft(LAMBDA acc, v : acc \o WinWarnings(x, v),  <<>>, x.windows)
  \o FoldLeft(LAMBDA acc, t : acc \o TbWarnings(x, t),   <<>>, x.tbs)

(***************************************************************************)
(* C02. Referential closure: every link of the model resolves inside it    *)
(* and ids are unique within each collection.                              *)
(***************************************************************************)
LayersResolve(x)  == \A i \in DOMAIN x.wallcons : Range(x.wallcons[i].mats) \subseteq Ids(x.materials)
WinConsResolve(x) == \A i \in DOMAIN x.wincons :
                        x.wincons[i].glass \in Ids(x.glasses) /\ x.wincons[i].frame \in Ids(x.frames)
SpacesResolve(x)  == \A i \in DOMAIN x.spaces :
                        /\ x.spaces[i].loads # None => x.spaces[i].loads \in Ids(x.loads)
                        /\ x.spaces[i].therm # None => x.spaces[i].therm \in Ids(x.therms)
LoadRefs(l)  == Opt({l.people, l.equip, l.light})
ThermRefs(t) == Opt({t.tmax, t.tmin})
UseResolve(x) == /\ \A i \in DOMAIN x.loads  : LoadRefs(x.loads[i])   \subseteq Ids(x.years)
                 /\ \A i \in DOMAIN x.therms : ThermRefs(x.therms[i]) \subseteq Ids(x.years)
SchedulesResolve(x) == /\ \A i \in DOMAIN x.years : Range(x.years[i].weeks) \subseteq Ids(x.weeks)
                       /\ \A i \in DOMAIN x.weeks : Range(x.weeks[i].days)  \subseteq Ids(x.days)
AllUnique(x) == /\ UniqueIds(x.spaces) /\ UniqueIds(x.walls) /\ UniqueIds(x.windows) /\ UniqueIds(x.tbs)
                /\ UniqueIds(x.wallcons) /\ UniqueIds(x.wincons) /\ UniqueIds(x.materials)
                /\ UniqueIds(x.glasses) /\ UniqueIds(x.frames) /\ UniqueIds(x.loads)
                /\ UniqueIds(x.therms) /\ UniqueIds(x.years) /\ UniqueIds(x.weeks) /\ UniqueIds(x.days)
LinksClosed(x) == /\ \A i \in DOMAIN x.walls :
                        /\ x.walls[i].space \in Ids(x.spaces) /\ x.walls[i].cons \in Ids(x.wallcons)
                        /\ x.walls[i].next # None => x.walls[i].next \in Ids(x.spaces)
                  /\ \A i \in DOMAIN x.windows :
                        x.windows[i].wall \in Ids(x.walls) /\ x.windows[i].cons \in Ids(x.wincons)
                  /\ LayersResolve(x) /\ WinConsResolve(x) /\ SpacesResolve(x)
                  /\ UseResolve(x) /\ SchedulesResolve(x)
NoNilLinks(x) == /\ \A i \in DOMAIN x.walls : x.walls[i].space # Nil /\ x.walls[i].cons # Nil /\ x.walls[i].next # Nil
                 /\ \A i \in DOMAIN x.windows : x.windows[i].wall # Nil /\ x.windows[i].cons # Nil
Closed(x) == LinksClosed(x) /\ AllUnique(x)

(***************************************************************************)
(* C16. Purge, declaratively: keep exactly what is reachable.              *)
(*   roots: walls, windows, thermal bridges of non-zero length             *)
(***************************************************************************)
UsedSpaces(x) == { x.walls[i].space : i \in DOMAIN x.walls }
                 \cup Opt({ x.walls[i].next : i \in DOMAIN x.walls })
PurgeSpec(x) ==
  LET sp == Keep(x.spaces, UsedSpaces(x))
      ld == Keep(x.loads,  Opt({ sp[i].loads : i \in DOMAIN sp }))
      th == Keep(x.therms, Opt({ sp[i].therm : i \in DOMAIN sp }))
      yr == Keep(x.years,  UNION ({ LoadRefs(ld[i]) : i \in DOMAIN ld } \cup { ThermRefs(th[i]) : i \in DOMAIN th }))
      wk == Keep(x.weeks,  UNION { Range(yr[i].weeks) : i \in DOMAIN yr })
      dy == Keep(x.days,   UNION { Range(wk[i].days)  : i \in DOMAIN wk })
      wc == Keep(x.wallcons, { x.walls[i].cons   : i \in DOMAIN x.walls })
      vc == Keep(x.wincons,  { x.windows[i].cons : i \in DOMAIN x.windows })
  IN [x EXCEPT !.spaces = sp, !.loads = ld, !.therms = th, !.years = yr, !.weeks = wk, !.days = dy,
               !.wallcons = wc, !.wincons = vc,
               !.materials = Keep(@, UNION { Range(wc[i].mats) : i \in DOMAIN wc }),
               !.glasses   = Keep(@, { vc[i].glass : i \in DOMAIN vc }),
               !.frames    = Keep(@, { vc[i].frame : i \in DOMAIN vc }),
               !.tbs       = SelectSeq(@, LAMBDA t : t.lsign # 0)]

(***************************************************************************)
(* Purge as the implementation does it: ten retain steps in the order of   *)
(* purge.rs. TLC checks PurgeImpl = PurgeSpec over all small graphs; the   *)
(* trace specification compares the real purge with PurgeSpec.             *)
(***************************************************************************)
P1(x)  == [x EXCEPT !.spaces    = Keep(@, UsedSpaces(x))]
P2(x)  == [x EXCEPT !.tbs       = SelectSeq(@, LAMBDA t : t.lsign # 0)]
P3(x)  == [x EXCEPT !.wallcons  = Keep(@, { x.walls[i].cons : i \in DOMAIN x.walls })]
P4(x)  == [x EXCEPT !.wincons   = Keep(@, { x.windows[i].cons : i \in DOMAIN x.windows })]
P5(x)  == [x EXCEPT !.materials = Keep(@, UNION { Range(x.wallcons[i].mats) : i \in DOMAIN x.wallcons })]
P6(x)  == [x EXCEPT !.glasses   = Keep(@, { x.wincons[i].glass : i \in DOMAIN x.wincons })]
P7(x)  == [x EXCEPT !.frames    = Keep(@, { x.wincons[i].frame : i \in DOMAIN x.wincons })]
P8(x)  == [x EXCEPT !.loads     = Keep(@, Opt({ x.spaces[i].loads : i \in DOMAIN x.spaces }))]
P9(x)  == [x EXCEPT !.therms    = Keep(@, Opt({ x.spaces[i].therm : i \in DOMAIN x.spaces }))]
P10a(x) == [x EXCEPT !.years = Keep(@, UNION ({ LoadRefs(x.loads[i]) : i \in DOMAIN x.loads }
                                              \cup { ThermRefs(x.therms[i]) : i \in DOMAIN x.therms }))]
P10b(x) == [x EXCEPT !.weeks = Keep(@, UNION { Range(x.years[i].weeks) : i \in DOMAIN x.years })]
P10c(x) == [x EXCEPT !.days  = Keep(@, UNION { Range(x.weeks[i].days) : i \in DOMAIN x.weeks })]
PurgeImpl(x) == P10c(P10b(P10a(P9(P8(P7(P6(P5(P4(P3(P2(P1(x))))))))))))

\* the number of items removed per collection (the INFO message of purge_unused reports these)
PurgeCounts(x) ==
  LET y == PurgeSpec(x) IN
  << Len(x.spaces) - Len(y.spaces), Len(x.tbs) - Len(y.tbs), Len(x.wallcons) - Len(y.wallcons),
     Len(x.wincons) - Len(y.wincons), Len(x.materials) - Len(y.materials), Len(x.glasses) - Len(y.glasses),
     Len(x.frames) - Len(y.frames), Len(x.loads) - Len(y.loads), Len(x.therms) - Len(y.therms),
     Len(x.years) - Len(y.years), Len(x.weeks) - Len(y.weeks), Len(x.days) - Len(y.days) >>

(***************************************************************************)
(* Theorems about the design, checked by TLC on every reachable model.     *)
(***************************************************************************)
PurgeImplIsSpec(x)  == PurgeImpl(x) = PurgeSpec(x)
PurgeIdempotent(x)  == PurgeSpec(PurgeSpec(x)) = PurgeSpec(x)
PurgeKeepsClosure(x) == LinksClosed(x) => LinksClosed(PurgeSpec(x))
PurgeKeepsWarnings(x) == CheckSpec(PurgeSpec(x)) = CheckSpec(x)
ClosedNoWarnings(x) == (LinksClosed(x) /\ \A i \in DOMAIN x.tbs : x.tbs[i].lsign >= 0) => CheckSpec(x) = <<>>
\* nothing reachable is removed, order is kept: every kept sequence is a subsequence (by construction
\* of Keep); what is removed is unreferenced:
RemovedSpacesUnused(x) == \A i \in DOMAIN x.spaces :
     x.spaces[i].id \notin Ids(PurgeSpec(x).spaces) =>
        \A j \in DOMAIN x.walls : x.walls[j].space # x.spaces[i].id /\ x.walls[j].next # x.spaces[i].id
=============================================================================
