SPECIFICATION Spec
INVARIANTS OnlyJson ThorWritesFile NoJsonOnFailure ConvertibleSucceeds NoProjectFails
PROPERTIES StdoutOnlyByEmit Terminates
CHECK_DEADLOCK FALSE
