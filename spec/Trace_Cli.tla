------------------------------ MODULE Trace_Cli ------------------------------
(***************************************************************************)
(* Trace validation of real process runs of hulc2model and thor against    *)
(* Cli.tla. Events of one run: Start, then one Stdout event per chunk of   *)
(* standard output, an optional OutFile, and Exit.                         *)
(***************************************************************************)
EXTENDS Cli, Integers, Json, IOUtils

Rec == ndJsonDeserialize(IOEnv.TRACE)
VARIABLE l
tvars == <<vars, l>>
Ev == Rec[l]
IsEvent(e) == l <= Len(Rec) /\ Rec[l].ev = e /\ l' = l + 1
Chk(name, cond) == IF cond THEN TRUE ELSE PrintT(<<"FAIL", l, "C01", name>>)

TraceInit == /\ l = 1 /\ tool = "hulc2model" /\ input = "noproject" /\ extra = FALSE /\ phase = "idle"
             /\ stdout = <<>> /\ outfile = "absent" /\ exit = "none"

TStart == /\ IsEvent("Start")
          /\ tool' = Ev.tool /\ input' = Ev.input /\ extra' = Ev.extra
          /\ phase' = "start" /\ stdout' = <<>> /\ outfile' = "absent" /\ exit' = "none"

\* a chunk on standard output: only the model JSON, equal to the library's, and only once
TStdout == /\ IsEvent("Stdout")
           /\ Chk("OnlyTheModelJsonOnStdout", Ev.kind = "json" /\ tool = "hulc2model")
           /\ Chk("StdoutJsonEqualsLibraryModel", Ev.kind = "json" => (input # "project" \/ Ev.equal))
           /\ Chk("ExactlyOneDocument", stdout = <<>>)
           /\ stdout' = Append(stdout, Ev.kind)
           /\ UNCHANGED <<tool, input, extra, phase, outfile, exit>>

\* (a file of an earlier export that the run left exactly as it was is not an output of the run: the tool may refuse an
\*  unconvertible project without touching it; a file it did write must be the model)
TOutFile == /\ IsEvent("OutFile")
            /\ LET untouched == "untouched" \in DOMAIN Ev /\ Ev.untouched IN
               /\ Chk("OutputFileIsTheLibraryModel", untouched \/ (Ev.kind = "json" /\ (input # "project" \/ Ev.equal)))
               /\ Chk("ConvertibleProjectReplacesEarlierExport", ~(untouched /\ input = "project"))
               /\ outfile' = IF untouched THEN "absent" ELSE Ev.kind
            /\ UNCHANGED <<tool, input, extra, phase, stdout, exit>>

TExit == /\ IsEvent("Exit")
         /\ exit' = (IF Ev.code = 0 THEN "zero" ELSE "nonzero")
         /\ phase' = "exited"
         /\ Chk("ConvertibleProjectExitsZero", input = "project" => Ev.code = 0)
         /\ Chk("NoProjectExitsNonZero", input = "noproject" => Ev.code # 0)
         /\ Chk("ExactlyOneJsonOnSuccess", (Ev.code = 0 /\ tool = "hulc2model" /\ input = "project") => stdout = <<"json">>)
         /\ Chk("NoJsonOnFailure", Ev.code # 0 => ~(\E i \in DOMAIN stdout : stdout[i] = "json"))
         /\ Chk("ThorWritesTheModelFile", (Ev.code = 0 /\ tool = "thor" /\ input = "project") => outfile = "json")
         /\ UNCHANGED <<tool, input, extra, stdout, outfile>>

TraceNext == TStart \/ TStdout \/ TOutFile \/ TExit
TraceSpec == TraceInit /\ [][TraceNext]_tvars
Accepted == \/ TLCGet("stats").diameter - 1 = Len(Rec)
            \/ Print(<<"UNMATCHED", TLCGet("stats").diameter>>, FALSE)
=============================================================================
