------------------------- MODULE MC_Session_full -------------------------
(* Everything at once; too large to enumerate: used with -simulate, and as the generator of replayable cases (B1). *)
EXTENDS Session
MaxN_ == [days |-> 2, weeks |-> 2, years |-> 3, loads |-> 2, therms |-> 2, materials |-> 2, glasses |-> 2,
          frames |-> 2, wallcons |-> 2, wincons |-> 2, spaces |-> 3, walls |-> 4, windows |-> 3, tbs |-> 3]
MaxNq_ == [days |-> 1, weeks |-> 1, years |-> 2, loads |-> 1, therms |-> 1, materials |-> 1, glasses |-> 1,
          frames |-> 1, wallcons |-> 2, wincons |-> 1, spaces |-> 2, walls |-> 3, windows |-> 2, tbs |-> 2]
BadRefs_ == {Nil, Dangling}
WallBounds_ == {"EXTERIOR", "INTERIOR", "GROUND", "ADIABATIC"}
WallTilts_ == {"TOP", "SIDE", "BOTTOM"}
WallU_ == {None, 5000, 32500}
OvU_ == {None, 20000}
SpaceInside_ == BOOLEAN
SpaceKinds_ == {"C", "U", "N"}
SpaceMults_ == {100, 200}
TbSigns_ == {-1, 0, 1}
=============================================================================
