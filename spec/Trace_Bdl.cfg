SPECIFICATION TraceSpec
CONSTANTS
  Types = {}
  MaxLen = 0
POSTCONDITION Accepted
CHECK_DEADLOCK FALSE
