------------------------- MODULE MC_Session_use -------------------------
(* spaces -> loads / thermostats -> yearly -> weekly -> daily schedules, with sharing. *)
EXTENDS Session
MaxN_ == [days |-> 1, weeks |-> 1, years |-> 2, loads |-> 1, therms |-> 1, materials |-> 0, glasses |-> 0,
          frames |-> 0, wallcons |-> 0, wincons |-> 0, spaces |-> 2, walls |-> 1, windows |-> 0, tbs |-> 0]
MaxNq_ == [days |-> 1, weeks |-> 1, years |-> 1, loads |-> 1, therms |-> 1, materials |-> 0, glasses |-> 0,
          frames |-> 0, wallcons |-> 0, wincons |-> 0, spaces |-> 2, walls |-> 1, windows |-> 0, tbs |-> 0]
BadRefs_ == {Dangling}
WallBounds_ == {"EXTERIOR"}
WallTilts_ == {"SIDE"}
WallU_ == {5000}
OvU_ == {None}
SpaceInside_ == {TRUE}
SpaceKinds_ == {"C"}
SpaceMults_ == {100}
TbSigns_ == {-1, 0, 1}
=============================================================================
