SPECIFICATION Spec
INVARIANTS InvPeriodic InvSymmetric
CHECK_DEADLOCK FALSE
