------------------------------- MODULE Library -------------------------------
(***************************************************************************)
(* X01 (coverage beyond the listed properties): convertdb, the conversion  *)
(* of a HULC catalogue (BDCatalogo: MATERIAL, LAYERS, GLASS-TYPE,          *)
(* NAME-FRAME and GAP blocks, each with a GROUP) into a bemodel Library    *)
(* (ConsDb + ConsDbGroups).                                                *)
(*                                                                         *)
(* A catalogue is five sequences of definitions; references are by name.   *)
(* The library holds one item per definition with the written figures;     *)
(* references are by id, an id being a function of the definition; a name  *)
(* that no definition carries becomes the nil id (the converter warns and  *)
(* goes on); every item is listed once, under its own group.               *)
(* Deviation of the code kept in the model: the thickness of an air        *)
(* chamber layer is given by the material's name (applied by the checker's *)
(* printer / reader, lib/library_checks.py air_chamber); the layer set      *)
(* "Ninguno" is always present.                                            *)
(***************************************************************************)
EXTENDS Naturals, Sequences, FiniteSets, TLC

Nil == "nil"
Range(s) == { s[i] : i \in DOMAIN s }
Names(defs) == { defs[i].name : i \in DOMAIN defs }
Ref(defs, n) == IF n \in Names(defs) THEN n ELSE Nil
Min(a, b) == IF a < b THEN a ELSE b

\* groups: one <<group, members>> pair per group in use
GroupsOf(defs) == { <<g, { d.name : d \in { x \in Range(defs) : x.group = g } }>> : g \in { d.group : d \in Range(defs) } }

\* the library always offers the layer set "Ninguno" (no layers, group ""), which HULC gives to elements without construction
WithDefault(lays) == IF "Ninguno" \in Names(lays) THEN lays
                     ELSE Append(lays, [name |-> "Ninguno", group |-> "", mats |-> <<>>, ths |-> <<>>])
LibOf(c0) == LET c == [c0 EXCEPT !.lays = WithDefault(c0.lays)] IN
  [ materials |-> { [name |-> m.name, kind |-> m.kind, vals |-> m.vals] : m \in Range(c.mats) },
    glasses   |-> { [name |-> g.name, vals |-> g.vals] : g \in Range(c.glas) },
    frames    |-> { [name |-> f.name, vals |-> f.vals] : f \in Range(c.fras) },
    wallcons  |-> { [name |-> l.name,
                     layers |-> [i \in 1..Min(Len(l.mats), Len(l.ths)) |-> <<Ref(c.mats, l.mats[i]), l.ths[i]>>]] : l \in Range(c.lays) },
    wincons   |-> { [name |-> g.name, glass |-> Ref(c.glas, g.glass), frame |-> Ref(c.fras, g.frame), vals |-> g.vals] : g \in Range(c.gaps) },
    groups    |-> [materials |-> GroupsOf(c.mats), glasses |-> GroupsOf(c.glas), frames |-> GroupsOf(c.fras),
                   wallcons |-> GroupsOf(c.lays), wincons |-> GroupsOf(c.gaps)] ]

\* ---- what a user of the library relies on
ItemNames(items) == { x.name : x \in items }
RefsClosed(lib) == /\ \A w \in lib.wallcons : \A i \in DOMAIN w.layers : w.layers[i][1] \in ItemNames(lib.materials) \cup {Nil}
                   /\ \A w \in lib.wincons : w.glass \in ItemNames(lib.glasses) \cup {Nil} /\ w.frame \in ItemNames(lib.frames) \cup {Nil}
Partition(gs, names) == /\ UNION { g[2] : g \in gs } = names
                        /\ \A g, h \in gs : g # h => g[2] \cap h[2] = {}
                        /\ \A g \in gs : g[2] # {}
GroupsPartition(lib) == /\ Partition(lib.groups.materials, ItemNames(lib.materials))
                        /\ Partition(lib.groups.glasses, ItemNames(lib.glasses))
                        /\ Partition(lib.groups.frames, ItemNames(lib.frames))
                        /\ Partition(lib.groups.wallcons, ItemNames(lib.wallcons))
                        /\ Partition(lib.groups.wincons, ItemNames(lib.wincons))
OneItemPerDefinition(c, lib) == /\ ItemNames(lib.materials) = Names(c.mats) /\ ItemNames(lib.wallcons) = Names(c.lays) \cup {"Ninguno"}
                                /\ ItemNames(lib.glasses) = Names(c.glas) /\ ItemNames(lib.frames) = Names(c.fras)
                                /\ ItemNames(lib.wincons) = Names(c.gaps)
\* a nil reference appears exactly where the catalogue names something it does not define
NilOnlyWhereUndefined(c, lib) ==
  /\ \A l \in Range(c.lays) : \A w \in lib.wallcons : w.name = l.name =>
        \A i \in DOMAIN w.layers : (w.layers[i][1] = Nil) <=> (l.mats[i] \notin Names(c.mats))
  /\ \A g \in Range(c.gaps) : \A w \in lib.wincons : w.name = g.name =>
        /\ (w.glass = Nil) <=> (g.glass \notin Names(c.glas))
        /\ (w.frame = Nil) <=> (g.frame \notin Names(c.fras))
=============================================================================
