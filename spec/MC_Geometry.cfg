SPECIFICATION Spec
CONSTANT Deep = FALSE
INVARIANTS AnglesOk CCW Closure NormalsOutward SurfaceAxes TurnLaw AreaLaw VShadeAreas InvEmit
CHECK_DEADLOCK FALSE
