------------------------------- MODULE Num -------------------------------
(***************************************************************************)
(* Arithmetic helpers shared by every specification of cteenergymodel.    *)
(* TLA+ has no reals and TLC integers are 32 bit, so quantities are       *)
(* fixed-point integers whose scale is stated where they are used, and    *)
(* exact rationals [n, d] compared by cross multiplication.               *)
(***************************************************************************)
EXTENDS Integers, Sequences, FiniteSets, SequencesExt

Abs(a) == IF a < 0 THEN -a ELSE a
Max2(a, b) == IF a >= b THEN a ELSE b
Min2(a, b) == IF a <= b THEN a ELSE b

\* Sum of f(e) over the elements of a sequence (iterative: FoldLeft has a Java override)
SumSeq(s, f(_)) == FoldLeft(LAMBDA acc, e : acc + f(e), 0, s)
\* Sum of f(e) over a finite set: MapThenSumSet(f, S) from FiniteSetsExt

MaxSeq(s, f(_), dflt) == FoldLeft(LAMBDA acc, e : IF acc = dflt THEN f(e) ELSE Max2(acc, f(e)), dflt, s)
MinSeq(s, f(_), dflt) == FoldLeft(LAMBDA acc, e : IF acc = dflt THEN f(e) ELSE Min2(acc, f(e)), dflt, s)

\* Range(s) (the set of elements of a sequence) comes from Functions via SequencesExt

\* Euclidean-style rounding division for non-negative numerators: round(n / d), d > 0
RoundDiv(n, d) == IF n >= 0 THEN (2 * n + d) \div (2 * d) ELSE -((2 * (-n) + d) \div (2 * d))

\* Exact rationals
Q(n, d) == [n |-> n, d |-> d]
QLe(a, b) == a.n * b.d <= b.n * a.d        \* denominators positive
QLt(a, b) == a.n * b.d <  b.n * a.d
QEq(a, b) == a.n * b.d =  b.n * a.d
QAdd(a, b) == Q(a.n * b.d + b.n * a.d, a.d * b.d)
QMul(a, b) == Q(a.n * b.n, a.d * b.d)


(***************************************************************************)
(* Unbounded naturals ("Big"): little-endian sequences of base-10^4 digits.*)
(* TLC integers are 32 bit and abort on overflow; sums of products of      *)
(* fixed-point quantities (area x U x multiplier, five-factor solar gains) *)
(* are therefore accumulated as Bigs. All operands are non-negative; signs *)
(* are handled by the callers with two accumulators.                       *)
(***************************************************************************)
BASE == 10000
RECURSIVE BigOf(_)
BigOf(n) == IF n < BASE THEN <<n>> ELSE <<n % BASE>> \o BigOf(n \div BASE)
RECURSIVE BigNorm(_)
BigNorm(a) == IF Len(a) > 1 /\ a[Len(a)] = 0 THEN BigNorm(SubSeq(a, 1, Len(a) - 1)) ELSE a
BigZero == <<0>>
Dig(a, i) == IF i <= Len(a) THEN a[i] ELSE 0
RECURSIVE BigAddC(_, _, _, _)
BigAddC(a, b, i, c) ==
  IF i > Len(a) /\ i > Len(b) THEN (IF c = 0 THEN <<>> ELSE <<c>>)
  ELSE LET t == Dig(a, i) + Dig(b, i) + c IN <<t % BASE>> \o BigAddC(a, b, i + 1, t \div BASE)
BigAdd(a, b) == BigNorm(BigAddC(a, b, 1, 0))
\* multiply by an ordinary natural k <= 200000 (digit * k + carry stays below 2^31)
RECURSIVE BigMulSmallC(_, _, _, _)
BigMulSmallC(a, k, i, c) ==
  IF i > Len(a) THEN (IF c = 0 THEN <<>> ELSE BigOf(c))
  ELSE LET t == a[i] * k + c IN <<t % BASE>> \o BigMulSmallC(a, k, i + 1, t \div BASE)
BigMulSmall(a, k) == BigNorm(IF k = 0 THEN BigZero ELSE BigMulSmallC(a, k, 1, 0))
Shift(a, n) == [i \in 1..n |-> 0] \o a
RECURSIVE BigMulAcc(_, _, _)
BigMulAcc(a, b, i) == IF i > Len(b) THEN BigZero
                      ELSE BigAdd(Shift(BigMulSmall(a, b[i]), i - 1), BigMulAcc(a, b, i + 1))
BigMul(a, b) == BigNorm(BigMulAcc(a, b, 1))
\* product of ordinary naturals as a Big
BigProd2(x, y) == BigMul(BigOf(x), BigOf(y))
BigProd3(x, y, z) == BigMul(BigProd2(x, y), BigOf(z))
RECURSIVE BigCmpAt(_, _, _)
BigCmpAt(a, b, i) == IF i = 0 THEN 0 ELSE IF a[i] < b[i] THEN -1 ELSE IF a[i] > b[i] THEN 1 ELSE BigCmpAt(a, b, i - 1)
BigCmp(a, b) == LET x == BigNorm(a) y == BigNorm(b) IN
                IF Len(x) < Len(y) THEN -1 ELSE IF Len(x) > Len(y) THEN 1 ELSE BigCmpAt(x, y, Len(x))
BigLe(a, b) == BigCmp(a, b) <= 0
BigLt(a, b) == BigCmp(a, b) < 0
\* |a - b| <= t  for Bigs
BigNear(a, b, t) == BigLe(a, BigAdd(b, t)) /\ BigLe(b, BigAdd(a, t))
\* Sum over a sequence of Big-valued f(e)
BigSumSeq(s, f(_)) == FoldLeft(LAMBDA acc, e : BigAdd(acc, f(e)), BigZero, s)
\* floor(a / k) for an ordinary k in 1..200000 (long division from the top digit)
RECURSIVE BigDivSmallAt(_, _, _, _)
BigDivSmallAt(a, k, i, r) ==
  IF i = 0 THEN <<>>
  ELSE LET t == r * BASE + a[i] IN BigDivSmallAt(a, k, i - 1, t % k) \o <<t \div k>>
BigDivSmall(a, k) == BigNorm(BigDivSmallAt(a, k, Len(a), 0))

\* |x - y| <= tol
Near(x, y, tol) == Abs(x - y) <= tol
\* |n1/d1 - n2/d2| <= tn/td  by cross multiplication is too wide for 32 bit in general; the
\* comparisons used by the trace specifications are of the form |v * D - N| <= tol * D.
NearRatio(v, N, D, tol) == Abs(v * D - N) <= tol * D
===========================================================================
