------------------------------- MODULE Convert -------------------------------
(***************************************************************************)
(* C02. Conversion of a HULC project (named definitions + references by    *)
(* name) into a model (ids + references by id), stage by stage in the      *)
(* order of Data::new / Model::try_from. A project is abstracted to the    *)
(* set of its reference edges, each resolved or broken (it names no        *)
(* definition of the required kind in the file or the embedded catalogue). *)
(* Required: a project with a broken live reference is rejected with an    *)
(* error by the stage that resolves it; otherwise the result is a closed   *)
(* model with unique ids, whose ids are a function of the definitions      *)
(* (adding an unrelated definition changes none).                          *)
(***************************************************************************)
EXTENDS ModelGraph, TLC

EdgeKinds == {"space->polygon", "wall->construction", "wall->polygon", "wall->nextto", "construction->layers",
              "layers->material", "window->gap", "gap->glass", "gap->frame", "space->spaceconds",
              "space->systemconds", "spaceconds->schedule", "systemconds->schedule", "year->week", "week->day"}
Stages == <<"parse", "cons", "spaces", "walls", "windows", "schedules", "loads", "thermostats", "done">>
\* the stage that resolves each kind of edge
StageOf(k) == CASE k \in {"space->polygon", "wall->construction", "wall->polygon", "construction->layers"} -> "parse"
                [] k \in {"layers->material", "gap->glass", "gap->frame"} -> "cons"
                [] k \in {"space->spaceconds", "space->systemconds"} -> "spaces"
                [] k \in {"wall->nextto"} -> "walls"
                [] k \in {"window->gap"} -> "windows"
                [] k \in {"year->week", "week->day"} -> "schedules"
                [] k = "spaceconds->schedule" -> "loads"
                [] k = "systemconds->schedule" -> "thermostats"

CONSTANT MaxBroken
VARIABLES broken,    \* set of broken live edge kinds of the project
          stage,     \* index into Stages
          outcome,   \* "running" | "err" | "model"
          ids, extra \* name -> id of the definitions ; number of unrelated definitions added
vars == <<broken, stage, outcome, ids, extra>>

Names == {"a", "b", "c"}
H(n) == <<"id-of", n>>              \* an id is a function of the element's own definition

Init == /\ broken \in { S \in SUBSET EdgeKinds : Cardinality(S) <= MaxBroken }
        /\ stage = 1 /\ outcome = "running" /\ ids = [n \in Names |-> H(n)] /\ extra = 0
RunStage == /\ outcome = "running" /\ Stages[stage] # "done"
            /\ IF \E k \in broken : StageOf(k) = Stages[stage]
               THEN outcome' = "err" /\ stage' = stage
               ELSE outcome' = outcome /\ stage' = stage + 1
            /\ UNCHANGED <<broken, ids, extra>>
Finish == /\ outcome = "running" /\ Stages[stage] = "done" /\ outcome' = "model" /\ UNCHANGED <<broken, stage, ids, extra>>
AddUnrelated == /\ extra < 2 /\ extra' = extra + 1 /\ ids' = [n \in Names |-> H(n)] /\ UNCHANGED <<broken, stage, outcome>>
Next == RunStage \/ Finish \/ AddUnrelated
Spec == Init /\ [][Next]_vars /\ WF_vars(RunStage \/ Finish)

BrokenIsRejected == outcome = "model" => broken = {}
IntactIsConverted == outcome = "err" => broken # {}
RejectedByResolvingStage == outcome = "err" => \E k \in broken : StageOf(k) = Stages[stage]
IdStable == [][ids' = ids]_vars
Terminates == <>(outcome # "running")
=============================================================================
