----------------------------- MODULE Trace_Faults -----------------------------
(***************************************************************************)
(* Trace validation for C19: one FaultRow per (file, kind) with the lines   *)
(* that were damaged and the outcome code of each. Checks that every        *)
(* outcome is allowed and that the executed set is the planned set (so      *)
(* "exhaustive" is itself validated).                                       *)
(***************************************************************************)
EXTENDS Integers, Sequences, FiniteSets, Json, IOUtils, TLC
Rec == ndJsonDeserialize(IOEnv.TRACE)
VARIABLE l
Ev == Rec[l]
Chk(name, cond) == IF cond THEN TRUE ELSE PrintT(<<"FAIL", l, "C19", name>>)
Kinds == {"DeleteLine", "DuplicateLine", "RemoveBlockAt", "RenameReferenceAt", "NumberToText", "NumberOutOfRange", "TruncateAfter"}
Allowed(code) == code \in {-1, 0, 1}
TRow == /\ l <= Len(Rec) /\ Ev.ev = "FaultRow" /\ l' = l + 1
        /\ Chk("KnownFaultKind", Ev.kind \in Kinds)
        /\ Chk("ExecutedSetIsPlannedSet", Ev.lines = Ev.planned /\ Len(Ev.codes) = Len(Ev.lines))
        /\ Chk("PlannedLinesInsideFile", \A i \in DOMAIN Ev.planned : Ev.planned[i] >= 0 /\ Ev.planned[i] < Ev.nlines)
        /\ Chk("NeverCrashesOrHangs", \A i \in DOMAIN Ev.codes : Allowed(Ev.codes[i]))
        /\ Chk("BadListConsistent", (Ev.bad = <<>>) = (\A i \in DOMAIN Ev.codes : Allowed(Ev.codes[i])))
TraceSpec == l = 1 /\ [][TRow]_l
Accepted == \/ TLCGet("stats").diameter - 1 = Len(Rec)
            \/ Print(<<"UNMATCHED", TLCGet("stats").diameter>>, FALSE)
=============================================================================
