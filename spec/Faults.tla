-------------------------------- MODULE Faults --------------------------------
(***************************************************************************)
(* C19. Damage model for project files.                                    *)
(*   Plan      : every (file, line, kind) with kind one of the seven single *)
(*               edits; a tier executes a residue class of the lines        *)
(*   life cycle: Intact -Damage-> Damaged -Parse-> Parsed | Rejected        *)
(*               Parsed -Convert-> Converted | Rejected                     *)
(*   Crashed and Hung are states no action leads to.                        *)
(***************************************************************************)
EXTENDS Integers, Sequences, FiniteSets, TLC

Kinds == {"DeleteLine", "DuplicateLine", "RemoveBlockAt", "RenameReferenceAt", "NumberToText", "NumberOutOfRange", "TruncateAfter"}
States == {"Intact", "Damaged", "Parsed", "Converted", "Rejected", "Crashed", "Hung"}

CONSTANTS Files, Lines      \* Lines: file -> number of lines
VARIABLES file, line, kind, state
vars == <<file, line, kind, state>>

Init == file \in Files /\ line = 0 /\ kind = "none" /\ state = "Intact"
Damage == /\ state = "Intact"
          /\ \E l \in 0..(Lines[file] - 1), k \in Kinds : line' = l /\ kind' = k
          /\ state' = "Damaged" /\ UNCHANGED file
Parse == state = "Damaged" /\ state' \in {"Parsed", "Rejected"} /\ UNCHANGED <<file, line, kind>>
Convert == state = "Parsed" /\ state' \in {"Converted", "Rejected"} /\ UNCHANGED <<file, line, kind>>
Next == Damage \/ Parse \/ Convert
Spec == Init /\ [][Next]_vars /\ WF_vars(Next)

NeverCrashesOrHangs == state \notin {"Crashed", "Hung"}
Decided == <>(state \in {"Converted", "Rejected"})
\* outcome codes of the recorder: -1 edit not applicable at that line, 0 converted, 1 rejected, 2 crashed, 3 hung, 4 died
Allowed(code) == code \in {-1, 0, 1}
=============================================================================
