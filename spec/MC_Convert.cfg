SPECIFICATION Spec
CONSTANTS MaxBroken = 2
INVARIANTS BrokenIsRejected IntactIsConverted RejectedByResolvingStage
PROPERTIES IdStable Terminates
CHECK_DEADLOCK FALSE
