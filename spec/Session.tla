------------------------------- MODULE Session -------------------------------
(***************************************************************************)
(* Life cycle of a building model inside one process (the web editor's and *)
(* the library's view): the model is built element by element, links can   *)
(* be redirected, it is checked, purged and evaluated.                     *)
(*                                                                         *)
(* Static questions take their models from a canonical construction order  *)
(* (kinds in the order of Phases, ids increasing), which collapses the n!  *)
(* interleavings of independent additions into one behaviour.              *)
(*                                                                         *)
(* Required behaviour (what the implementation is held to by the trace     *)
(* specification Trace_Session):                                           *)
(*   Check   : reports CheckSpec(m), leaves m unchanged                    *)
(*   Purge   : m' = PurgeSpec(m)                                           *)
(*   Compute : total; never poisons the process-wide lock; reports the     *)
(*             indicators that Indicators.tla defines                      *)
(* Theorems of the design checked here on every reachable model: purge as  *)
(* implemented (ten ordered steps) = purge as specified (reachability),    *)
(* idempotence, closure and warnings preserved, no indicator changed by    *)
(* purge, K independent of element order.                                  *)
(***************************************************************************)
EXTENDS Indicators, TLC, Json

CONSTANTS
  MaxN,          \* record: kind -> maximal number of elements of that kind
  BadRefs,       \* extra targets a link may take besides the existing ids: subset of {Nil, Dangling}
  WallBounds, WallTilts, WallOrients, WallU, SpaceInside, SpaceKinds, SpaceMults,
  OvU,           \* possible user overrides of a wall U (None = no override)
  TbSigns,
  EmitCases,     \* TRUE: print every completed model as a replayable case
  ReadyOps       \* FALSE: behaviours end when the model is complete (case generation by simulation)

Dangling == 99

VARIABLES m, phase, lock
vars == <<m, phase, lock>>

Phases == <<"days", "weeks", "years", "loads", "therms", "materials", "glasses", "frames",
            "wallcons", "wincons", "spaces", "walls", "windows", "tbs", "ready">>
Kind == Phases[phase]
NextId(s) == Len(s) + 1
Refs(s) == Ids(s) \cup BadRefs
OptRefs(s) == Ids(s) \cup BadRefs \cup {None}

Template(kind, id) ==
  CASE kind = "days"      -> { [id |-> id] }
    [] kind = "weeks"     -> { [id |-> id, days |-> <<d>>] : d \in Refs(m.days) }
    [] kind = "years"     -> { [id |-> id, weeks |-> <<w>>] : w \in Refs(m.weeks) }
    [] kind = "loads"     -> { [id |-> id, people |-> p, equip |-> None, light |-> e] :
                                 p \in OptRefs(m.years), e \in {None} \cup Ids(m.years) }
    [] kind = "therms"    -> { [id |-> id, tmax |-> t, tmin |-> None] : t \in OptRefs(m.years) }
    [] kind = "materials" -> { [id |-> id] }
    [] kind = "glasses"   -> { [id |-> id] }
    [] kind = "frames"    -> { [id |-> id] }
    [] kind = "wallcons"  -> { [id |-> id, mats |-> <<a>>, thick |-> 3000] : a \in Refs(m.materials) }
    [] kind = "wincons"   -> { [id |-> id, glass |-> g, frame |-> f, c100 |-> 2700, ff |-> 2500, g |-> 6000] :
                                 g \in Refs(m.glasses), f \in Refs(m.frames) }
    [] kind = "spaces"    -> { [id |-> id, loads |-> ld, therm |-> th, inside |-> ins, kind |-> k, mult |-> mu, h |-> 30000] :
                                 ld \in OptRefs(m.loads), th \in OptRefs(m.therms),
                                 ins \in SpaceInside, k \in SpaceKinds, mu \in SpaceMults }
    [] kind = "walls"     -> { [id |-> id, space |-> s, cons |-> c, next |-> n, bounds |-> b, tilt |-> t,
                                orient |-> o, area |-> 100000, u |-> u, uov |-> ov] :
                                 s \in Refs(m.spaces), c \in Refs(m.wallcons),
                                 n \in (IF "INTERIOR" \in WallBounds THEN OptRefs(m.spaces) ELSE {None}),
                                 b \in WallBounds, t \in WallTilts, o \in WallOrients, u \in WallU, ov \in OvU }
    [] kind = "windows"   -> { [id |-> id, wall |-> w, cons |-> c, area |-> 20000, u |-> 25000] :
                                 w \in Refs(m.walls), c \in Refs(m.wincons) }
    [] kind = "tbs"       -> { [id |-> id, lsign |-> s, l |-> IF s = 0 THEN 0 ELSE 50000, psi |-> 1000, psineg |-> FALSE, kind |-> "GENERIC"] :
                                 s \in TbSigns }

Init == m = EmptyModel /\ phase = 1 /\ lock = "free"

Add == /\ Kind # "ready"
       /\ Len(m[Kind]) < MaxN[Kind]
       /\ \E e \in Template(Kind, NextId(m[Kind])) : m' = [m EXCEPT ![Kind] = Append(@, e)]
       /\ UNCHANGED <<phase, lock>>
NextPhase == Kind # "ready" /\ phase' = phase + 1 /\ UNCHANGED <<m, lock>>

\* the library operations on a completed model
Check   == Kind = "ready" /\ UNCHANGED <<m, phase, lock>>              \* reports CheckSpec(m); m unchanged
Purge   == Kind = "ready" /\ m' = PurgeSpec(m) /\ UNCHANGED <<phase, lock>>
Compute == Kind = "ready" /\ UNCHANGED <<m, phase, lock>>              \* total, pure: the lock stays free

Next == Add \/ NextPhase \/ (ReadyOps /\ (Check \/ Purge \/ Compute))
Spec == Init /\ [][Next]_vars

(***************************************************************************)
(* What the implementation would report for m (the specification's own     *)
(* derivation of the per-element properties), used to state theorems about *)
(* the indicators on the design level.                                     *)
(***************************************************************************)
DerivedProps(x) ==
  [ spaces |-> [i \in DOMAIN x.spaces |-> [area |-> SpaceAreaOf(x, x.spaces[i]), hnet |-> x.spaces[i].h]],
    walls  |-> [i \in DOMAIN x.walls |->
                  [tenv |-> Tenv(x, x.walls[i]), mult |-> MultOf(x, x.walls[i]),
                   anet |-> x.walls[i].area - WinAreaOf(x, x.walls[i]), anetbad |-> FALSE,
                   u |-> x.walls[i].u, uov |-> x.walls[i].uov,
                   tilt |-> x.walls[i].tilt, orient |-> OrientOf(x.walls[i])]],
    wins   |-> [j \in DOMAIN x.windows |->
                  LET v == x.windows[j] IN
                  IF Has(x.walls, v.wall)
                  THEN LET w == x.walls[IdxOf(x.walls, v.wall)] IN
                       [tenv |-> Tenv(x, w), mult |-> MultOf(x, w), u |-> v.u, uov |-> None,
                        fsh |-> None, fshov |-> None, bounds |-> w.bounds, tilt |-> w.tilt, orient |-> OrientOf(w)]
                  ELSE [tenv |-> FALSE, mult |-> 100, u |-> v.u, uov |-> None, fsh |-> None, fshov |-> None,
                        bounds |-> "EXTERIOR", tilt |-> "SIDE", orient |-> "S"]],
    wincons |-> [k \in DOMAIN x.wincons |-> [c100 |-> x.wincons[k].c100, g |-> x.wincons[k].g, ff |-> x.wincons[k].ff]] ]

HTest == [o \in {"N", "NE", "E", "SE", "S", "SW", "W", "NW", "HZ"} |-> IF o = "HZ" THEN 20000 ELSE 9000]
IndVector(x) ==
  LET p == DerivedProps(x) IN
  << ARefBig(x, p), VolGrossBig(x, p), VolNetBig(x, p), ExposedBig(x), KArea(x, p), KAUPos(x, p), KAUNeg(x),
     AoBig(x, p), AhBig(x, p), ChAhBig(x, p), QArea(x, p, "all"), QGains(x, p, HTest, "all") >>

Reversed(x) == [x EXCEPT !.walls = Reverse(@), !.windows = Reverse(@), !.spaces = Reverse(@), !.tbs = Reverse(@)]

(******************************* invariants ********************************)
Ready == Kind = "ready"
TypeOK == phase \in DOMAIN Phases /\ lock \in {"free", "poisoned"}
NeverPoisoned == lock = "free"
InvPurgeImplIsSpec   == PurgeImplIsSpec(m)
InvPurgeIdempotent   == PurgeIdempotent(m)
InvPurgeKeepsClosure == PurgeKeepsClosure(m)
InvPurgeKeepsWarnings == PurgeKeepsWarnings(m)
InvClosedNoWarnings  == ClosedNoWarnings(m)
InvRemovedUnused     == RemovedSpacesUnused(m)
InvPurgeKeepsIndicators == (Ready /\ AllUnique(m)) => IndVector(PurgeSpec(m)) = IndVector(m)
\* (a space under several ceilings of different thickness takes its net height from the first one in model order: the
\*  code's documented simplification, modelled as it is and recorded as a known finding of C08)
InvOrderIndependent  == (Ready /\ AllUnique(m) /\ ~SeveralCeilings(m)) => IndVector(Reversed(m)) = IndVector(m)
\* the envelope rule never counts an element whose space is unknown
InvTenvNeedsSpace == \A i \in DOMAIN m.walls :
     (m.walls[i].bounds # "INTERIOR" /\ ~Has(m.spaces, m.walls[i].space)) => ~Tenv(m, m.walls[i])
\* every completed model is an implementation test (B1): printed once per distinct state
InvEmit == (EmitCases /\ Ready) => PrintT(<<"CASE", ToJson(m)>>)

\* witnesses (vacuity control): TLC must VIOLATE these
WitnessPurgeRemoves == ~(Ready /\ PurgeSpec(m) # m)
WitnessBroken       == ~(Ready /\ CheckSpec(m) # <<>>)
WitnessEnvelope     == ~(Ready /\ KArea(m, DerivedProps(m)) # BigZero)
=============================================================================
