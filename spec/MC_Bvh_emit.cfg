SPECIFICATION Spec
CONSTANTS
  Variant = "fixed"
  Boxes <- Boxes_
  Rays <- Rays_
  LeafSizes <- LeafSizes_
  MaxLen = 4
INVARIANTS InvEmit NoPanic Bounded AllKept AccEqLin LeavesOk
CHECK_DEADLOCK FALSE
