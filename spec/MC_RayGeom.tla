------------------------------ MODULE MC_RayGeom ------------------------------
(* Enumeration of (polygon, target, direction, k, pose): each state is a case; *)
(* every case is printed with the expected answer and replayed into            *)
(* WallGeom::intersects.                                                       *)
EXTENDS RayGeom, Json
Polys == << << <<0, 0>>, <<8, 0>>, <<8, 6>>, <<0, 6>> >>,                                              \* rectangle 4 x 3
            << <<0, 0>>, <<8, 0>>, <<8, 4>>, <<4, 4>>, <<4, 8>>, <<0, 8>> >>,                          \* L
            << <<0, 0>>, <<12, 0>>, <<12, 8>>, <<8, 8>>, <<8, 4>>, <<4, 4>>, <<4, 8>>, <<0, 8>> >>,    \* U
            << <<0, 0>>, <<10, 0>>, <<4, 8>> >>,                                                        \* triangle
            << <<0, 0>>, <<8, 6>>, <<0, 12>>, <<4, 6>> >> >>                                            \* dart (non convex)
Targets == { <<x, y>> : x \in {-1, 1, 3, 5, 7, 9, 11}, y \in {-1, 1, 3, 5, 7, 9} }
Dirs == { <<0, 1, 0>>, <<1, 2, -1>>, <<-2, 1, 3>>, <<3, 0, -1>>, <<0, 0, 1>>, <<1, -1, 0>> }
Ks == {-2, 1, 3}
Tilts == { <<0, 1, 1>>, <<1, 0, 1>>, <<-1, 0, 1>>, <<4, 3, 5>>, <<-3, 4, 5>> }
Azs == { <<1, 0, 1>>, <<0, 1, 1>>, <<-1, 0, 1>>, <<4, 3, 5>>, <<3, -4, 5>>, <<-12, 5, 13>> }
\* targets level with the corners (even doubled coordinates), inside and far outside the polygon: the crossing test must
\* treat a corner level with the point consistently whichever corner the polygon is listed from
LevelTargets == { <<x, y>> : x \in {-6, -2, 0, 2, 3, 4, 6, 8, 10, 12, 16}, y \in {0, 4, 6, 8, 12} }
Shift(p, s) == [i \in 1..Len(p) |-> p[((i + s - 1) % Len(p)) + 1]]
\* the same outline listed clockwise (what is hit does not depend on the sense in which the corners are listed)
Rev(p) == [i \in 1..Len(p) |-> p[Len(p) + 1 - i]]
VARIABLE c
Init == \/ c \in [poly : { Polys[i] : i \in DOMAIN Polys }, q : Targets, D : Dirs, k : Ks, tilt : Tilts, az : Azs]
        \/ \E i \in DOMAIN Polys : \E s \in 0..(Len(Polys[i]) - 1) :
              c \in [poly : { Shift(Polys[i], s) }, q : LevelTargets, D : { <<0, 1, 0>>, <<0, 0, 1>>, <<-2, 1, 3>> }, k : {1},
                     tilt : { <<0, 1, 1>>, <<1, 0, 1>>, <<4, 3, 5>> }, az : { <<1, 0, 1>>, <<3, -4, 5>> }]
        \/ \E i \in DOMAIN Polys : \E s \in {0, 1} :
              c \in [poly : { Shift(Rev(Polys[i]), s) }, q : Targets, D : Dirs, k : {-2, 1},
                     tilt : { <<0, 1, 1>>, <<4, 3, 5>>, <<-1, 0, 1>> }, az : { <<1, 0, 1>>, <<3, -4, 5>> }]
Next == UNCHANGED c
Spec == Init /\ [][Next]_c
InvEmit == OnOutline(c.q, c.poly) \/ PrintT(<<"CASE", ToJson([c |-> c, hit |-> Hit(c), parallel |-> Dot(c.D, Normal(c.tilt, c.az)) = 0])>>)
=============================================================================
