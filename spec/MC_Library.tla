----------------------------- MODULE MC_Library -----------------------------
(* Catalogues built definition by definition (names unique per kind, as the  *)
(* catalogue reader keeps one definition per name), then converted.          *)
EXTENDS Library, Json
CONSTANTS MaxDefs
VARIABLES cat, lib, phase
vars == <<cat, lib, phase>>
MatNames == {"ma", "mb"}
GlaNames == {"ga"}
FraNames == {"fa"}
Groups == {"G1", "G2"}
Empty == [mats |-> <<>>, lays |-> <<>>, glas |-> <<>>, fras |-> <<>>, gaps |-> <<>>]
Size(c) == Len(c.mats) + Len(c.lays) + Len(c.glas) + Len(c.fras) + Len(c.gaps)
Init == cat = Empty /\ lib = LibOf(Empty) /\ phase = "build"
AddMat == \E n \in MatNames \ Names(cat.mats), g \in Groups, k \in {"P", "R"} :
            cat' = [cat EXCEPT !.mats = Append(@, [name |-> n, group |-> g, kind |-> k, vals |-> <<"1">>])]
AddGla == \E n \in GlaNames \ Names(cat.glas), g \in Groups : cat' = [cat EXCEPT !.glas = Append(@, [name |-> n, group |-> g, vals |-> <<"2">>])]
AddFra == \E n \in FraNames \ Names(cat.fras), g \in Groups : cat' = [cat EXCEPT !.fras = Append(@, [name |-> n, group |-> g, vals |-> <<"3">>])]
AddLay == \E n \in {"la", "lb"} \ Names(cat.lays), g \in Groups, ms \in ({ <<a>> : a \in MatNames \cup {"zz"} } \cup { <<a, b>> : a, b \in MatNames \cup {"zz"} }) :
            cat' = [cat EXCEPT !.lays = Append(@, [name |-> n, group |-> g, mats |-> ms, ths |-> [i \in DOMAIN ms |-> "t"]])]
AddGap == \E n \in {"ha"} \ Names(cat.gaps), g \in Groups, gl \in GlaNames \cup {"zz"}, fr \in FraNames \cup {"zz"} :
            cat' = [cat EXCEPT !.gaps = Append(@, [name |-> n, group |-> g, glass |-> gl, frame |-> fr, vals |-> <<"4">>])]
Build == phase = "build" /\ Size(cat) < MaxDefs /\ (AddMat \/ AddGla \/ AddFra \/ AddLay \/ AddGap) /\ UNCHANGED <<lib, phase>>
Convert == phase = "build" /\ lib' = LibOf(cat) /\ phase' = "done" /\ UNCHANGED cat
Next == Build \/ Convert
Spec == Init /\ [][Next]_vars

Closed == phase = "done" => RefsClosed(lib)
Grouped == phase = "done" => GroupsPartition(lib)
Complete == phase = "done" => OneItemPerDefinition(cat, lib)
NilExact == phase = "done" => NilOnlyWhereUndefined(cat, lib)
InvEmit == (phase = "done" /\ Size(cat) > 0) => PrintT(<<"CASE", ToJson(cat)>>)
=============================================================================
