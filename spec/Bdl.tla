---------------------------------- MODULE Bdl ----------------------------------
(***************************************************************************)
(* C18. The block document of HULC / LIDER files.                          *)
(* An abstract document is a sequence of blocks [name, type]; a layout     *)
(* (line ends, indentation, comments, blank lines, number formats, list    *)
(* breaking, preamble) changes the text but not the document.              *)
(* Parent tracking is a state machine over the block sequence:             *)
(*   FLOOR            -> becomes the current floor, no parent              *)
(*   SPACE            -> parent = current floor, becomes current space     *)
(*   opaque elements  -> parent = current space, become current wall       *)
(*   WINDOW / DOOR / CONSTRUCTION -> parent = current wall                 *)
(*   anything else    -> no parent                                         *)
(***************************************************************************)
EXTENDS Integers, Sequences, FiniteSets, TLC

Opaque == {"EXTERIOR-WALL", "INTERIOR-WALL", "ROOF", "UNDERGROUND-WALL", "UNDERGROUND-FLOOR"}
Hanging == {"WINDOW", "DOOR", "CONSTRUCTION"}
NoParent == "-"

\* one step of the parent machine: state st = [floor, space, wall], block b = [name, type]
ParentOf(st, b) == IF b.type = "SPACE" THEN st.floor
                   ELSE IF b.type \in Opaque THEN st.space
                   ELSE IF b.type \in Hanging THEN st.wall
                   ELSE NoParent
StepState(st, b) == IF b.type = "FLOOR" THEN [st EXCEPT !.floor = b.name]
                    ELSE IF b.type = "SPACE" THEN [st EXCEPT !.space = b.name]
                    ELSE IF b.type \in Opaque THEN [st EXCEPT !.wall = b.name]
                    ELSE st
InitState == [floor |-> "Default", space |-> "", wall |-> ""]
RECURSIVE Parents(_, _)
Parents(st, doc) == IF doc = <<>> THEN <<>>
                    ELSE <<ParentOf(st, Head(doc))>> \o Parents(StepState(st, Head(doc)), Tail(doc))

(* The machine as a transition system (for model checking) *)
CONSTANTS Types, MaxLen
VARIABLES doc, st, parents
vars == <<doc, st, parents>>
Init == doc = <<>> /\ st = InitState /\ parents = <<>>
Consume == /\ Len(doc) < MaxLen
           /\ \E t \in Types :
                LET b == [name |-> "b" \o ToString(Len(doc) + 1), type |-> t] IN
                /\ doc' = Append(doc, b)
                /\ parents' = Append(parents, ParentOf(st, b))
                /\ st' = StepState(st, b)
Spec == Init /\ [][Consume]_vars

\* the incremental machine and the declarative definition agree
MachineIsParents == parents = Parents(InitState, doc)
\* structural consequences
WindowHangsFromLastWall == \A i \in DOMAIN doc : doc[i].type \in Hanging =>
     LET ws == { j \in 1..(i - 1) : doc[j].type \in Opaque } IN
     parents[i] = IF ws = {} THEN "" ELSE doc[CHOOSE j \in ws : \A k \in ws : k <= j].name
WallHangsFromLastSpace == \A i \in DOMAIN doc : doc[i].type \in Opaque =>
     LET ss == { j \in 1..(i - 1) : doc[j].type = "SPACE" } IN
     parents[i] = IF ss = {} THEN "" ELSE doc[CHOOSE j \in ss : \A k \in ss : k <= j].name
SpaceHangsFromLastFloor == \A i \in DOMAIN doc : doc[i].type = "SPACE" =>
     LET fs == { j \in 1..(i - 1) : doc[j].type = "FLOOR" } IN
     parents[i] = IF fs = {} THEN "Default" ELSE doc[CHOOSE j \in fs : \A k \in fs : k <= j].name
=============================================================================
