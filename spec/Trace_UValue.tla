----------------------------- MODULE Trace_UValue -----------------------------
(***************************************************************************)
(* Trace validation for C06 and C07. One event per case: the verdict of     *)
(* UValue.tla for the case (its kind, and the value(s) of its term(s) as    *)
(* evaluated by the term evaluator, in 10^-6 W/m2K) and what the real code  *)
(* reported (10^-4 W/m2K, -1 = no U-value). Real-model events carry the     *)
(* layer data and are recomputed here in exact (Big) arithmetic.            *)
(***************************************************************************)
EXTENDS Num, Json, IOUtils, TLC
Rec == ndJsonDeserialize(IOEnv.TRACE)
VARIABLE l
Ev == Rec[l]
IsEvent(e) == l <= Len(Rec) /\ Rec[l].ev = e /\ l' = l + 1
Chk(prop, name, cond) == IF cond THEN TRUE ELSE PrintT(<<"FAIL", l, prop, name>>)
None == -1

\* got in 10^-4, exp in 10^-6, tol in 10^-6
Close(got, exp, tol) == Abs(got * 100 - exp) <= tol
Judge(prop, ev, got, what) ==
  CASE ev.k = "none"    -> Chk(prop, "NoUValueWhenUnresolved" \o what, got = None)
    [] ev.k = "exact"   -> Chk(prop, "EqualsDefinition" \o what, got # None /\ Close(got, ev.exp, ev.tol))
    [] ev.k = "between" -> Chk(prop, "WithinSurfaceResistanceRange" \o what, got # None /\ got * 100 >= ev.lo - ev.tol /\ got * 100 <= ev.hi + ev.tol)
    [] OTHER -> TRUE
PropsJudge(prop, ev, got, what) ==
  CASE ev.k = "none"    -> Chk(prop, "DocumentedDefaultWhenUnresolved" \o what, got = 7700)
    [] ev.k = "exact"   -> Chk(prop, "EqualsDefinition" \o what, got # None /\ Close(got, ev.exp, ev.tol))
    [] OTHER -> TRUE

TWall == /\ IsEvent("UWall")
         /\ Chk("C06", "ComputationSucceeds", Ev.ok)
         /\ Ev.ok => /\ Judge("C06", Ev, Ev.got, "")
                     /\ Judge("C06", Ev, Ev.got_props, "InIndicators")
\* adding a layer / thickening one never increases U (air contact and partitions)
TMono == /\ IsEvent("UMono")
         /\ Chk("C06", "MoreInsulationNeverIncreasesU", Ev.thin = None \/ Ev.thick = None \/ Ev.thick <= Ev.thin)
TWin == /\ IsEvent("UWin")
        /\ Chk("C07", "ComputationSucceeds", Ev.ok)
        /\ Ev.ok => /\ Judge("C07", Ev.u, Ev.got_u, "U")
                    /\ Judge("C07", Ev.u, Ev.got_u_props, "UInIndicators")
                    /\ Judge("C07", Ev.gwi, Ev.got_gwi, "Gglwi")
                    /\ Judge("C07", Ev.gsh, Ev.got_gsh, "Gglshwi")
                    \* what the indicators use: the same values, and the documented default 0.77 where there is none
                    /\ PropsJudge("C07", Ev.gwi, Ev.got_gwi_props, "GglwiInIndicators")
                    /\ PropsJudge("C07", Ev.gsh, Ev.got_gsh_props, "GglshwiInIndicators")
                    \* U between glazing and frame values scaled by (1 + dU/100)
                    /\ Chk("C07", "UBetweenGlassAndFrame",
                           (Ev.u.k = "exact" /\ Ev.got_u # None) =>
                              LET lo == IF Ev.w.ug <= Ev.w.uf THEN Ev.w.ug ELSE Ev.w.uf
                                  hi == IF Ev.w.ug >= Ev.w.uf THEN Ev.w.ug ELSE Ev.w.uf
                              IN Ev.got_u * 100 >= lo * (100 + Ev.w.du) * 100 - 6000
                                 /\ Ev.got_u * 100 <= hi * (100 + Ev.w.du) * 100 + 6000)
\* a wall of a real model: r8 = resistance of each layer in 10^-8 m2K/W (e / lambda, or the given R),
\* tilt class, bounds, conditioning of both sides; recomputed exactly: U * (sum R + Rsi + Rse) = 1
RsiPair(ev) == \* surface resistances in 10^-2 : <<lo, hi>>
  CASE ev.bounds \in {"EXTERIOR", "ADIABATIC"} ->
         LET r == (CASE ev.tilt = "TOP" -> 10 [] ev.tilt = "SIDE" -> 13 [] OTHER -> 17) + 4 IN <<r, r>>
    [] ev.tilt = "SIDE" -> <<26, 26>>
    [] OTHER -> <<20, 34>>
TReal == /\ IsEvent("UReal")
         /\ Chk("C06", "NoUValueWhenUnresolved", Ev.resolves \/ Ev.got = None)
         /\ Chk("C06", "RealElementEqualsDefinition",
                (Ev.resolves /\ Ev.judged) =>
                   /\ Ev.got # None
                   /\ LET Rsum == BigSumSeq(Ev.r8, LAMBDA y : BigOf(y))
                          Rlo == BigAdd(Rsum, BigOf(RsiPair(Ev)[1] * 1000000))
                          Rhi == BigAdd(Rsum, BigOf(RsiPair(Ev)[2] * 1000000))
                          one == <<0, 0, 0, 1>>                                    \* 10^12
                      IN \* U * Rlo - tol <= 1 <= U * Rhi + tol   with tol = 0.0051 * R
                         /\ BigLe(BigMul(BigOf(Ev.got), Rlo), BigAdd(one, BigMulSmall(Rlo, 51)))
                         /\ BigLe(one, BigAdd(BigMul(BigOf(Ev.got), Rhi), BigMulSmall(Rhi, 51))))
TraceNext == TWall \/ TMono \/ TWin \/ TReal
TraceSpec == l = 1 /\ [][TraceNext]_l
Accepted == \/ TLCGet("stats").diameter - 1 = Len(Rec)
            \/ Print(<<"UNMATCHED", TLCGet("stats").diameter>>, FALSE)
=============================================================================
