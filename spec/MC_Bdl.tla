-------------------------------- MODULE MC_Bdl --------------------------------
EXTENDS Bdl, Json
Types_ == {"FLOOR", "SPACE", "EXTERIOR-WALL", "INTERIOR-WALL", "ROOF", "UNDERGROUND-WALL", "WINDOW", "CONSTRUCTION", "MATERIAL", "POLYGON"}
InvEmit == Len(doc) = MaxLen => PrintT(<<"CASE", ToJson([types |-> [i \in DOMAIN doc |-> doc[i].type]])>>)
=============================================================================
