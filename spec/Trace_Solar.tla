------------------------------ MODULE Trace_Solar ------------------------------
(* Trace validation for C20 against Solar.tla. *)
EXTENDS Solar, Json, IOUtils
Rec == ndJsonDeserialize(IOEnv.TRACE)
VARIABLE l
Ev == Rec[l]
IsEvent(e) == l <= Len(Rec) /\ Rec[l].ev = e /\ l' = l + 1
Chk(name, cond) == IF cond THEN TRUE ELSE PrintT(<<"FAIL", l, "C20", name>>)
A(v) == <<v[1], v[2], v[3]>>
\* a figure that is not a finite number is logged as -999999999
Fin(x) == x > -900000000
Orients == {"N", "NE", "E", "SE", "S", "SW", "W", "NW", "HZ"}

TNday == /\ IsEvent("Nday")
         /\ Chk("DayOfYearAgreesWithCalendar", Ev.md = N(Ev.d, Ev.m) /\ Ev.ymd = N(Ev.d, Ev.m))
\* sun direction: the implementation's altitude/azimuth pushed through its own ray_dir_to_sun
TSun == /\ IsEvent("SunVec")
        /\ LET d == A(Ev.decl)  w == A(Ev.hour)  p == A(Ev.lat)  D == SunDen(d, w, p) IN
           /\ Chk("SunDirectionIsFinite", Fin(Ev.got[1]) /\ Fin(Ev.got[2]) /\ Fin(Ev.got[3]))
           /\ Chk("SunDirectionAgreesWithSphericalAstronomy",
                  (Fin(Ev.got[1]) /\ Fin(Ev.got[2]) /\ Fin(Ev.got[3]) /\ SunUp(d, w, p) * 100 > D * 2) =>              \* sun at least ~1.1 degrees above the horizon
                     /\ Near4(Ev.got[1], SunEast(d, w, p), D, 12)
                     /\ Near4(Ev.got[2], SunNorth(d, w, p), D, 12)
                     /\ Near4(Ev.got[3], SunUp(d, w, p), D, 12))
TInc == /\ IsEvent("Incidence")
        /\ LET d == A(Ev.decl)  w == A(Ev.hour)  p == A(Ev.lat)  t == A(Ev.tilt)  a == A(Ev.az) IN
           /\ Chk("IncidenceAngleIsFinite", Fin(Ev.gotcos))
           \* the model's own outward normal (observed through the back-face test of a window in such a wall, nothing around):
           \* sunlit exactly when the cosine of the incidence angle is at least 0.01 (band 0.008 - 0.012 left undecided)
           /\ Chk("ModelNormalIsTheNormalOfTheIncidenceAngle",
                  ("front" \in DOMAIN Ev /\ Ev.front >= 0 /\ Fin(Ev.gotcos) /\ SunUp(d, w, p) * 100 > SunDen(d, w, p) * 2) =>   \* sun above the horizon
                     ((Ev.gotcos >= 120 => Ev.front = 1) /\ (Ev.gotcos <= 80 => Ev.front = 0)))
           /\ Chk("IncidenceIsAngleBetweenSunAndOutwardNormal",
                  Fin(Ev.gotcos) => Near4(Ev.gotcos, CosIncNum(d, w, p, t, a), SunDen(d, w, p) * NormDen(t, a), 12))
\* one day of the weather file, hour by hour (0.1 W/m2): horizontal surface = input when the sun is at least
\* 6 degrees up; downward-facing surface = albedo (0.2) x global horizontal; beam never negative
THours == /\ IsEvent("RadDay")
          /\ Chk("RadiationFiguresAreFinite", \A i \in DOMAIN Ev.hin : Fin(Ev.hin[i]) /\ Fin(Ev.hout[i]) /\ Fin(Ev.down[i]) /\ Fin(Ev.alt[i]))
          /\ Chk("HorizontalSurfaceReceivesHorizontalInput",
                 \A i \in DOMAIN Ev.hin : (Ev.alt[i] >= 600 /\ Fin(Ev.hin[i]) /\ Fin(Ev.hout[i])) =>
                      Abs(Ev.hout[i] - Ev.hin[i]) <= 2 + Ev.hin[i] \div 200)
          /\ Chk("DownwardSurfaceReceivesAlbedoTimesGlobal",
                 \A i \in DOMAIN Ev.hin : (Fin(Ev.hin[i]) /\ Fin(Ev.down[i])) => Abs(Ev.down[i] * 5 - Ev.hin[i]) <= 10 + Ev.hin[i] \div 200)
          /\ Chk("BeamNeverNegative", \A i \in DOMAIN Ev.minbeam : Ev.minbeam[i] >= 0)
\* the embedded tables
TZone == /\ IsEvent("Zone")
         /\ Chk("OneMetadataEntry", Ev.nmeta = 1)
         /\ Chk("JulyDaySeriesPresentAndOrdered", Len(Ev.julyhours) >= 10 /\ \A i \in 1..(Len(Ev.julyhours) - 1) : Ev.julyhours[i] < Ev.julyhours[i + 1])
         /\ Chk("JulyDayValuesSane", \A i \in DOMAIN Ev.julyalt : Ev.julyalt[i] > 0 /\ Ev.julyalt[i] <= 9000 /\ Ev.julydir[i] >= 0 /\ Ev.julydif[i] >= 0)
         /\ Chk("NineMonthlyEntries", { Ev.monthly[i].o : i \in DOMAIN Ev.monthly } = Orients /\ Len(Ev.monthly) = 9)
         /\ Chk("TwelveNonNegativeMonths", \A i \in DOMAIN Ev.monthly : Ev.monthly[i].n = 12 /\ Ev.monthly[i].min >= 0)
         /\ Chk("ZoneNameRoundTrips", Ev.roundtrip)
\* table = model for the zone whose weather file is shipped (0.01 kWh/m2; W/m2 for the July day)
TTable == /\ IsEvent("TableVsModel")
          /\ Chk("MonthlyTableEqualsRadiationModel", Fin(Ev.model) /\ Fin(Ev.table) /\ Abs(Ev.table - Ev.model) <= 2 + Ev.table \div 500)
TJuly == /\ IsEvent("JulyVsMet")
         /\ Chk("JulyDayTableEqualsWeatherFile", Ev.found /\ Abs(Ev.tdir - Ev.mdir) <= 1 /\ Abs(Ev.tdif - Ev.mdif) <= 1 /\ Abs(Ev.talt - Ev.malt) <= 20)
TraceNext == TNday \/ TSun \/ TInc \/ THours \/ TZone \/ TTable \/ TJuly
TraceSpec == l = 1 /\ [][TraceNext]_l
Accepted == \/ TLCGet("stats").diameter - 1 = Len(Rec)
            \/ Print(<<"UNMATCHED", TLCGet("stats").diameter>>, FALSE)
=============================================================================
