------------------------------- MODULE MC_Solar -------------------------------
EXTENDS Solar
VARIABLE x
Init == x = 0
Next == UNCHANGED x
Spec == Init /\ [][Next]_x
InvFamily == \A a \in Family : IsAngle(a)
InvUnitSun == UnitSun
InvNoon == NoonIsSouth
InvCalendar == CalendarOk
=============================================================================
