----------------------------- MODULE Trace_Convert -----------------------------
(***************************************************************************)
(* Trace validation for C02: one Convert event per conversion of a real,   *)
(* generated or mutated project. The closure of a resulting model is       *)
(* decided here, on the projected id graph, by ModelGraph!LinksClosed /    *)
(* AllUnique -- not by the implementation's own checker (whose verdict is  *)
(* logged and must agree).                                                 *)
(***************************************************************************)
EXTENDS Convert, Json, IOUtils

Rec == ndJsonDeserialize(IOEnv.TRACE)
VARIABLE l
Ev == Rec[l]
Chk(name, cond) == IF cond THEN TRUE ELSE PrintT(<<"FAIL", l, "C02", name>>)

TConvert ==
  /\ l <= Len(Rec) /\ Ev.ev = "Convert" /\ l' = l + 1
  /\ (Ev.outcome = "model") =>
        /\ Chk("ModelIsClosed", LinksClosed(Ev.graph))
        /\ Chk("IdsUniquePerCollection", AllUnique(Ev.graph) /\ ("shades" \in DOMAIN Ev.graph => UniqueIds(Ev.graph.shades)))
        /\ Chk("NoNilLinks", Ev.nil_links = 0 /\ NoNilLinks(Ev.graph))
        /\ Chk("CheckerReportsNothing", Ev.nwarnings = 0 /\ CheckSpec(Ev.graph) = <<>>)
  \* a project whose own (live) name reference is broken must be rejected with an error
  /\ Chk("BrokenReferenceRejectedWithError", (Ev.broken # "none" /\ Ev.live) => Ev.outcome = "err")
  \* an intact generated project converts
  /\ Chk("IntactProjectConverts", (Ev.broken = "none" /\ Ev.expect = "model") => Ev.outcome = "model")
TraceInit == l = 1 /\ broken = {} /\ stage = 1 /\ outcome = "running" /\ ids = <<>> /\ extra = 0
TraceSpec == TraceInit /\ [][TConvert /\ UNCHANGED vars]_<<l, vars>>
Accepted == \/ TLCGet("stats").diameter - 1 = Len(Rec)
            \/ Print(<<"UNMATCHED", TLCGet("stats").diameter>>, FALSE)
=============================================================================
