--------------------------- MODULE Trace_JsonFormat ---------------------------
(***************************************************************************)
(* Trace validation for C04: key presence of serialised instances against   *)
(* the extracted schema, and round trips of generated, shipped and          *)
(* converted models.                                                        *)
(***************************************************************************)
EXTENDS Integers, Sequences, FiniteSets, Json, IOUtils, TLC
Rec == ndJsonDeserialize(IOEnv.TRACE)
Schema == ndJsonDeserialize(IOEnv.SCHEMA)
VARIABLE l
Ev == Rec[l]
IsEvent(e) == l <= Len(Rec) /\ Rec[l].ev = e /\ l' = l + 1
Chk(name, cond) == IF cond THEN TRUE ELSE PrintT(<<"FAIL", l, "C04", name>>)
Row(s, f) == LET k == CHOOSE k \in DOMAIN Schema : Schema[k].struct = s /\ Schema[k].field = f IN Schema[k]
HasRow(s, f) == \E k \in DOMAIN Schema : Schema[k].struct = s /\ Schema[k].field = f
\* a rule the extractor does not know (a predicate of the code base with a new name) is judged by the round trips alone
KnownSkip == {"never", "empty", "none", "zero", "one", "true"}
\* an instance of a struct was serialised: each field was given a value of a known class
TKeys == /\ IsEvent("Keys")
         /\ Chk("KeyWrittenIffNotInSkipClass",
                \A n \in DOMAIN Ev.fields : LET f == Ev.fields[n] IN
                   (HasRow(Ev.struct, f.field) /\ Row(Ev.struct, f.field).skip \in KnownSkip)
                      => (f.present = (f.class # Row(Ev.struct, f.field).skip)))
         /\ Chk("EveryFieldKnownToTheSchema", \A n \in DOMAIN Ev.fields : HasRow(Ev.struct, Ev.fields[n].field))
TRound == /\ IsEvent("Roundtrip")
          /\ Chk("Loads", Ev.loads)
          /\ Ev.loads => /\ Chk("LoadedBackEqualInEveryField", Ev.debug_equal)
                         /\ Chk("SecondSerialisationIdentical", Ev.text_equal)
                         /\ Chk("ShippedFileSameJsonValue", (~Ev.shipped) \/ Ev.value_equal)
TraceSpec == l = 1 /\ [][TKeys \/ TRound]_l
Accepted == \/ TLCGet("stats").diameter - 1 = Len(Rec)
            \/ Print(<<"UNMATCHED", TLCGet("stats").diameter>>, FALSE)
=============================================================================
