------------------------------ MODULE MC_UValue ------------------------------
(* Enumeration of the case analysis: every case is one state; each is printed *)
(* with the specification's verdict and becomes one test of the real code.    *)
EXTENDS UValue, Json
Stacks_ == <<
  <<>>,                                                                      \* 1: no layers, R = 0
  << [t |-> "D", e |-> 200, lam |-> 500] >>,                                 \* 2: R = 0.4
  << [t |-> "D", e |-> 200, lam |-> 500], [t |-> "D", e |-> 50, lam |-> 40] >>,   \* 3: + insulation
  << [t |-> "R", r |-> 1800, e |-> 20] >>,                                   \* 4: resistance-only material
  << [t |-> "D", e |-> 100, lam |-> 2000], [t |-> "R", r |-> 15000, e |-> 50], [t |-> "D", e |-> 20, lam |-> 250] >>,
  << [t |-> "D", e |-> 200, lam |-> 500], [t |-> "D", e |-> 100, lam |-> 40] >>,  \* 6: thicker insulation than 3
  << [t |-> "D", e |-> 200, lam |-> 500], [t |-> "missing"] >>,              \* 7: a layer names a missing material
  << [t |-> "zero", e |-> 100] >>,                                           \* 8: conductivity 0
  << [t |-> "D", e |-> 120, lam |-> 500], [t |-> "R", r |-> 1800, e |-> 0], [t |-> "D", e |-> 50, lam |-> 40] >>,  \* 9: R layer of thickness 0
  << [t |-> "D", e |-> 200, lam |-> 500], [t |-> "missing"] >> >>            \* 10: as 7, the missing material entered with thickness 0
VARIABLES c, w, phase
Cases == [bounds : {"EXTERIOR", "ADIABATIC"}, tilt : {"TOP", "SIDE", "BOTTOM"}, stack : DOMAIN Stacks_, this : {"C"}, next : {"none"},
          vent : {"none"}, depth : {0}, perim : {FALSE}, glazed : {FALSE}, over : {FALSE}]
   \cup [bounds : {"INTERIOR"}, tilt : {"TOP", "SIDE", "BOTTOM"}, stack : DOMAIN Stacks_, this : {"C", "U", "N"},
         next : {"none", "dangling", "C", "U", "N"}, vent : {"own", "global", "none"}, depth : {0}, perim : {FALSE}, glazed : BOOLEAN, over : {FALSE}]
   \* ground contact: the space may be conditioned or not, and its west side may border another space (next) instead of
   \* being adiabatic (the exposed perimeter depends on both)
   \cup [bounds : {"GROUND"}, tilt : {"TOP", "SIDE", "BOTTOM"}, stack : DOMAIN Stacks_, this : {"C", "U"}, next : {"none", "C", "U"},
         \* (over: the space also owns a floor over outside air, beside the slab: the ground formulas speak of the slab alone)
         vent : {"none"}, depth : {-100, 0, 50, 150, 300, 400}, perim : BOOLEAN, glazed : {FALSE}, over : BOOLEAN]
WinCases == [ff : {0, 10, 20, 50, 100}, du : {0, 10, 25, 50}, ug : {60, 110, 320, 570}, uf : {60, 110, 320, 570}, g : {0, 30, 60, 85, 100},
             gsh : {-1, 0, 10, 45, 100}, glass : {"ok", "nil", "dangling"}, frame : {"ok", "nil", "dangling"}]
NoCase == [bounds |-> "-"]
Init == \/ (phase = "wall" /\ c \in Cases /\ w = NoCase)
        \/ (phase = "win" /\ w \in WinCases /\ c = NoCase)
Next == UNCHANGED <<c, w, phase>>
Spec == Init /\ [][Next]_<<c, w, phase>>
InvWinBounded == phase = "win" => ((w.glass = "ok" /\ w.frame = "ok") => WinBounded(w))
InvEmit == IF phase = "wall" THEN PrintT(<<"CASE", ToJson([kind |-> "wall", c |-> c, v |-> Verdict(c)])>>)
           ELSE PrintT(<<"CASE", ToJson([kind |-> "win", w |-> w, u |-> WinVerdict(w), gwi |-> GglwiVerdict(w), gsh |-> GglshwiVerdict(w)])>>)
=============================================================================
