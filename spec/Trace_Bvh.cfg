SPECIFICATION TraceSpec
CONSTANTS
  Variant = "fixed"
  Boxes = {}
  Rays = {}
  LeafSizes = {}
  MaxLen = 0
POSTCONDITION Accepted
CHECK_DEADLOCK FALSE
