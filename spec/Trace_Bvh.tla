----------------------------- MODULE Trace_Bvh -----------------------------
(***************************************************************************)
(* Trace validation of real BVH::build runs (hooks H1) and of ray queries  *)
(* against Bvh.tla. Every recorded construction must be a behaviour of the *)
(* specification: the same nodes with the same ids, kinds, sides, parents  *)
(* and sizes in the same order, the same attachment order, the same kind   *)
(* of root; every recorded query must agree with the exhaustive test and,  *)
(* for exact scenes (integer boxes, axis-parallel rays), with TreeHit on   *)
(* the specification's own tree.                                           *)
(* Monitor style: every line is consumed; failed obligations are printed.  *)
(***************************************************************************)
EXTENDS Bvh, Json, IOUtils

Rec == ndJsonDeserialize(IOEnv.TRACE)
VARIABLES l, diverged
tvars == <<vars, l, diverged>>

Ev == Rec[l]
IsEvent(e) == l <= Len(Rec) /\ Rec[l].ev = e /\ l' = l + 1
Chk(name, cond) == IF cond THEN TRUE ELSE PrintT(<<"FAIL", l, "C13", name>>)
\* once a construction has left the specification, its remaining events are not judged
Judge(name, cond) == IF diverged THEN TRUE ELSE Chk(name, cond)

TraceInit == /\ l = 1 /\ diverged = FALSE
             /\ input = <<>> /\ leaf = 1 /\ pc = "idle" /\ pending = <<>> /\ nodes = <<>> /\ nid = 0
             /\ bpend = <<>> /\ bdone = <<>> /\ root = NoTree

Box3(b) == [lo |-> <<b[1], b[2], b[3]>>, hi |-> <<b[4], b[5], b[6]>>]

\* a new construction begins: the recorded boxes are the input
TBegin == /\ IsEvent("BvhStart")
          /\ input' = [i \in DOMAIN Ev.boxes |-> Box3(Ev.boxes[i])]
          /\ leaf' = Ev.max
          /\ Chk("StartCount", Ev.n = Len(Ev.boxes))
          /\ pc' = "start" /\ pending' = <<>> /\ nodes' = <<>> /\ nid' = 0
          /\ bpend' = <<>> /\ bdone' = <<>> /\ root' = NoTree /\ diverged' = FALSE

\* a node was emitted: the specification takes its own step (Start or Split) and must emit the same.
\* Constructions over non-integer boxes (real models) are not followed step by step (a tie in the
\* 32-bit float mean may legitimately fall either way): only their local consistency is judged.
Loose == UNCHANGED <<vars, diverged>>
Emitted(kind) ==
  /\ (Start \/ Split)
  /\ LET e == nodes'[Len(nodes')] IN
     LET ok == /\ e.id = Ev.id /\ e.ty = kind
               /\ IF kind = "N"
                  THEN /\ Ev.n = Ev.nl + Ev.nr
                       /\ Len(pending'[Len(pending')].el) = Ev.nl
                       /\ Len(pending'[Len(pending') - 1].el) = Ev.nr
                  ELSE Len(e.el) = Ev.n
     IN /\ Judge(IF kind = "N" THEN "SplitAsSpecified" ELSE "LeafAsSpecified", ok)
        /\ diverged' = (diverged \/ ~ok)
TSplit == /\ IsEvent("BvhSplit")
          /\ Chk("SplitLeavesNoSideEmpty", Ev.nl > 0 /\ Ev.nr > 0 /\ Ev.nl + Ev.nr = Ev.n /\ Ev.n > leaf)
          /\ IF Ev.exact THEN pc \in {"start", "split"} /\ Emitted("N") ELSE Loose
TLeaf  == /\ IsEvent("BvhLeaf")
          /\ IF Ev.exact THEN pc \in {"start", "split"} /\ Emitted("L") ELSE Loose

TAttach == /\ IsEvent("BvhAttach")
           /\ IF Ev.exact
              THEN /\ InBuild /\ Len(nodes) > 1
                   /\ LET e == nodes[Len(nodes)] IN
                      Judge("AttachAsSpecified",
                            e.id = Ev.id /\ e.par = Ev.parent /\ e.side = Ev.side
                            /\ e.ty = (IF Ev.ty = "Leaf" THEN "L" ELSE "N"))
                   /\ Attach /\ UNCHANGED diverged
              ELSE Loose

TFinish == /\ IsEvent("BvhFinish")
           /\ Chk("RootExists", Ev.root # "none")
           /\ IF Ev.exact
              THEN /\ InBuild /\ Len(nodes) <= 1
                   /\ Finish
                   /\ Judge("RootAsSpecified",
                             Ev.root = (IF root'.ty = "L" THEN "leaf" ELSE IF root'.ty = "N" THEN "node" ELSE "none"))
                   /\ Judge("AllKept", SameBag(KeysOf(root'), [i \in DOMAIN input |-> i]))
                   /\ UNCHANGED diverged
              ELSE Loose

\* the construction did not finish (panic or watchdog): never allowed
TAbort == /\ IsEvent("BvhAbort")
          /\ Chk("BuildTerminatesWithoutPanic", FALSE)
          /\ pc' = "idle" /\ UNCHANGED <<input, leaf, pending, nodes, nid, bpend, bdone, root>>
          /\ diverged' = TRUE

\* queries on the finished structure: qs is a sequence of [o, a, d, acc, lin] (axis rays, exact) or
\* [acc, lin] (free rays)
RayOf(q) == [o |-> <<q.o[1], q.o[2], q.o[3]>>, a |-> q.a, d |-> q.d]
TQuery == /\ IsEvent("BvhQuery")
          /\ Chk("AcceleratedEqualsExhaustive", \A i \in DOMAIN Ev.qs : Ev.qs[i].acc = Ev.qs[i].lin)
          /\ Judge("AcceleratedEqualsSpecification",
                   (~Ev.exact) \/ pc # "done" \/
                   \A i \in DOMAIN Ev.qs : ("a" \in DOMAIN Ev.qs[i]) =>
                       /\ Ev.qs[i].acc = TreeHit(root, RayOf(Ev.qs[i]))
                       /\ Ev.qs[i].lin = LinearHit(Elems, RayOf(Ev.qs[i])))
          /\ UNCHANGED <<vars, diverged>>

\* an event of another family in the same file (e.g. polygon geometry) is not ours
TraceNext == TBegin \/ TSplit \/ TLeaf \/ TAttach \/ TFinish \/ TAbort \/ TQuery
TraceSpec == TraceInit /\ [][TraceNext]_tvars

Accepted ==
  \/ TLCGet("stats").diameter - 1 = Len(Rec)
  \/ Print(<<"UNMATCHED", TLCGet("stats").diameter>>, FALSE)
=============================================================================
