SPECIFICATION Spec
CONSTANTS
  Types <- Types_
  MaxLen = 5
INVARIANTS MachineIsParents WindowHangsFromLastWall WallHangsFromLastSpace SpaceHangsFromLastFloor InvEmit
CHECK_DEADLOCK FALSE
