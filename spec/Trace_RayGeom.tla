----------------------------- MODULE Trace_RayGeom -----------------------------
(* Trace validation for the geometric part of C13 against RayGeom.tla. *)
EXTENDS RayGeom, Json, IOUtils
Rec == ndJsonDeserialize(IOEnv.TRACE)
VARIABLE l
Ev == Rec[l]
IsEvent(e) == l <= Len(Rec) /\ Rec[l].ev = e /\ l' = l + 1
Chk(name, cond) == IF cond THEN TRUE ELSE PrintT(<<"FAIL", l, "C13", name>>)
T3(v) == <<v[1], v[2], v[3]>>
CaseOf(e) == [poly |-> [i \in DOMAIN e.poly |-> <<e.poly[i][1], e.poly[i][2]>>], q |-> <<e.q[1], e.q[2]>>,
              D |-> T3(e.D), k |-> e.k, tilt |-> T3(e.tilt), az |-> T3(e.az)]
TRay == /\ IsEvent("RayCase")
        /\ Chk("HitIffCrossesPlaneInFrontInsidePolygon", Ev.ok /\ Ev.got = Hit(CaseOf(Ev)))
        \* the reported parameter is the distance to the crossing point (mm)
        /\ Chk("HitDistance", (Ev.ok /\ Ev.got /\ Hit(CaseOf(Ev))) => AbsI(Ev.tgot - Ev.texp) <= 2)
TBox == /\ IsEvent("Aabb")
        /\ Chk("BoundingBoxContainsAllCorners",
               \A i \in DOMAIN Ev.corners : \A a \in 1..3 : Ev.lo[a] - 1 <= Ev.corners[i][a] /\ Ev.corners[i][a] <= Ev.hi[a] + 1)
TReveal == /\ IsEvent("Reveal")
           /\ LET got == { { T3(Ev.quads[i][j]) : j \in DOMAIN Ev.quads[i] } : i \in DOMAIN Ev.quads }
                  exp == RevealQuads(Ev.win) IN
              /\ Chk("FourRevealSurfaces", Len(Ev.quads) = 4)
              /\ Chk("RevealsSpanTheGapAlongTheFourEdges",
                     /\ \A g \in got : \E x \in exp : SameQuad(g, x)
                     /\ \A x \in exp : \E g \in got : SameQuad(g, x))
              /\ Chk("RevealsBelongToTheirWindowOnly", Ev.linked_ok)
TNoReveal == /\ IsEvent("NoReveal")
             /\ Chk("NoRevealWithoutSetback", Ev.count = 0)
TraceSpec == l = 1 /\ [][TRay \/ TBox \/ TReveal \/ TNoReveal]_l
Accepted == \/ TLCGet("stats").diameter - 1 = Len(Rec)
            \/ Print(<<"UNMATCHED", TLCGet("stats").diameter>>, FALSE)
=============================================================================
