SPECIFICATION Spec
CONSTANTS
  Threads <- Threads_
  Inputs <- Inputs_
  OpsPerThread = 2
  AllowPanic = FALSE
INVARIANTS MutualExclusion HolderConsistent AtMostOneLockPerThread NeverPoisoned NobodyDies Deterministic
PROPERTIES TablesNeverWritten AllDone
CHECK_DEADLOCK FALSE
