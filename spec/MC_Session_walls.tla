------------------------- MODULE MC_Session_walls -------------------------
(* walls -> spaces / constructions / adjacent spaces; constructions -> materials; bridges. All graphs with <= 2 walls, 2 spaces, 1 construction, links to existing or dangling ids. *)
EXTENDS Session
MaxN_ == [days |-> 0, weeks |-> 0, years |-> 0, loads |-> 0, therms |-> 0, materials |-> 1, glasses |-> 0,
          frames |-> 0, wallcons |-> 1, wincons |-> 0, spaces |-> 2, walls |-> 2, windows |-> 0, tbs |-> 1]
MaxNq_ == [days |-> 0, weeks |-> 0, years |-> 0, loads |-> 0, therms |-> 0, materials |-> 1, glasses |-> 0,
          frames |-> 0, wallcons |-> 1, wincons |-> 0, spaces |-> 1, walls |-> 2, windows |-> 0, tbs |-> 1]
BadRefs_ == {Dangling}
WallBounds_ == {"EXTERIOR", "INTERIOR"}
WallTilts_ == {"SIDE"}
WallU_ == {5000}
OvU_ == {None}
SpaceInside_ == {TRUE}
SpaceKinds_ == {"C"}
SpaceMults_ == {100}
TbSigns_ == {-1, 0, 1}
=============================================================================
