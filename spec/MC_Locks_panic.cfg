SPECIFICATION Spec
CONSTANTS
  Threads <- Threads_
  Inputs <- Inputs_
  OpsPerThread = 2
  AllowPanic = TRUE
INVARIANTS NobodyDies

CHECK_DEADLOCK FALSE
