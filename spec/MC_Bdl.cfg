SPECIFICATION Spec
CONSTANTS
  Types <- Types_
  MaxLen = 4
INVARIANTS MachineIsParents WindowHangsFromLastWall WallHangsFromLastSpace SpaceHangsFromLastFloor InvEmit
CHECK_DEADLOCK FALSE
