------------------------------ MODULE MC_Geometry ------------------------------
(* Design-level checks of the placement semantics (Geometry.tla) over a family  *)
(* of buildings, and emission of every building as a case for the converter.    *)
(* A case is a building [ag, sp, pw, rs, vs]: deviation, one space, polygon-     *)
(* defined walls of that space, rectangular shades, vertex-defined shades.       *)
EXTENDS Geometry, Json
CONSTANT Deep
FamQ == { <<1, 0, 1>>, <<0, 1, 1>>, <<-1, 0, 1>>, <<0, -1, 1>>, <<4, 3, 5>>, <<-3, 4, 5>>, <<5, -12, 13>> }
FamD == FamQ \cup { <<3, 4, 5>>, <<-4, -3, 5>>, <<3, -4, 5>>, <<12, 5, 13>>, <<-12, 5, 13>>, <<-5, -12, 13>>, <<8, 15, 17>>, <<-15, 8, 17>>,
                    <<20, -21, 29>>, <<-21, -20, 29>>, <<63, 16, 65>>, <<-33, 56, 65>> }
Fam == IF Deep THEN FamD ELSE FamQ
SpaceFam == IF Deep THEN { <<1, 0, 1>>, <<0, 1, 1>>, <<-1, 0, 1>>, <<0, -1, 1>>, <<4, 3, 5>>, <<-3, 4, 5>>, <<3, -4, 5>> }
            ELSE { <<1, 0, 1>>, <<-1, 0, 1>>, <<0, 1, 1>>, <<4, 3, 5>> }
Tilts == IF Deep THEN { <<1, 0, 1>>, <<0, 1, 1>>, <<-1, 0, 1>>, <<4, 3, 5>>, <<3, 4, 5>>, <<-3, 4, 5>>, <<12, 5, 13>> }
         ELSE { <<1, 0, 1>>, <<0, 1, 1>>, <<-1, 0, 1>>, <<4, 3, 5>>, <<-3, 4, 5>> }
Box == << <<0, 0>>, <<60, 0>>, <<60, 40>>, <<0, 40>> >>
Outlines == { Box,
              << <<0, 0>>, <<80, 0>>, <<80, 30>>, <<40, 30>>, <<40, 60>>, <<0, 60>> >>,
              << <<10, 5>>, <<50, 35>>, <<20, 75>>, <<-20, 45>> >>,                       \* a 50 x 50 square turned by (4,3,5), off the origin
              << <<0, 0>>, <<90, 0>>, <<90, 30>>, <<60, 30>>, <<60, 60>>, <<30, 60>>, <<30, 30>>, <<0, 30>> >> }
Origins == IF Deep THEN { <<0, 0, 0>>, <<50, -30, 0>>, <<-70, 120, 30>>, <<178, 178, 25>> } ELSE { <<0, 0, 0>>, <<50, -30, 30>> }
Polys == { << <<0, 0>>, <<40, 0>>, <<40, 30>>, <<0, 30>> >>, << <<0, 0>>, <<50, 0>>, <<30, 40>> >> }
\* vertex-defined shades, with twice their area
VShapes == { [verts |-> << <<0, 0, 0>>, <<40, 30, 0>>, <<40, 30, 25>>, <<0, 0, 25>> >>, a2 |-> 2500],               \* vertical, oblique in plan
             [verts |-> << <<-20, -60, 20>>, <<40, -60, 20>>, <<40, -20, 50>>, <<-20, -20, 50>> >>, a2 |-> 6000],   \* sloping (3,4,5)
             [verts |-> << <<100, 0, 30>>, <<160, 0, 30>>, <<130, 40, 30>> >>, a2 |-> 2400],                        \* horizontal triangle
             \* a canopy with twelve corners (a cross of arms 20 wide, 60 x 60 overall): the order of V10..V12 matters
             [verts |-> << <<220, 0, 35>>, <<240, 0, 35>>, <<240, 20, 35>>, <<260, 20, 35>>, <<260, 40, 35>>, <<240, 40, 35>>,
                           <<240, 60, 35>>, <<220, 60, 35>>, <<220, 40, 35>>, <<200, 40, 35>>, <<200, 20, 35>>, <<220, 20, 35>> >>, a2 |-> 4000],
             \* a canopy 20 m x 4 m with a drainage slope of 1 in 200 (0.29 degrees) rising to the east: nearly, not exactly, horizontal
             [verts |-> << <<300, 0, 30>>, <<500, 0, 31>>, <<500, 40, 31>>, <<300, 40, 30>> >>, a2 |-> 16000],
             \* the same canopy rising to the west
             [verts |-> << <<300, 100, 31>>, <<500, 100, 30>>, <<500, 140, 30>>, <<300, 140, 31>> >>, a2 |-> 16000] }
Space(o, as, ol) == [x |-> o[1], y |-> o[2], z |-> o[3], h |-> 30, as |-> as, outline |-> ol]
VARIABLE c
Init ==
  \/ \E ag \in Fam, as \in SpaceFam, o \in Origins, ol \in Outlines :
       c = [ag |-> ag, sp |-> Space(o, as, ol), pw |-> <<>>, rs |-> <<>>, vs |-> <<>>]
  \/ \E ag \in Fam, as \in SpaceFam, o \in Origins, A \in SpaceFam, T \in Tilts, pl \in Polys :
       c = [ag |-> ag, sp |-> Space(o, as, Box), pw |-> << [x |-> 10, y |-> -20, z |-> 5, A |-> A, T |-> T, poly |-> pl] >>, rs |-> <<>>, vs |-> <<>>]
  \/ \E ag \in Fam, A \in SpaceFam, T \in Tilts, o \in Origins :
       c = [ag |-> ag, sp |-> Space(<<0, 0, 0>>, Zero, Box), pw |-> <<>>,
            rs |-> << [x |-> o[1] - 100, y |-> o[2], z |-> o[3], A |-> A, T |-> T, w |-> 60, h |-> 25] >>, vs |-> <<>>]
  \/ \E ag \in Fam, vsh \in VShapes :
       c = [ag |-> ag, sp |-> Space(<<0, 0, 0>>, Zero, Box), pw |-> <<>>, rs |-> <<>>, vs |-> << vsh >>]
Next == UNCHANGED c
Spec == Init /\ [][Next]_c

AnglesOk == IsAngle(c.ag) /\ IsAngle(c.sp.as) /\ (\A i \in DOMAIN c.pw : IsAngle(c.pw[i].A) /\ IsAngle(c.pw[i].T))
            /\ (\A i \in DOMAIN c.rs : IsAngle(c.rs[i].A) /\ IsAngle(c.rs[i].T))
N == Len(c.sp.outline)
\* the outline is counter-clockwise
CCW == Area2(c.sp.outline) > 0
\* consecutive edge walls share the vertical edge over their common vertex; wall bottoms make up the floor outline
SharesEdge(S1, S2) == Cardinality({ p \in S1 : \E q \in S2 : SameP(p, q) }) = 2
Closure == /\ \A n \in 1..N : SharesEdge(EdgeWallCorners(c, c.sp, n), EdgeWallCorners(c, c.sp, n + 1))
           /\ \A p \in OutlineAt(c, c.sp, 0) : \E n \in 1..N : \E q \in EdgeWallCorners(c, c.sp, n) : SameP(p, q)
           /\ \A p \in OutlineAt(c, c.sp, c.sp.h) : \E n \in 1..N : \E q \in EdgeWallCorners(c, c.sp, n) : SameP(p, q)
\* the normal of an edge wall is horizontal, perpendicular to the turned edge, and on its right-hand side (outside a CCW outline)
EdgeDir(n) == LET p == ToGlobal(c, c.sp, Pt(Vtx(c.sp, n)[1], Vtx(c.sp, n)[2], 0))  q == ToGlobal(c, c.sp, Pt(Vtx(c.sp, n + 1)[1], Vtx(c.sp, n + 1)[2], 0)) IN
              << q.x - p.x, q.y - p.y >>       \* same k for both
NormalsOutward == \A n \in 1..N : LET e == EdgeDir(n)  nn == EdgeWallNormal(c, c.sp, n) IN
                    nn[3] = 0 /\ e[1] * nn[1] + e[2] * nn[2] = 0 /\ e[1] * nn[2] - e[2] * nn[1] < 0
\* surface axes: ex, ey orthogonal and ex x ey = n (all scaled by Hyp(A) Hyp(T))
AxesOk(A, T) ==
  LET o == Pt(0, 0, 0)
      ex == OnSurface(o, A, T, 1, 0)  ey == OnSurface(o, A, T, 0, 1)  n == SurfNormal(A, T) IN
  /\ ex.x * ey.x + ex.y * ey.y + ex.z * ey.z = 0
  /\ ex.y * ey.z - ex.z * ey.y = n[1] * ex.k /\ ex.z * ey.x - ex.x * ey.z = n[2] * ex.k /\ ex.x * ey.y - ex.y * ey.x = n[3] * ex.k
  /\ ex.x * ex.x + ex.y * ex.y + ex.z * ex.z = ex.k * ex.k /\ ey.x * ey.x + ey.y * ey.y + ey.z * ey.z = ey.k * ey.k
SurfaceAxes == (\A i \in DOMAIN c.pw : AxesOk(c.pw[i].A, c.pw[i].T)) /\ (\A i \in DOMAIN c.rs : AxesOk(c.rs[i].A, c.rs[i].T))
\* turning the building by delta turns every expected corner by delta
SameSet(S1, S2) == (\A p \in S1 : \E q \in S2 : SameP(p, q)) /\ (\A q \in S2 : \E p \in S1 : SameP(p, q))
TurnSet == { <<0, 1, 1>>, <<4, 3, 5>>, <<-5, 12, 13>> }
RECURSIVE HypProd(_, _)
HypProd(seq, i) == IF i = 0 THEN 1 ELSE Hyp(seq[i].A) * Hyp(seq[i].T) * HypProd(seq, i - 1)
KOf == Hyp(c.ag) * Hyp(c.sp.as) * HypProd(c.pw, Len(c.pw)) * HypProd(c.rs, Len(c.rs))
\* (checked where the cross-multiplied comparison stays within 32 bits)
TurnLaw == \A d \in TurnSet : KOf * Hyp(d) > 700 \/ LET t == Turned(c, d) IN
   /\ \A n \in 1..N : SameSet(EdgeWallCorners(t, t.sp, n), { RotCW(d, p) : p \in EdgeWallCorners(c, c.sp, n) })
   /\ SameSet(OutlineAt(t, t.sp, t.sp.h), { RotCW(d, p) : p \in OutlineAt(c, c.sp, c.sp.h) })
   /\ \A i \in DOMAIN c.pw : SameSet(PolyWallCorners(t, t.sp, t.pw[i]), { RotCW(d, p) : p \in PolyWallCorners(c, c.sp, c.pw[i]) })
   /\ \A i \in DOMAIN c.rs : SameSet(RectShadeCorners(t, t.rs[i]), { RotCW(d, p) : p \in RectShadeCorners(c, c.rs[i]) })
   /\ \A i \in DOMAIN c.vs : SameSet(VertexShadeCorners(t, t.vs[i]), { RotCW(d, p) : p \in VertexShadeCorners(c, c.vs[i]) })
\* placement preserves areas: twice the area of the placed floor outline, in plan, equals k^2 times the source's
AreaLaw == Hyp(c.ag) * Hyp(c.sp.as) > 30 \/
           LET k == Hyp(c.ag) * Hyp(c.sp.as)
               g == [i \in DOMAIN c.sp.outline |-> LET p == ToGlobal(c, c.sp, Pt(c.sp.outline[i][1], c.sp.outline[i][2], 0)) IN <<p.x, p.y>>] IN
           Area2(g) = k * k * Area2(c.sp.outline)
\* the stated area of a vertex-defined shade is the area of its polygon in space (Newell vector)
VShadeAreas == \A i \in DOMAIN c.vs : LET n == NewellVector(c.vs[i].verts) IN LET nn == n[1] * n[1] + n[2] * n[2] + n[3] * n[3] IN
               \* a2 is twice the area, rounded down where the area is not rational (the nearly horizontal canopies)
               c.vs[i].a2 * c.vs[i].a2 <= nn /\ nn < (c.vs[i].a2 + 1) * (c.vs[i].a2 + 1)
InvEmit == PrintT(<<"CASE", ToJson(c)>>)
=============================================================================
