----------------------------- MODULE Trace_Geometry -----------------------------
(* Trace validation for C03 against Geometry.tla.                                 *)
(*  Geom: a generated building (descriptor c, lengths in dm) and the geometry of   *)
(*        its converted model (mm, 1e-4 for directions, cm2 for areas).            *)
(*  Src:  a shipped project whose angles are multiples of 90 degrees (lengths in   *)
(*        mm), same observation.                                                   *)
(*  Turn: the same project converted as given (A) and with its deviation from      *)
(*        north increased by the rational angle d (B).                             *)
EXTENDS Geometry, Json, IOUtils
Rec == ndJsonDeserialize(IOEnv.TRACE)
VARIABLE l
Ev == Rec[l]
IsEvent(e) == l <= Len(Rec) /\ Rec[l].ev = e /\ l' = l + 1
Chk(name, cond) == IF cond THEN TRUE ELSE PrintT(<<"FAIL", l, "C03", name>>)
A3(v) == <<v[1], v[2], v[3]>>
\* descriptor as it comes out of JSON -> the records Geometry.tla works on
SpaceOf(s) == [x |-> s.x, y |-> s.y, z |-> s.z, h |-> s.h, as |-> A3(s.as), outline |-> s.outline]
BuildingOf(c) == [ag |-> A3(c.ag), sp |-> SpaceOf(c.sp)]
PwOf(w) == [x |-> w.x, y |-> w.y, z |-> w.z, A |-> A3(w.A), T |-> A3(w.T), poly |-> w.poly]
RsOf(s) == [x |-> s.x, y |-> s.y, z |-> s.z, A |-> A3(s.A), T |-> A3(s.T), w |-> s.w, h |-> s.h]

\* areas: observed in cm2; source lengths in units of 1/upm metres
\* (upm = 0: lengths too fine for 32 bit products, areas not compared)
AreaNear(obs, twice, upm) == upm = 0 \/ AbsI(obs * upm * upm - twice * 5000) <= 100 * upm * upm + upm     \* 0.01 m2
WallOk(b, c, w, mmu, div, tol, upm) ==
  LET k == w.tag.kind IN
  CASE k = "edge" ->
         /\ Chk("WallOnEdgeSpansThatEdgeOverTheStoreyHeight", SameCorners(w.corners, EdgeWallCornersZ(b, b.sp, w.tag.i, IF "dz" \in DOMAIN w.tag THEN w.tag.dz ELSE 0), mmu, div, tol))
         /\ Chk("OutwardNormalPointsAwayFromTheSpace", SameDir(w.normal, EdgeWallNormal(b, b.sp, w.tag.i)) /\ SameDir(w.nrep, EdgeWallNormal(b, b.sp, w.tag.i)))
         /\ Chk("AreaEqualsSourcePolygonArea", upm = 0 \/ HasRoot(EdgeLen2(b.sp, w.tag.i)) => AreaNear(w.area, 2 * Root(EdgeLen2(b.sp, w.tag.i)) * b.sp.h, upm))
    [] k = "top" ->
         /\ Chk("CeilingReproducesTheOutlineAtCeilingLevel", SameCorners(w.corners, OutlineAt(b, b.sp, b.sp.h), mmu, div, tol))
         /\ Chk("OutwardNormalPointsAwayFromTheSpace", SameDir(w.normal, <<0, 0, 1>>) /\ SameDir(w.nrep, <<0, 0, 1>>))
         /\ Chk("AreaEqualsSourcePolygonArea", upm = 0 \/ AreaNear(w.area, Area2(b.sp.outline), upm))
    [] k = "bottom" ->
         /\ Chk("FloorReproducesTheOutlineAtFloorLevel", SameCorners(w.corners, OutlineAt(b, b.sp, 0), mmu, div, tol))
         /\ Chk("OutwardNormalPointsAwayFromTheSpace", SameDir(w.normal, <<0, 0, -1>>) /\ SameDir(w.nrep, <<0, 0, -1>>))
         /\ Chk("AreaEqualsSourcePolygonArea", upm = 0 \/ AreaNear(w.area, Area2(b.sp.outline), upm))
    [] k = "poly" ->
         LET pw == PwOf(c.pw[w.tag.i]) IN
         /\ Chk("PolygonDefinedWallKeepsItsCornerPoints", SameCorners(w.corners, PolyWallCorners(b, b.sp, pw), mmu, div, tol))
         /\ Chk("OutwardNormalPointsAwayFromTheSpace", SameDir(w.normal, PolyWallNormal(b, b.sp, pw)) /\ SameDir(w.nrep, PolyWallNormal(b, b.sp, pw)))
         /\ Chk("AreaEqualsSourcePolygonArea", upm = 0 \/ AreaNear(w.area, AbsI(Area2(pw.poly)), upm))
    [] OTHER -> Chk("KnownElementKind", FALSE)
ShadeOk(b, c, s, mmu, div, tol, upm) ==
  CASE s.tag.kind = "rect" ->
         LET r == RsOf(c.rs[s.tag.i]) IN
         /\ Chk("RectangularShadeKeepsItsCornerPoints", SameCorners(s.corners, RectShadeCorners(b, r), mmu, div, tol))
         /\ Chk("ShadeFacesItsAzimuth", SameDir(s.normal, RectShadeNormal(b, r)) /\ SameDir(s.nrep, RectShadeNormal(b, r)))
         /\ Chk("AreaEqualsSourcePolygonArea", upm = 0 \/ AreaNear(s.area, 2 * r.w * r.h, upm))
    [] s.tag.kind = "verts" ->
         /\ Chk("VertexDefinedShadeKeepsItsCornerPoints", SameCorners(s.corners, VertexShadeCorners(b, c.vs[s.tag.i]), mmu, div, tol))
         /\ Chk("AreaEqualsSourcePolygonArea", upm = 0 \/ AreaNear(s.area, c.vs[s.tag.i].a2, upm))
    [] OTHER -> Chk("KnownElementKind", FALSE)
WinOk(v) == Chk("WindowsKeepSizeOffsetAndSetback",
                AbsI(v.got.x - v.src.x) <= 1 /\ AbsI(v.got.y - v.src.y) <= 1 /\ AbsI(v.got.w - v.src.w) <= 1 /\ AbsI(v.got.h - v.src.h) <= 1
                /\ AbsI(v.got.sb - v.src.sb) <= 1 /\ v.got.wall = v.src.wall)
\* shading devices of the windows of generated buildings: figures in units of 50 mm (every generated figure is a multiple;
\* finer units overflow TLC's integers with the larger angle families), the building in dm = 2 units
DevOk(b, d, mmu0) ==
  LET mmu == 2 IN
  LET win == d.win  n == d.edge
      \* the common denominator of the exact corner points (edge length, overhang angle, the two turns): the comparison with
      \* millimetres multiplies it by coordinates of up to 30 000; beyond 20 000 it would leave TLC's integers: not judged
      den == Root(EdgeLen2(b.sp, n)) * Hyp(A3(d.ang)) * Hyp(b.sp.as) * Hyp(b.ag) IN
  IF den > 20000 THEN TRUE ELSE
  CASE d.kind = "overhang" ->
         Chk("OverhangBecomesAShadeAtItsPlace", d.found /\ SameCorners(d.corners, OverhangCorners(b, b.sp, n, win, [a |-> d.a, b |-> d.b, w |-> d.w, d |-> d.d, ang |-> A3(d.ang)], mmu), 50, 1, 10))
    [] d.kind = "lfin" -> Chk("SideFinBecomesAShadeAtItsPlace", d.found /\ SameCorners(d.corners, FinCorners(b, b.sp, n, win, [a |-> d.a, b |-> d.b, h |-> d.h, d |-> d.d], FALSE, mmu), 50, 1, 10))
    [] d.kind = "rfin" -> Chk("SideFinBecomesAShadeAtItsPlace", d.found /\ SameCorners(d.corners, FinCorners(b, b.sp, n, win, [a |-> d.a, b |-> d.b, h |-> d.h, d |-> d.d], TRUE, mmu), 50, 1, 10))
    [] OTHER -> Chk("KnownElementKind", FALSE)
Elements(mmu, div, tol, upm) ==
  LET b == BuildingOf(Ev.c) IN
  /\ Chk("Converts", Ev.ok)
  /\ Ev.ok =>
       /\ Chk("EveryElementOfTheSourceIsInTheModel", Ev.missing = 0)
       /\ \A i \in DOMAIN Ev.walls : WallOk(b, Ev.c, Ev.walls[i], mmu, div, tol, upm)
       /\ \A i \in DOMAIN Ev.shades : ShadeOk(b, Ev.c, Ev.shades[i], mmu, div, tol, upm)
       /\ \A i \in DOMAIN Ev.wins : WinOk(Ev.wins[i])
       /\ ("devs" \in DOMAIN Ev) => \A i \in DOMAIN Ev.devs : DevOk(b, Ev.devs[i], mmu)
\* generated buildings: lengths in dm (1 unit = 100 mm, 10 units per metre), tolerance 1 cm
TGeom == IsEvent("Geom") /\ Elements(100, 1, 10, 10)
\* shipped projects: lengths in mm
TSrc == IsEvent("Src") /\ Elements(1, 1, 10, 0)

\* ---- turning the building ----
TurnedPt(d, p) == RotCW(d, Pt(p[1], p[2], p[3]))
\* element e of B is element e of A turned by d: positions within 1 cm (plus 1e-4 of their size), azimuth shifted, area kept
Far(p) == (AbsI(p[1]) + AbsI(p[2])) \div 10000
ElemTurned(d, ddeg, a, bb) ==
  /\ Len(a.corners) = Len(bb.corners)
  /\ \A i \in DOMAIN a.corners : NearP(bb.corners[i], TurnedPt(d, a.corners[i]), 1, 1, 10 + Far(a.corners[i]))
  /\ (bb.tilt = a.tilt)
  /\ LET dz == (bb.azimuth - (a.azimuth - ddeg)) % 36000 IN dz <= 3 \/ dz >= 36000 - 3
  /\ AbsI(bb.area - a.area) <= 1
SameSeq(s, t, tol) == Len(s) = Len(t) /\ \A i \in DOMAIN s : AbsI(s[i] - t[i]) <= tol
TTurn == /\ IsEvent("Turn")
         /\ Chk("BothConvert", Ev.ok)
         /\ Ev.ok =>
              LET d == A3(Ev.d) IN
              /\ Chk("TurnAngleIsTheLoggedOne", IsAngle(d) /\ AbsI(Ev.dcos * Hyp(d) - Cos(d) * 10000) <= 3 * Hyp(d) /\ AbsI(Ev.dsin * Hyp(d) - Sin(d) * 10000) <= 3 * Hyp(d))
              /\ Chk("SameElements", Len(Ev.A.elems) = Len(Ev.B.elems))
              /\ Chk("TurningTheBuildingTurnsEveryPositionAndShiftsEveryAzimuth",
                     Len(Ev.A.elems) = Len(Ev.B.elems) => \A i \in DOMAIN Ev.A.elems : ElemTurned(d, Ev.ddeg, Ev.A.elems[i], Ev.B.elems[i]))
              /\ Chk("WindowsUnchangedByTheTurn", Ev.A.wins = Ev.B.wins)
              /\ Chk("AreasVolumesUKn50UnchangedByTheTurn",
                     /\ Ev.A.ind.ok = Ev.B.ind.ok
                     /\ Ev.A.ind.ok =>
                          /\ AbsI(Ev.A.ind.K - Ev.B.ind.K) <= 1 /\ AbsI(Ev.A.ind.n50 - Ev.B.ind.n50) <= 1
                          /\ AbsI(Ev.A.ind.area_ref - Ev.B.ind.area_ref) <= 1 /\ AbsI(Ev.A.ind.vol_net - Ev.B.ind.vol_net) <= 1
                          /\ AbsI(Ev.A.ind.vol_gross - Ev.B.ind.vol_gross) <= 1 /\ AbsI(Ev.A.ind.compacity - Ev.B.ind.compacity) <= 1
                          /\ SameSeq(Ev.A.ind.u, Ev.B.ind.u, 1) /\ SameSeq(Ev.A.ind.space_areas, Ev.B.ind.space_areas, 1))
TraceSpec == l = 1 /\ [][TGeom \/ TSrc \/ TTurn]_l
Accepted == \/ TLCGet("stats").diameter - 1 = Len(Rec)
            \/ Print(<<"UNMATCHED", TLCGet("stats").diameter>>, FALSE)
=============================================================================
