--------------------------------- MODULE Cli ---------------------------------
(***************************************************************************)
(* C01. Process protocol of the two command line tools:                    *)
(*   hulc2model [--use-extra] DIR   writes the model JSON to stdout        *)
(*   thor FILE -o OUT               writes the model JSON to OUT           *)
(* One action per step of cli_main / thor::main. stdout is a sequence of   *)
(* chunks, each "json" (a JSON document equal to the library's model) or   *)
(* "other" (anything else). Only EmitJson may write to stdout, once, after *)
(* every fallible step has succeeded.                                      *)
(***************************************************************************)
EXTENDS Sequences, FiniteSets, TLC

VARIABLES tool,      \* "hulc2model" | "thor"
          input,     \* "project" (convertible) | "noproject" | "unconvertible"
          extra,     \* --use-extra given
          phase,     \* "start" | "located" | "parsed" | "converted" | "computed" | "emitted" | "exited"
          stdout, outfile, exit
vars == <<tool, input, extra, phase, stdout, outfile, exit>>

Init == /\ tool \in {"hulc2model", "thor"} /\ input \in {"project", "noproject", "unconvertible"}
        /\ extra \in BOOLEAN /\ (tool = "thor" => ~extra)
        /\ phase = "start" /\ stdout = <<>> /\ outfile = "absent" /\ exit = "none"

Fail == phase' = "exited" /\ exit' = "nonzero" /\ UNCHANGED <<tool, input, extra, stdout, outfile>>
Step(from, to) == phase = from /\ phase' = to /\ UNCHANGED <<tool, input, extra, stdout, outfile, exit>>

\* banner and progress messages go to stderr: not part of the observable state
Locate  == phase = "start" /\ IF input = "noproject" THEN Fail ELSE Step("start", "located")
Parse   == phase = "located" /\ IF input = "unconvertible" THEN Fail ELSE Step("located", "parsed")
Convert == Step("parsed", "converted")
FixExtra == phase = "converted" /\ tool = "hulc2model" /\ extra /\ UNCHANGED vars      \* overrides from KyG / tbl
Compute == Step("converted", "computed")
EmitJson == /\ tool = "hulc2model" /\ phase = "computed"
            /\ stdout' = Append(stdout, "json") /\ phase' = "emitted"
            /\ UNCHANGED <<tool, input, extra, outfile, exit>>
WriteOut == /\ tool = "thor" /\ phase = "computed"
            /\ outfile' = "json" /\ phase' = "emitted"
            /\ UNCHANGED <<tool, input, extra, stdout, exit>>
ExitOk  == phase = "emitted" /\ phase' = "exited" /\ exit' = "zero" /\ UNCHANGED <<tool, input, extra, stdout, outfile>>

Next == Locate \/ Parse \/ Convert \/ FixExtra \/ Compute \/ EmitJson \/ WriteOut \/ ExitOk
Spec == Init /\ [][Next]_vars /\ WF_vars(Next)

OnlyJson == (exit = "zero" /\ tool = "hulc2model") => stdout = <<"json">>
ThorWritesFile == (exit = "zero" /\ tool = "thor") => (outfile = "json" /\ stdout = <<>>)
NoJsonOnFailure == exit = "nonzero" => (stdout = <<>> /\ outfile = "absent")
ConvertibleSucceeds == (phase = "exited" /\ input = "project") => exit = "zero"
NoProjectFails == (phase = "exited" /\ input # "project") => exit = "nonzero"
StdoutOnlyByEmit == [][stdout' # stdout => (phase = "computed" /\ phase' = "emitted")]_vars
Terminates == <>(phase = "exited")
=============================================================================
