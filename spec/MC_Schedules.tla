---------------------------- MODULE MC_Schedules ----------------------------
(***************************************************************************)
(* The year-walking machine (period index, days left, weekday phase) and   *)
(* the theorems of Schedules.tla, checked exhaustively for small years.    *)
(***************************************************************************)
EXTENDS Schedules, TLC, Json
CONSTANTS PeriodLens,   \* possible period lengths
          MaxPeriods, MaxTotal

\* two weekly patterns over three daily ids
Weeks == [w \in {1, 2} |-> IF w = 1 THEN << <<1, 5>>, <<2, 2>> >> ELSE << <<3, 1>>, <<1, 3>>, <<2, 3>> >>]

VARIABLES periods, pi, left, phase, out
vars == <<periods, pi, left, phase, out>>

Init == /\ periods \in UNION { [1..n -> {1, 2} \X PeriodLens] : n \in 1..MaxPeriods }
        /\ Total(periods) <= MaxTotal
        /\ pi = 1 /\ left = periods[1][2] /\ phase = 0 /\ out = <<>>
\* one day of the walk: emit the current weekday slot of the current period's week
NextDay == /\ pi <= Len(periods)
           /\ left > 0
           /\ out' = Append(out, Flat(Weeks[periods[pi][1]])[phase + 1])
           /\ phase' = (phase + 1) % 7
           /\ left' = left - 1
           /\ UNCHANGED <<periods, pi>>
NextPeriod == /\ pi <= Len(periods) /\ left = 0
              /\ pi' = pi + 1
              /\ left' = IF pi + 1 <= Len(periods) THEN periods[pi + 1][2] ELSE 0
              /\ UNCHANGED <<periods, phase, out>>
Next == NextDay \/ NextPeriod
Spec == Init /\ [][Next]_vars

Done == pi > Len(periods)
\* the machine emits a prefix of the declarative expansion at every moment, and all of it at the end
MachineIsExpansion == /\ IsPrefix(out, Expand(periods, Weeks))
                      /\ Done => out = Expand(periods, Weeks)
LengthIsSum == Done => Len(out) = Total(periods)
PhaseIsWeekday == phase = Len(out) % 7
\* calendar theorems (constant level, evaluated once)
ASSUME \A m \in 1..12 : \A d \in 1..MonthLen[m] : N(d, m) = NFormula(d, m)
ASSUME N(31, 12) = 365 /\ N(1, 1) = 1
ASSUME \A m \in 1..11 : N(1, m + 1) = N(MonthLen[m], m) + 1
ASSUME RLE(<<1, 1, 1, 1, 1, 2, 2>>) = << <<1, 5>>, <<2, 2>> >> /\ RLE(<<1, 2, 1, 1, 1, 1, 1>>) = << <<1, 1>>, <<2, 1>>, <<1, 5>> >>
ASSUME \A s \in [1..4 -> {1, 2}] : Flat(RLE(s)) = s
InvEmit == Done => PrintT(<<"CASE", ToJson([periods |-> periods])>>)
=============================================================================
