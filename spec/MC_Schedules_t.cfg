SPECIFICATION Spec
CONSTANTS
  PeriodLens = {1, 2, 6, 7, 8, 13}
  MaxPeriods = 4
  MaxTotal = 30
INVARIANTS MachineIsExpansion LengthIsSum PhaseIsWeekday InvEmit
CHECK_DEADLOCK FALSE
