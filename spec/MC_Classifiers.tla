---------------------------- MODULE MC_Classifiers ----------------------------
EXTENDS Classifiers
VARIABLE x
Init == x = 0
Next == UNCHANGED x
Spec == Init /\ [][Next]_x
InvPeriodic == Periodic
InvSymmetric == Symmetric
=============================================================================
