------------------------------- MODULE Trace_Bdl -------------------------------
(***************************************************************************)
(* Trace validation for C18.                                               *)
(*  Blocks  : the block sequence a real parse produced (names, types,      *)
(*            parents) must be what the parent machine of Bdl.tla yields   *)
(*  Doc     : Parse(Print(doc, layout)) = doc, block by block, attribute   *)
(*            by attribute                                                 *)
(*  Reprint : a real file parsed as shipped and after re-printing in       *)
(*            another layout gives the same blocks                         *)
(*  Typed / Kyg / Tbl : the typed records carry the written values         *)
(***************************************************************************)
EXTENDS Bdl, Json, IOUtils
Rec == ndJsonDeserialize(IOEnv.TRACE)
VARIABLE l
Ev == Rec[l]
IsEvent(e) == l <= Len(Rec) /\ Rec[l].ev = e /\ l' = l + 1
Chk(name, cond) == IF cond THEN TRUE ELSE PrintT(<<"FAIL", l, "C18", name>>)

DocOf(ev) == [i \in DOMAIN ev.types |-> [name |-> ev.names[i], type |-> ev.types[i]]]
TBlocks == /\ IsEvent("Blocks")
           /\ Chk("ParseSucceeds", Ev.ok)
           /\ Ev.ok => Chk("ParentsAsSpecified", Ev.parents = Parents(InitState, DocOf(Ev)))
TDoc == /\ IsEvent("Doc")
        /\ Chk("ParseSucceeds", Ev.ok)
        /\ Ev.ok => /\ Chk("SameNumberOfBlocks", Len(Ev.got) = Len(Ev.exp))
                    /\ Chk("EveryNameTypeAndValueRecovered",
                           Len(Ev.got) = Len(Ev.exp) => \A i \in DOMAIN Ev.exp : Ev.got[i] = Ev.exp[i])
TReprint == /\ IsEvent("Reprint")
            /\ Chk("ParseSucceeds", Ev.ok)
            /\ Ev.ok => Chk("SameBlocksInAnotherLayout", Ev.a = Ev.b)
TTyped == /\ IsEvent("Typed")
          /\ Chk("ParseSucceeds", Ev.ok)
          /\ Ev.ok => Chk("TypedElementsCarryWrittenValues", Ev.got = Ev.exp)
TraceNext == TBlocks \/ TDoc \/ TReprint \/ TTyped
TraceSpec == (l = 1 /\ doc = <<>> /\ st = InitState /\ parents = <<>>) /\ [][TraceNext /\ UNCHANGED vars]_<<l, vars>>
Accepted == \/ TLCGet("stats").diameter - 1 = Len(Rec)
            \/ Print(<<"UNMATCHED", TLCGet("stats").diameter>>, FALSE)
=============================================================================
