------------------------------ MODULE JsonFormat ------------------------------
(***************************************************************************)
(* C04. The omission protocol of the JSON model format. For every field of  *)
(* every serialised struct the implementation declares (serde attributes,   *)
(* extracted from the current source tree into SCHEMA):                     *)
(*   skip : the class of values that are not written ("never", "empty",     *)
(*          "none", "zero", "one", "true")                                  *)
(*   load : what an absent key loads as ("empty", "none", "zero", "one",    *)
(*          "true", "error" = the key is required)                          *)
(* A value is abstracted to its class: the field's skip class, its load     *)
(* class, or "other". Write omits the key iff the value is in the skip      *)
(* class; Load of an absent key yields the load class. The format is        *)
(* lossless iff Load(Write(v)) = v for every field and class, idempotent    *)
(* iff Write(Load(Write(v))) = Write(v).                                    *)
(***************************************************************************)
EXTENDS Integers, Sequences, FiniteSets, Json, IOUtils, TLC

Schema == ndJsonDeserialize(IOEnv.SCHEMA)
Classes(r) == {r.skip, r.load, "other"} \ {"never", "error"}

VARIABLES i, v, doc, back    \* field row, value class, written document ("absent" | class), loaded class
vars == <<i, v, doc, back>>
Init == i \in DOMAIN Schema /\ v \in Classes(Schema[i]) /\ doc = "nothing" /\ back = "nothing"
Write == /\ doc = "nothing"
         /\ doc' = IF v = Schema[i].skip THEN "absent" ELSE v
         /\ UNCHANGED <<i, v, back>>
Load == /\ doc # "nothing" /\ back = "nothing"
        /\ back' = IF doc = "absent" THEN Schema[i].load ELSE doc
        /\ UNCHANGED <<i, v, doc>>
Next == Write \/ Load
Spec == Init /\ [][Next]_vars

Lossless == back # "nothing" => back = v
NeverUnloadable == back # "error"
KnownRules == \A k \in DOMAIN Schema : Schema[k].skip \in {"never", "empty", "none", "zero", "one", "true"}
\* the contract in one line: what is omitted is what an absent key loads as
\* (a rule whose name the extractor does not know is judged by the round trips of the real code alone)
Contract == \A k \in DOMAIN Schema : Schema[k].skip \in {"never", "empty", "none", "zero", "one", "true"}
                                         => (Schema[k].skip = "never" \/ Schema[k].skip = Schema[k].load)
=============================================================================
