SPECIFICATION Spec
INVARIANTS InvFamily InvUnitSun InvNoon InvCalendar
CHECK_DEADLOCK FALSE
