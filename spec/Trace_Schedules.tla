--------------------------- MODULE Trace_Schedules ---------------------------
(***************************************************************************)
(* Trace validation for C17: recorded expansions of yearly schedules,      *)
(* recorded conversions of HULC schedule blocks, and recorded occupancy    *)
(* figures of the indicators, against Schedules.tla.                       *)
(***************************************************************************)
EXTENDS Schedules, Num, Json, IOUtils, TLC

Rec == ndJsonDeserialize(IOEnv.TRACE)
VARIABLE l
Ev == Rec[l]
IsEvent(e) == l <= Len(Rec) /\ Rec[l].ev = e /\ l' = l + 1
Chk(name, cond) == IF cond THEN TRUE ELSE PrintT(<<"FAIL", l, "C17", name>>)

\* sequences of [id, runs] -> function
FnOf(pairs) == [k \in { pairs[i].id : i \in DOMAIN pairs } |->
                  LET i == CHOOSE j \in DOMAIN pairs : pairs[j].id = k IN pairs[i].runs]
Pairs(s) == [i \in DOMAIN s |-> <<s[i][1], s[i][2]>>]
WeeksOf(ev) == LET f == FnOf(ev.weeks) IN [k \in DOMAIN f |-> Pairs(f[k])]

\* get_year_as_day_sch
TExpand ==
  /\ IsEvent("Expand")
  /\ Chk("RepetitionCountsWithinTheCalendar", ~("absurd" \in DOMAIN Ev))
  /\ LET P == Pairs(Ev.periods)  W == WeeksOf(Ev) IN
     /\ Chk("ExpansionLengthIsSumOfPeriods", WellFormed(P, W) => Len(Ev.got) = Total(P))
     /\ Chk("DayTakesWeekdaySlotOfItsPeriod", WellFormed(P, W) => Ev.got = Expand(P, W))
     \* the yearly values (SchedulesDb::year_values) and the hours-in-use flags are those of the days of the expansion, in order
     /\ Chk("YearValuesAreTheValuesOfItsDaysInOrder", "yv_ok" \in DOMAIN Ev => (Ev.yv_ok /\ Ev.nz_ok))

\* HULC SCHEDULE-PD (end dates) -> periods
TConvYear ==
  /\ IsEvent("ConvYear")
  /\ LET D == Pairs(Ev.dates) IN
     /\ Chk("ConversionSucceeds", Ev.ok)
     /\ Ev.ok =>
        /\ Chk("PeriodsPartitionTheYearAtTheDates", [i \in DOMAIN Ev.got |-> Ev.got[i][2]] = PeriodsOfDates(D))
        /\ Chk("WeeksKeptInOrder", [i \in DOMAIN Ev.got |-> Ev.got[i][1]] = Ev.weeknames)
        /\ Chk("YearIs365Days", (D[Len(D)] = <<31, 12>>) => Total(Pairs(Ev.got)) = 365)
TConvWeek ==
  /\ IsEvent("ConvWeek")
  /\ Chk("ConversionSucceeds", Ev.ok)
  /\ Ev.ok => Chk("RunsCoverSevenDays",
                  Flat(Pairs(Ev.got)) = (IF Len(Ev.days) = 1 THEN [i \in 1..7 |-> Ev.days[1]] ELSE Ev.days))
TConvDay ==
  /\ IsEvent("ConvDay")
  /\ Chk("ConversionSucceeds", Ev.ok)
  /\ Ev.ok => Chk("TwentyFourValues",
                  Ev.got = (IF Len(Ev.vals) = 1 THEN [i \in 1..24 |-> Ev.vals[1]] ELSE Ev.vals) /\ Len(Ev.got) = 24)
\* day of the year as the converter computes it (observed through one-period conversions)
TDayOfYear ==
  /\ IsEvent("DayOfYear")
  /\ Chk("DayOfYearAgreesWithCalendar", Ev.got = N(Ev.d, Ev.m))

\* occupancy figures of the indicators
YearsOf(ev) == LET f == FnOf(ev.years) IN [k \in DOMAIN f |-> Pairs(f[k])]
DayVals(ev, d) == LET i == CHOOSE j \in DOMAIN ev.days : ev.days[j].id = d IN ev.days[i].vals
HasDay(ev, d) == \E j \in DOMAIN ev.days : ev.days[j].id = d
NonZeroHours(ev, d) == IF HasDay(ev, d) THEN { h \in 1..24 : DayVals(ev, d)[h] > 0 } ELSE {}
ExpandOf(ev, y) == IF y \in DOMAIN YearsOf(ev) THEN Expand(YearsOf(ev)[y], WeeksOf(ev)) ELSE <<>>
\* sum of all hourly values of the expanded year (10^-4), as a Big
YearSum(ev, y) == LET E == ExpandOf(ev, y) IN
   FoldLeft(LAMBDA acc, d : IF HasDay(ev, d) THEN BigAdd(acc, BigOf(SumSeq(DayVals(ev, d), LAMBDA v : v))) ELSE acc, BigZero, E)
\* schedule average * load, 10^-6 W/m2 :  S [1e-4] * load [1e-2] / (N * 24)
Term(ev, y, load) == IF y = -1 \/ ExpandOf(ev, y) = <<>> THEN BigZero
                     ELSE BigDivSmall(BigMulSmall(YearSum(ev, y), load), Len(ExpandOf(ev, y)) * 24)
LoadsAvg(ev, s) == BigAdd(BigAdd(Term(ev, s.people, s.psens), Term(ev, s.light, s.li)), Term(ev, s.equip, s.eq))
TOccupancy ==
  /\ IsEvent("Occupancy")
  /\ LET occ == SelectSeq(Ev.spaces, LAMBDA s : s.occ)
         withpeople == SelectSeq(occ, LAMBDA s : s.people # -1)
         exps == [i \in DOMAIN withpeople |-> ExpandOf(Ev, withpeople[i].people)]
         regular == \A i \in DOMAIN exps : Len(exps[i]) = 365
         nz == [d \in { Ev.days[j].id : j \in DOMAIN Ev.days } |-> NonZeroHours(Ev, d)]
         Aw == BigSumSeq(occ, LAMBDA s : BigProd2(s.area, s.mult))                       \* 10^-6 m2
         Lw == BigSumSeq(occ, LAMBDA s : BigMul(BigProd2(s.area, s.mult), LoadsAvg(Ev, s)))  \* 10^-12
     IN /\ Chk("OccupiedHoursAreHoursWithSomeSpaceOccupied", (Ev.wellformed /\ regular) => Ev.hours = HoursInUse(exps, nz))
        /\ Chk("MeanLoadIsANonNegativeNumber", Ev.wellformed => Ev.meanok)
        /\ Chk("MeanLoadIsAreaWeightedMean",
               (Ev.wellformed /\ Ev.meanok) =>
                  IF BigLe(Aw, BigOf(1)) THEN Ev.mean = 0
                  ELSE \* mean [1e-4] * Aw [1e-6] * 100 = 1e-12
                       BigNear(BigMulSmall(BigMul(BigOf(Ev.mean), Aw), 100), Lw,
                               BigAdd(BigMulSmall(Aw, 300), BigDivSmall(Lw, 2000))))

TraceInit == l = 1
TraceNext == (TExpand \/ TConvYear \/ TConvWeek \/ TConvDay \/ TDayOfYear \/ TOccupancy)
TraceSpec == TraceInit /\ [][TraceNext]_l
Accepted == \/ TLCGet("stats").diameter - 1 = Len(Rec)
            \/ Print(<<"UNMATCHED", TLCGet("stats").diameter>>, FALSE)
=============================================================================
