-------------------------------- MODULE Shading --------------------------------
(***************************************************************************)
(* C12. Remote obstruction factor F_sh;obst of a window.                    *)
(*                                                                         *)
(* Aggregation: F = (1/N) sum over the July design-day hours of             *)
(*   (sunlit_h * beam_h + diffuse_h) / (beam_h + diffuse_h), 0 <= F <= 1.   *)
(* Sunlit fraction at an hour: 0 when the sun is behind the window (n.d <   *)
(* 0.01), otherwise the share of the window's sample points from which the  *)
(* straight line towards the sun meets no blocker. Blockers: exterior and   *)
(* adiabatic walls other than the window's own wall, shades, the window's   *)
(* own reveal surfaces; never interior or ground walls, never the reveals   *)
(* of other windows.                                                        *)
(*                                                                         *)
(* Exact scenes (units of 5 cm, integers): the window's wall is the plane   *)
(* y = 0 facing -y; sample points P = <<px, pz>> at depth `setback` behind  *)
(* the wall plane; sun direction D = <<dx, dy, dz>> with dy < 0; blockers   *)
(* are axis-aligned rectangles:                                             *)
(*   [k |-> "front", dist, x0, x1, z0, z1]   parallel to the wall, in front *)
(*   [k |-> "fin",   x, d, z0, z1]           perpendicular, x = const, from *)
(*                                           the wall plane out to depth d  *)
(*   [k |-> "over",  z, d, x0, x1]           horizontal, z = const          *)
(* Crossing a plane at distance m along -y happens at parameter m / (-dy);  *)
(* all comparisons are cross-multiplied by (-dy) > 0.                       *)
(***************************************************************************)
EXTENDS Integers, Sequences, FiniteSets, TLC

\* position (scaled by s = -dy) of the ray from P after travelling m units in -y: <<x * s, z * s>>
At(P, D, m) == << P[1] * (-D[2]) + D[1] * m, P[2] * (-D[2]) + D[3] * m >>
\* a < b, or a <= b in the loose reading (used only to recognise grazing rays)
Lt(a, b, loose) == IF loose THEN a <= b ELSE a < b
Abs(v) == IF v < 0 THEN -v ELSE v
\* does the ray from P (at depth sb behind the wall plane) meet blocker b ?
BlocksG(b, P, D, sb, loose) ==
  LET s == -D[2] IN
  CASE b.k = "front" ->
         LET q == At(P, D, sb + b.dist) IN
         Lt(b.x0 * s, q[1], loose) /\ Lt(q[1], b.x1 * s, loose) /\ Lt(b.z0 * s, q[2], loose) /\ Lt(q[2], b.z1 * s, loose)
    [] b.k = "fin" ->
         \* plane x = b.x reached at t = (b.x - px) / dx > 0 ; distance in front of the wall plane = -dy t - sb in (0, d)
         /\ D[1] # 0
         /\ LET num == b.x - P[1]
                adx == Abs(D[1])
                anum == Abs(num)
                yy == s * anum - sb * adx          \* times |dx|
                zz == P[2] * adx + D[3] * anum     \* times |dx|
            IN /\ IF num = 0 THEN loose ELSE (num > 0) = (D[1] > 0)      \* a sample point in the blocker's plane grazes it
               /\ Lt(0, yy, loose) /\ Lt(yy, b.d * adx, loose) /\ Lt(b.z0 * adx, zz, loose) /\ Lt(zz, b.z1 * adx, loose)
    [] b.k = "over" ->
         \* plane z = b.z reached at t = (b.z - pz) / dz > 0
         /\ D[3] > 0 /\ Lt(P[2], b.z, loose)
         /\ LET num == b.z - P[2]
                yy == s * num - sb * D[3]          \* times dz
                xx == P[1] * D[3] + D[1] * num     \* times dz
            IN Lt(0, yy, loose) /\ Lt(yy, b.d * D[3], loose) /\ Lt(b.x0 * D[3], xx, loose) /\ Lt(xx, b.x1 * D[3], loose)
Blocks(b, P, D, sb) == BlocksG(b, P, D, sb, FALSE)
\* own reveals: the four quads lining the recess of depth sb behind the wall plane (left and right jambs, head, sill);
\* seen from the sample plane they are two fins and two overhangs of depth sb
Reveals(win) ==
  { [k |-> "fin", x |-> win.x, d |-> win.sb, z0 |-> win.z, z1 |-> win.z + win.h, m |-> FALSE],
    [k |-> "fin", x |-> win.x + win.w, d |-> win.sb, z0 |-> win.z, z1 |-> win.z + win.h, m |-> FALSE],
    [k |-> "over", z |-> win.z + win.h, d |-> win.sb, x0 |-> win.x, x1 |-> win.x + win.w, m |-> FALSE],
    [k |-> "over", z |-> -win.z, d |-> win.sb, x0 |-> win.x, x1 |-> win.x + win.w, m |-> TRUE] }   \* the sill, mirrored in z
RevealBlocksG(win, P, D, sb, loose) ==
  sb > 0 /\ \E r \in Reveals(win) :
              IF r.m THEN BlocksG(r, <<P[1], -P[2]>>, <<D[1], D[2], -D[3]>>, 0, loose) ELSE BlocksG(r, P, D, 0, loose)
RevealBlocks(win, P, D, sb) == RevealBlocksG(win, P, D, sb, FALSE)
\* the same thing said in one line: the ray leaves the recess outside the window opening (checked equivalent on non-grazing rays)
LeavesOutsideOpening(win, P, D, sb) ==
  sb > 0 /\ LET q == At(P, D, sb)  s == -D[2] IN
            ~(win.x * s < q[1] /\ q[1] < (win.x + win.w) * s /\ win.z * s < q[2] /\ q[2] < (win.z + win.h) * s)
\* the 5 x 5 sample points of a window whose sides are multiples of 10 units: cell centres
Samples(win) == { << win.x + (2 * i + 1) * (win.w \div 10), win.z + (2 * j + 1) * (win.h \div 10) >> : i \in 0..4, j \in 0..4 }
Blocked(sc, P) == RevealBlocks(sc.win, P, sc.D, sc.win.sb) \/ \E i \in DOMAIN sc.blockers : Blocks(sc.blockers[i], P, sc.D, sc.win.sb)
NBlocked(sc) == Cardinality({ P \in Samples(sc.win) : Blocked(sc, P) })
\* sunlit fraction in 1/25 : 25 - blocked ; the sun is in front of the window (dy < 0 by construction)
Sunlit25(sc) == 25 - NBlocked(sc)
\* a scene is usable when no sample ray grazes an edge: the strict and the loose readings agree on every ray and blocker
Grazes(sc) == \E P \in Samples(sc.win) :
   \/ \E i \in DOMAIN sc.blockers : BlocksG(sc.blockers[i], P, sc.D, sc.win.sb, TRUE) # BlocksG(sc.blockers[i], P, sc.D, sc.win.sb, FALSE)
   \/ RevealBlocksG(sc.win, P, sc.D, sc.win.sb, TRUE) # RevealBlocksG(sc.win, P, sc.D, sc.win.sb, FALSE)

(***************************************************************************)
(* Aggregation over the July design-day hours. Units: sunlit fraction in    *)
(* 1/1000, irradiances in 0.01 W/m2, factor in 1/100, hourly term in 1e-4.  *)
(***************************************************************************)
HourTerm(sl, dir, dif) == ((sl * dir + dif * 1000) * 10) \div (dir + dif)
RECURSIVE SumTerms(_, _, _, _)
SumTerms(sl, dir, dif, n) == IF n = 0 THEN 0 ELSE HourTerm(sl[n], dir[n], dif[n]) + SumTerms(sl, dir, dif, n - 1)
Defined(dir, dif) == Len(dir) > 0 /\ \A h \in DOMAIN dir : dir[h] >= 0 /\ dif[h] >= 0 /\ dir[h] + dif[h] > 0 /\ dir[h] <= 200000 /\ dif[h] <= 200000
Fractions(sl) == \A h \in DOMAIN sl : 0 <= sl[h] /\ sl[h] <= 1000
\* value (1/100) equals the mean to two decimals: half a unit of rounding plus the quantisation of the inputs
MeanOk(value, sl, dir, dif) ==
  LET n == Len(sl)  d == value * 100 * n - SumTerms(sl, dir, dif, n) IN -60 * n <= d /\ d <= 60 * n
Bounded(value) == 0 <= value /\ value <= 100
\* the sun is behind the window at an hour: n . d < 0.01 (nd in 1e-4; the band [0.0095, 0.0105] is left undecided)
Behind(nd) == nd < 95
InFront(nd) == nd > 105

\* adding a blocker never increases the sunlit fraction (design-level theorem, checked on the enumerated scenes)
Monotone(sc, extra) == NBlocked([sc EXCEPT !.blockers = Append(@, extra)]) >= NBlocked(sc)
=============================================================================
